//! Harnesses for property C21 (see /verif/properties.jsonl): statistics.
//!
//! Every `c15_policy_*`/`c15_reject_*` harness asserts the registration of ignored datagrams
//! (exactly once, kind Ignore, the reason of the deciding policy step, NTS flag clear) and that
//! the policy half registers nothing for a datagram that will be answered; every `c16_wire_*`
//! harness asserts that `Server::handle` then registers exactly once with the kind that matches
//! the decoded response bytes. `c21_once` adds the remaining path: the answer does not fit the
//! caller's buffer (any buffer shorter than the answer), which must be recorded once as
//! (InternalError, Ignore), and rejected datagrams end-to-end.
use crate::c16::{class_cfg, Class, ALL_VERSIONS, BUF};
use crate::common::*;
use crate::stubs;
use ntp_proto::verif::{server as sh, time_types as tt};
use ntp_proto::*;
use std::net::{IpAddr, Ipv4Addr, Ipv6Addr};
use std::time::Duration;

#[cfg(kani)]
fn once(class: Class, b0: u8, len: usize, blen: usize) -> (Outcome, RecStats) {
    any_dispersion();
    let info = any_server_info();
    let now: u64 = kani::any();
    let recv: u64 = kani::any();
    let client = IpAddr::V4(Ipv4Addr::new(192, 0, 2, 1));
    let cfg = class_cfg(class, ALL_VERSIONS);
    let mut server = build_server(&cfg, SymClock { now: tt::ts_from_raw(now) }, info, zero_keyset());
    let mut stats = RecStats::new();
    let mut msg: [u8; 60] = kani::any();
    msg[0] = b0;
    let mut buf = [0u8; 60];
    let act = server.handle(client, tt::ts_from_raw(recv), &msg[..len], &mut buf[..blen], &mut stats);
    let out = outcome(&act);
    check_stats!(stats, out);
    assert!(!stats.nts, "C21: the NTS flag is never set for a plain request");
    assert!(stats.version == (b0 >> 3) & 7, "C21: recorded version is the datagram's version field");
    if out.kind.is_some() {
        assert!(out.resp_len <= blen, "response lies inside the caller's buffer");
    }
    std::mem::forget(server);
    (out, stats)
}

srv_harness! {
    #[kani::unwind(4)]
    fn c21_once() {
        // a buffer larger than the request: answered, registered once with the right kind
        let (out, stats) = once(Class::Time, 0x23, 48, 56);
        assert!(out.kind == Some(Kind::Time) && stats.reason == ServerReason::Policy, "C21: time answer recorded");
        kani::cover!(out.resp_len == 48, "time answer into a larger buffer");
        // a rejected datagram end-to-end (the full list: c15_reject_wire / c15_reject_short)
        let (out, stats) = once(Class::DenyList, 0x24, 48, 48);
        assert!(out.kind.is_none() && stats.reason == ServerReason::ParseError, "C21: non-client mode recorded as parse error");
        kani::cover!(stats.calls == 1, "registered once");
    }
}

srv_harness! {
    #[kani::unwind(4)]
    fn c21_once_buf0() {
        // answer does not fit: empty buffer
        let (out, stats) = once(Class::Time, 0x23, 48, 0);
        assert!(out.kind.is_none() && stats.reason == ServerReason::InternalError && stats.response == ServerResponse::Ignore, "C21: serialisation failure recorded once as (InternalError, Ignore)");
        kani::cover!(stats.calls == 1, "registered once");
    }
}

srv_harness! {
    #[kani::unwind(4)]
    fn c21_once_buf47() {
        // answer does not fit: one byte short, DENY kiss
        let (out, stats) = once(Class::DenyList, 0x1B, 52, 47);
        assert!(out.kind.is_none() && stats.reason == ServerReason::InternalError && stats.response == ServerResponse::Ignore, "C21: serialisation failure recorded once as (InternalError, Ignore)");
        kani::cover!(stats.calls == 1, "registered once");
    }
}
