use ntp_proto::verif::time_types as h;
use ntp_proto::{NtpDuration, NtpTimestamp};

#[kani::proof]
fn c32_ts_sub_add() {
    let a: u64 = kani::any();
    let b: u64 = kani::any();
    let ta = h::ts_from_raw(a);
    let tb = h::ts_from_raw(b);
    let d = ta - tb;
    // shortest signed difference (two's complement of the wrapped difference)
    let want = (a as i128 - b as i128).rem_euclid(1i128 << 64);
    let want = if want >= (1i128 << 63) { want - (1i128 << 64) } else { want };
    assert!(h::dur_raw(d) as i128 == want);
    assert!(tb + d == ta);
    assert!(ta - d == tb);
    kani::cover!(a < b, "era wrap");
}

#[kani::proof]
fn c32_dur_neg_abs() {
    let a: i64 = kani::any();
    let d = h::dur_from_raw(a);
    let n = -d;
    let want = if a == i64::MIN { i64::MAX } else { -a };
    assert!(h::dur_raw(n) == want, "negation saturates");
    let ab = d.abs();
    assert!(h::dur_raw(ab) >= 0, "abs is non-negative");
}
