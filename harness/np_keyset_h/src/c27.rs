//! Harnesses for property C27 (cookie key persistence: load validation, crash prefixes, restore).
//! Code under test: `KeySetProvider::{load, store}` (+ `KeySet::{encode_cookie, decode_cookie}` on
//! what was loaded). File format (keyset.rs): 8 bytes seconds since the Unix epoch, 4 bytes
//! id_offset, 4 bytes primary, 4 bytes number of keys (all big endian), then 64 bytes per key.
use crate::common::*;
use crate::stubs;
use std::time::{Duration, SystemTime};

const HDR: usize = 20;
const KEY: usize = 64;
/// Largest file explored: header + 2 keys.
const FILE_MAX: usize = HDR + 2 * KEY;
/// Backing arrays are one byte longer than the longest slice taken from them (a slice that ends
/// exactly at the end of its array makes CBMC explore phantom one-past-the-end cases).
const FILE_BUF: usize = FILE_MAX + 1;

fn be32(b: &[u8], at: usize) -> u32 {
    u32::from_be_bytes([b[at], b[at + 1], b[at + 2], b[at + 3]])
}
fn be64(b: &[u8], at: usize) -> u64 {
    u64::from_be_bytes([b[at], b[at + 1], b[at + 2], b[at + 3], b[at + 4], b[at + 5], b[at + 6], b[at + 7]])
}

/// Checks shared by the load harnesses: what an accepted file must look like and what was loaded.
/// Returns the loaded key set for further use.
fn check_loaded(file: &[u8; FILE_BUF], n: usize, history: usize, p: &KeySetProvider, time: SystemTime) {
    let secs = be64(file, 0);
    let off = be32(file, 8);
    let primary = be32(file, 12);
    let len = be32(file, 16) as usize;
    let ks = p.get();
    // an accepted file is complete: every declared key was present
    assert!(len <= 2 && n >= HDR + KEY * len, "accepted file contains all declared keys");
    assert!(kh::keyset_len(&ks) == len, "loaded as many keys as declared");
    assert!(kh::keyset_id_offset(&ks) == off, "id offset restored");
    assert!(kh::keyset_primary(&ks) == primary, "primary restored");
    assert!(kh::provider_history(p) == history, "configured history kept");
    assert!(SystemTime::UNIX_EPOCH.checked_add(Duration::from_secs(secs)) == Some(time), "creation time restored");
    let mut k = 0;
    while k < len {
        assert!(eq64(kh::keyset_key_bytes(&ks, k), &file[HDR + KEY * k..]), "key bytes restored");
        k += 1;
    }
    // the safety condition of the property: the loaded set can be used
    assert!((primary as usize) < kh::keyset_len(&ks), "primary indexes an existing key (encode_cookie indexes keys[primary])");
    std::mem::forget(ks);
}

/// Any byte string of up to 148 bytes (symbolic length) as key file. If it is accepted, the result
/// is exactly what the file says and is usable. (Before the fixes e6a5d66 / 5b49617 two regions
/// violated this: `primary == number of keys` was accepted, a time stamp >= 2^63 s panicked; they
/// are kept as the dedicated harnesses `c27_load_primary_eq_len` / `c27_load_time_overflow`.)
crate::ks_harness_spec! {
    #[kani::unwind(4)]
    fn c27_load() {
        let file: [u8; FILE_BUF] = kani::any();
        let n: usize = kani::any();
        let history: usize = kani::any();
        kani::assume(n <= FILE_MAX);
        let secs = be64(&file, 0);
        let primary = be32(&file, 12);
        let len = be32(&file, 16);
        let mut rd: &[u8] = &file[..n];
        match KeySetProvider::load(&mut rd, history) {
            Ok((p, time)) => {
                check_loaded(&file, n, history, &p, time);
                kani::cover!(len == 1, "file with one key accepted");
                kani::cover!(len == 2 && primary == 0, "file with two keys accepted, older key primary");
                kani::cover!(n > HDR + KEY && len == 1, "trailing bytes after the declared keys are ignored");
                std::mem::forget(p);
            }
            Err(e) => {
                // rejecting is always safe (the daemon then starts with fresh keys)
                std::mem::forget(e);
                kani::cover!(n < HDR, "truncated header rejected");
                kani::cover!(n >= HDR && primary > len, "primary beyond the key count rejected");
                kani::cover!(n == FILE_MAX && primary == len && len == 2, "primary == key count rejected");
                kani::cover!(n == FILE_MAX && secs > i64::MAX as u64 && len == 1 && primary == 0, "unrepresentable time stamp rejected");
                kani::cover!(n == FILE_MAX && len == 3 && primary < 3, "file shorter than its declared keys rejected");
                kani::cover!(n == HDR + KEY + 5 && len == 2 && primary < 2, "truncated inside the second key rejected");
            }
        }
    }
}

/// Regression harness for the fixed defect "primary == number of keys" (fix e6a5d66; before it the
/// 20-byte all-zero file loaded and the first `encode_cookie` panicked at keyset.rs:172 with
/// "index out of bounds: the len is 0 but the index is 0"). Such a file must be rejected; if it were
/// accepted the harness goes on to issue a cookie, so a regression shows up as the real crash.
fn primary_eq_len_body(nkeys: u32, mut file: [u8; HDR + KEY]) {
    file[12..16].copy_from_slice(&nkeys.to_be_bytes()); // primary
    file[16..20].copy_from_slice(&nkeys.to_be_bytes()); // number of keys
    let n = HDR + KEY * nkeys as usize;
    let mut rd: &[u8] = &file[..n];
    match KeySetProvider::load(&mut rd, 1) {
        Ok((p, _time)) => {
            let ks = p.get();
            // what the NTS-KE server and the NTP server do with the loaded set:
            let c = cookie256([1; 32], [2; 32]);
            let enc = kh::keyset_encode_cookie(&ks, &c);
            assert!(enc.len() > 22, "cookie issued");
            assert!(false, "a key file whose primary is not one of its keys must be rejected");
            std::mem::forget(c);
            std::mem::forget(ks);
            std::mem::forget(p);
        }
        Err(e) => {
            std::mem::forget(e);
            kani::cover!(nkeys == 0, "file without keys rejected");
            kani::cover!(nkeys == 1, "one key, primary 1 rejected");
        }
    }
}

crate::ks_harness_spec! {
    #[kani::unwind(40)]
    fn c27_load_primary_eq_len() {
        symbolic_aead(MODE_EXPECT_OK);
        let file: [u8; HDR + KEY] = kani::any();
        let with_key: bool = kani::any();
        if with_key {
            primary_eq_len_body(1, file);
        } else {
            primary_eq_len_body(0, file);
        }
    }
}

/// Regression harness for the fixed defect "time stamp >= 2^63 s" (fix 5b49617; before it `load`
/// panicked at keyset.rs:101 "overflow when adding duration to `SystemTime`" on the 20-byte file
/// 80 00 .. 00). Such a header must be rejected without panic, whatever follows.
crate::ks_harness_spec! {
    #[kani::unwind(4)]
    fn c27_load_time_overflow() {
        let file: [u8; HDR + KEY + 1] = kani::any();
        let n: usize = kani::any();
        kani::assume(n >= HDR && n <= HDR + KEY);
        let secs = be64(&file, 0);
        kani::assume(secs > i64::MAX as u64);
        let mut rd: &[u8] = &file[..n];
        let r = KeySetProvider::load(&mut rd, 1);
        let rejected = r.is_err();
        std::mem::forget(r);
        assert!(rejected, "a time stamp that SystemTime cannot represent is rejected");
        kani::cover!(secs == 1u64 << 63 && n == HDR + KEY && be32(&file, 16) == 1 && be32(&file, 12) == 0, "otherwise valid one-key file rejected for its time stamp");
    }
}

/// Every key set `c27_load` can return (1 or 2 keys, `primary < len`, any id offset) can issue a
/// cookie and decode it again.
fn usable_body(nkeys: usize) {
    symbolic_aead(MODE_EXPECT_OK);
    let keys = symbolic_keys(nkeys);
    let off: u32 = kani::any();
    let primary: u32 = kani::any();
    let s2c: [u8; 32] = kani::any();
    let c2s: [u8; 32] = kani::any();
    kani::assume((primary as usize) < nkeys);
    let v = if nkeys == 1 { vec![key512(keys[0])] } else { vec![key512(keys[0]), key512(keys[1])] };
    let ks = kh::keyset_from_parts(v, off, primary);
    let c = cookie256(s2c, c2s);
    let enc = kh::keyset_encode_cookie(&ks, &c);
    match kh::keyset_decode_cookie(&ks, &enc) {
        Ok(d) => {
            let same = same_cookie(&d, 15, &s2c, &c2s);
            std::mem::forget(d);
            assert!(same, "a loaded key set issues cookies it can decode");
            kani::cover!(primary == 0, "oldest key is primary");
            kani::cover!(primary as usize == nkeys - 1, "newest key is primary");
        }
        Err(_) => assert!(false, "a loaded key set must decode its own cookies"),
    }
    std::mem::forget(c);
    std::mem::forget(ks);
}

crate::ks_harness_spec! {
    #[kani::unwind(40)]
    fn c27_usable_1() { usable_body(1) }
}
crate::ks_harness_spec! {
    #[kani::unwind(40)]
    fn c27_usable_2() { usable_body(2) }
}

/// A provider as the daemon holds it: `nkeys` keys, newest is primary.
fn stored_provider(nkeys: usize, keys: &[[u8; 64]; KEYS_N], off: u32, history: usize) -> KeySetProvider {
    let v = if nkeys == 1 { vec![key512(keys[0])] } else { vec![key512(keys[0]), key512(keys[1])] };
    kh::provider_from_parts(kh::keyset_from_parts(v, off, nkeys as u32 - 1), history)
}

/// Crash while storing: the file on disk is some prefix of what `store` writes (the file is opened
/// with truncate, then written front to back). Loading any prefix either fails (=> fresh keys) or
/// the prefix is the whole file and the loaded set equals the stored one.
fn crash_body(nkeys: usize) {
    let keys = symbolic_keys(nkeys);
    let off: u32 = kani::any();
    let history: usize = kani::any();
    let cut: usize = kani::any();
    let now = symbolic_wall_clock();
    let full = HDR + KEY * nkeys;
    kani::assume(cut <= full);
    let p = stored_provider(nkeys, &keys, off, history);
    let mut buf = [0u8; FILE_BUF];
    {
        let mut w: &mut [u8] = &mut buf[..];
        let r = p.store(&mut w);
        assert!(r.is_ok(), "storing into a large enough file succeeds");
        assert!(w.len() == FILE_BUF - full, "store writes header + 64 bytes per key");
        std::mem::forget(r);
    }
    let mut rd: &[u8] = &buf[..cut];
    match KeySetProvider::load(&mut rd, history) {
        Ok((q, time)) => {
            assert!(cut == full, "no strict prefix of a stored file is accepted");
            let a = p.get();
            let b = q.get();
            assert!(kh::keyset_len(&b) == nkeys, "same number of keys");
            assert!(kh::keyset_id_offset(&b) == off, "same id offset");
            assert!(kh::keyset_primary(&b) == kh::keyset_primary(&a), "same primary");
            let mut k = 0;
            while k < nkeys {
                assert!(eq64(kh::keyset_key_bytes(&b, k), &keys[k]), "same key bytes");
                k += 1;
            }
            assert!(time == SystemTime::UNIX_EPOCH + Duration::from_secs(now), "creation time (seconds) restored");
            kani::cover!(true, "complete file restored");
            std::mem::forget(a);
            std::mem::forget(b);
            std::mem::forget(q);
        }
        Err(e) => {
            std::mem::forget(e);
            assert!(cut < full, "the complete file is accepted");
            kani::cover!(cut == 0, "crash right after the truncating open");
            kani::cover!(cut == HDR, "crash after the header");
            kani::cover!(cut == full - 1, "crash one byte before the end");
        }
    }
    std::mem::forget(p);
}

crate::ks_harness_spec! {
    #[kani::unwind(4)]
    fn c27_crash_1() { crash_body(1) }
}
crate::ks_harness_spec! {
    #[kani::unwind(4)]
    fn c27_crash_2() { crash_body(2) }
}

/// Restart: cookies issued before `store` decode after `load` of the stored file.
crate::ks_harness_spec! {
    #[kani::unwind(40)]
    fn c27_restore() {
        symbolic_aead(MODE_EXPECT_OK);
        let keys = symbolic_keys(2);
        let off: u32 = kani::any();
        let history: usize = kani::any();
        let s2c: [u8; 32] = kani::any();
        let c2s: [u8; 32] = kani::any();
        let _now = symbolic_wall_clock();
        let p = stored_provider(2, &keys, off, history);
        let c = cookie256(s2c, c2s);
        let before = p.get();
        let enc = kh::keyset_encode_cookie(&before, &c);
        let mut buf = [0u8; FILE_BUF];
        {
            let mut w: &mut [u8] = &mut buf[..];
            let r = p.store(&mut w);
            assert!(r.is_ok(), "store succeeds");
            std::mem::forget(r);
        }
        let mut rd: &[u8] = &buf[..FILE_MAX];
        match KeySetProvider::load(&mut rd, history) {
            Ok((q, _time)) => {
                let after = q.get();
                match kh::keyset_decode_cookie(&after, &enc) {
                    Ok(d) => {
                        let same = same_cookie(&d, 15, &s2c, &c2s);
                        std::mem::forget(d);
                        assert!(same, "a cookie issued before the restart decodes to the same contents after it");
                        kani::cover!(true, "old cookie accepted after restart");
                    }
                    Err(_) => assert!(false, "a cookie issued before the restart must still decode"),
                }
                std::mem::forget(after);
                std::mem::forget(q);
            }
            Err(e) => {
                std::mem::forget(e);
                assert!(false, "a stored file must load");
            }
        }
        std::mem::forget(c);
        std::mem::forget(before);
        std::mem::forget(p);
    }
}
