NP = "np_srvnts_h"
PROP = dict(
    functions=[
        "ntp_proto::packet::NtpPacket::nts_timestamp_response (NTPv4 arm: cookie generation, unique-identifier echo), NtpHeaderV3V4::timestamp_response",
        "ntp_proto::keyset::KeySet::encode_cookie (model)",
    ],
    bounds=("request packet built from parts: authenticated [unique identifier(32 symbolic bytes), cookie(8), 2 cookie placeholders with symbolic 16-bit lengths], nothing encrypted; "
            "fresh cookie length 8 (model; the code only compares cookie lengths with request field lengths, the real length is 104); symbolic reception time, clock, synchronisation state, poll, transmit timestamp"),
    outside=("everything that needs Server::handle on an NTS request: NAK/DENY after authentication failure, choice of the s2c key, associated-data coverage of the authenticator, answer size. Harnesses for these exist "
             "(c19_nts_* on bytes, c19_inner_* on the unserialized answer) but are not registered: symbolic execution of the NTS request path (KeySet::get, boxed dyn Cipher, decrypt, drop glue) exceeded 8 GB before reaching the answer, "
             "also with the real AES ciphers stubbed out and KeySet::get replaced by an index-loop model. Also outside: more than 2 placeholders (c19_cookies_p9 with 10 candidates, unwind 13, and c19_cookies_small_cookie with an encrypted placeholder "
             "exceed 8 GB), so the limit of eight is NOT exercised; NTPv5; real AES-SIV and real cookie encoding (ideal model); cookie confidentiality; key rotation"),
    assumptions=[
        "cookie model: encode_cookie returns an 8-byte cookie tagged with call number and session key ids and records the key set it ran on; session ciphers are ModelCipher (ids S2C/C2S)",
        "server state: precision >= 0, 0 <= root delay, root dispersion <= 65535 s",
    ],
    stub_notes=[
        "ntp_proto::KeySet::encode_cookie -> common::model_encode_cookie (decode_cookie / KeySet::get / AesSivCmac*::{encrypt,decrypt} models are attached but unreachable in this harness)",
        "TimeSnapshot::root_dispersion -> arbitrary non-negative duration",
        "cargo-kani flags from harness/np_srvnts_h/Cargo.toml: no-assertion-reach-checks, no-memory-safety-checks, no-overflow-checks, --max-field-sensitivity-array-size 127",
    ],
    harnesses=[
        H(NP, "c19", "c19_cookies_p2", "cookie + 2 placeholders of symbolic length: #fresh cookies <= #fields at least as long as a fresh cookie (<= 3 <= 8); every cookie comes from its own encode_cookie call for the same session keys under the given key set; only the unique identifier is echoed", timeout=1800, native_check="native::native_short_placeholders_get_no_cookie"),
    ],
)
