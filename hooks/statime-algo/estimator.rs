//! Safe-Rust verification hooks for this module (accessors/wrappers only; no logic).
#![allow(missing_docs, unused_imports, dead_code)]
use super::*;

// ---- statime_h (C42/C43): name the types, raw entry access, layout getters
// (type aliases, not re-exports: a re-export would make the items 'exported' and trip the crate's missing_docs lint)
pub type EstimatorStateT<S> = super::EstimatorState<S>;
pub type UncertainValueT = super::UncertainValue;

pub fn est_rows<S: KalmanStorageBase>(e: &EstimatorState<S>) -> usize {
    e.state.rows()
}
pub fn est_cov_dims<S: KalmanStorageBase>(e: &EstimatorState<S>) -> (usize, usize) {
    (e.uncertainty.rows(), e.uncertainty.cols())
}
pub fn est_state_dims<S: KalmanStorageBase>(e: &EstimatorState<S>) -> (usize, usize) {
    (e.state.rows(), e.state.cols())
}
pub fn est_state_get<S: KalmanStorageBase>(e: &EstimatorState<S>, r: usize) -> f64 {
    e.state[(r, 0)]
}
pub fn est_state_set<S: KalmanStorageBase>(e: &mut EstimatorState<S>, r: usize, v: f64) {
    e.state[(r, 0)] = v;
}
pub fn est_cov_get<S: KalmanStorageBase>(e: &EstimatorState<S>, r: usize, c: usize) -> f64 {
    e.uncertainty[(r, c)]
}
pub fn est_cov_set<S: KalmanStorageBase>(e: &mut EstimatorState<S>, r: usize, c: usize, v: f64) {
    e.uncertainty[(r, c)] = v;
}
pub fn est_time<S: KalmanStorageBase>(e: &EstimatorState<S>) -> Timestamp<TAI> {
    e.time
}
/// Row of the offset entry of clock `id` (the frequency entry is the next row), as the queries index it.
pub fn est_clock_row<S: KalmanStorageBase>(e: &EstimatorState<S>, id: ClockId) -> Option<usize> {
    e.get_clock_info(id).ok().map(|i| i.offset_index())
}
pub fn est_clock_freq_row<S: KalmanStorageBase>(e: &EstimatorState<S>, id: ClockId) -> Option<usize> {
    e.get_clock_info(id).ok().map(|i| i.frequency_index())
}
pub fn est_clock_wander<S: KalmanStorageBase>(e: &EstimatorState<S>, id: ClockId) -> Option<f64> {
    e.get_clock_info(id).ok().map(|i| i.wander)
}
/// Row of the delay entry of link `id`.
pub fn est_link_row<S: KalmanStorageBase>(e: &EstimatorState<S>, id: LinkId) -> Option<usize> {
    e.get_link_info(id).ok().map(|i| i.index)
}
pub fn est_link_decay<S: KalmanStorageBase>(e: &EstimatorState<S>, id: LinkId) -> Option<f64> {
    e.get_link_info(id).ok().map(|i| i.decay_rate)
}
pub fn est_counts<S: KalmanStorageBase>(e: &EstimatorState<S>) -> (usize, usize, usize) {
    (e.clock_info.0.len(), e.external_clocks.0.len(), e.link_info.0.len())
}
