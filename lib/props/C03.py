NP = "np_algo_h"
_STUBS = [
    "select harnesses: alloc::slice::stable_sort -> common::stable_sort_stub (stable insertion sort model of [T]::sort_by; std's small-sort network with a symbolic slice length does not get through symbolic execution)",
    "select harnesses: f64::sqrt -> common::sqrt_uf (arbitrary deterministic function with sqrt's shape: NaN for negative, 0 -> 0, inf -> inf; the geometry harnesses define it with its true value sqrt(1/256) = 1/16 on the only non-zero variance they use). CBMC's sqrt model is two 53-bit multipliers per call",
    "select harnesses: Vec::push / Vec::reserve -> common::vec_push_nogrow / vec_reserve_nogrow (no reallocation path; the stubs assert that the capacity allocated by the code suffices, so an input that would need growth is reported)",
    "select harnesses: Iterator::collect -> common::CollectOnePass::collect_one_pass (Vec built by one for_each pass: same elements, same order; std pulls a Filter iterator with next(), whose search loop is re-instantiated (unwind+1)^2 times: 12 M clauses for 3 candidates)",
]
PROP = dict(
    functions=[
        "ntp_proto::algorithm::kalman::select::select (real code through a hook), SourceSnapshot::{offset, offset_uncertainty}, NtpLeapIndicator::is_synchronized, f64::total_cmp",
        "steering link (syntactic, by reading algorithm/kalman/mod.rs:128-230): update_clock builds `candidates` only from sources whose `usable` flag is set (filter_map at 128-137), passes them to select(), passes select()'s result to combine(); steer_offset / steer_frequency (the only callers of step_clock / set_frequency apart from time_update's end-of-slew) are called only inside `if let Some(combined) = combine(&selection, ..)`, and combine() is None iff the selection is empty; used_sources is combine()'s list of the selected sources",
    ],
    bounds="3 candidates (quick) / 4 candidates (thorough) with concrete eligibility patterns {eligible, unsynchronised, periodic, too uncertain} and symbolic geometry: offsets any multiple of 1/16 s in [-8, 8), radii 0, 1/16, 1/8, 1/4 s (from delay and from the statistical term), default weights and limit, any minimum_agreeing_sources; thorough c03_select: 3 candidates with symbolic eligibility (any leap value, periodic flag, radius k in 0..15 s against any non-NaN limit), offsets any whole second in i8. Candidate sets smaller than the bound are covered through unsynchronised candidates (skipped by both passes of select).",
    outside="more than 4 candidates; arbitrary f64 offsets/delays (with arbitrary doubles the SAT solver does not identify the three copies of the end-point arithmetic: > 10 min for 2 candidates), NaN/infinite inputs, -0.0 ties; the numerical value of sqrt; update_clock end to end (c03_usable of the design: update_clock needs a populated HashMap of sources; inserting two sources with concrete keys was still inside hashbrown's find_or_find_insert_index_inner after 7 min of symbolic execution: measured; replaced by the syntactic note above)",
    assumptions=[
        "finite offsets, delay >= 0, variance >= 0, weights >= 0 (otherwise lo > hi and `cur -= 1` underflows: NaN/negative inputs are C06 territory)",
        "oracle: closed intervals share a point iff some interval's lower end lies in all of them; the code's sweep breaks ties between an upper and a lower end by candidate order and can only under-count (checked direction: non-empty selection => majority exists)",
    ],
    stub_notes=_STUBS,
    harnesses=[
        H(NP, "c03", "c03_geo3_all", "3 eligible candidates: selection non-empty only with an agreeing strict majority >= minimum; only candidates returned, no duplicates", timeout=600),
        H(NP, "c03", "c03_geo3_unsync", "3 candidates, one unsynchronised: never returned, not counted", timeout=600),
        H(NP, "c03", "c03_geo3_periodic", "3 candidates, one periodic: does not vote (may join an agreed interval)", tier="thorough", timeout=1800),
        H(NP, "c03", "c03_geo3_uncertain", "3 candidates, one above the uncertainty limit: never returned, not counted", tier="thorough", timeout=1800),
        H(NP, "c03", "c03_select", "3 candidates, symbolic eligibility and limit, integer grid", tier="thorough", timeout=1800),
        H(NP, "c03", "c03_geo4_all", "4 eligible candidates", tier="thorough", timeout=1800),
        H(NP, "c03", "c03_geo4_mixed", "4 candidates: one unsynchronised, one too uncertain", tier="thorough", timeout=1800),
        H(NP, "c03", "c03_geo4_periodic", "4 candidates, one periodic", tier="thorough", timeout=1800),
        H("np_algo_h", "cupd", "cupd_no_consensus", "update_clock without consensus: the clock is neither stepped nor steered, nothing is handed to it", timeout=600),
],
)
