//! Safe-Rust verification hooks for this module (accessors/wrappers only; no logic).
#![allow(missing_docs, unused_imports, dead_code)]
use super::*;

// --- C40 (ntpd_h): `deserialize_sample`, `SockSample` and `SampleError` are private.
/// Accepted sample as raw fields `(offset, pulse, leap, magic)`; rejected sample as a small
/// discriminant of `SampleError` (0 IO, 1 slice, 2 size, 3 magic, 4 pulse, 5 non-finite offset, 255 any variant added later).
pub fn deserialize_sample_raw(
    result: Result<usize, std::io::Error>,
    buf: [u8; SOCK_SAMPLE_SIZE],
) -> Result<(f64, i32, i32, i32), u8> {
    match deserialize_sample(result, buf) {
        Ok(s) => Ok((s.offset, s.pulse, s.leap, s.magic)),
        Err(SampleError::IOError(_)) => Err(0),
        Err(SampleError::SliceError(_)) => Err(1),
        Err(SampleError::WrongSize(_)) => Err(2),
        Err(SampleError::WrongMagic(_)) => Err(3),
        Err(SampleError::WrongPulse(_)) => Err(4),
        Err(SampleError::NonFiniteOffset(_)) => Err(5),
        #[allow(unreachable_patterns)]
        Err(_) => Err(255),
    }
}
pub const SAMPLE_SIZE: usize = SOCK_SAMPLE_SIZE;
