//! Harnesses for property C14 (see /verif/properties.jsonl).
use crate::stubs;
