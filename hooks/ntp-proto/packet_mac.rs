//! Safe-Rust verification hooks for this module (accessors/wrappers only; no logic).
#![allow(unused_imports, dead_code)]
use super::*;

// ---- C23/C24 (np_packet_h)
pub fn mac_parts<'a, 'b>(m: &'b Mac<'a>) -> (u32, &'b [u8]) {
    (m.keyid, &m.mac)
}
