NH = "np_nts_h"
PROP = dict(
    functions=[
        "ntp_proto::source::NtpSource<RecCtl>::handle_timer (all branches)",
        "ntp_proto::packet::NtpPacket::{poll_message,poll_message_upgrade_request,poll_message_v5,serialize,push_additional} (plain sources: real; NTS: serialize on the recorder's packet)",
        "ntp_proto::packet::extension_fields::ExtensionField::{serialize,encode_nts_cookie,encode_nts_cookie_placeholder,encode_framing,encode_padding,write_zeros}",
        "ntp_proto::packet::v5::extension_fields::ReferenceIdRequest::serialize, RemoteBloomFilter::next_request",
    ],
    bounds="NTS sources: every cookie length 0..=1024 (symbolic), every stash fill 0..=8, the four protocol-version states, any reach/tries/poll desire 0..=17, every random draw; "
           "per-field encoder: every cookie/placeholder length 0..=64 into every buffer size 0..=80, both wire formats; plain sources: NTPv4 and NTPv4-upgrading, any poll/reach/tries state",
    outside="handle_timer of a plain NTPv5 / just-upgraded source with the real NTPv5 builder+encoder (draft-id and reference-id request fields): 875 k steps, > 8 GB in the solver (c14_poll_plain_v5/_upgraded kept in c14.rs, not registered). The composition 'datagram = header + fields + authenticator' inside NtpPacket::serialize / ExtensionFieldData::serialize / encode_encrypted for an NTS request is NOT "
            "decided end-to-end: handle_timer + real builder + real encoder in one query does not finish (symex alone > 10 min and > 8 GB for 4 fields; every encoder iteration "
            "dispatches on a symbolic field kind at a symbolic cursor position). It is covered piecewise: handle_timer's decisions (c14_poll_timer_*), the builder's field list "
            "(c13_poll_message_*), each field's encoded size (c14_ef_nofit), the sum (c14_budget), and the encoder loop itself by C24's round-trip harnesses. "
            "Per-field encoded size for cookie lengths 65..=724 (the per-field harnesses c14_ef_size_* with L <= 128 already need > 8 GB in the solver, kept in c14.rs, not registered; the encoder is the same loop, 32 bytes of zeros per iteration). Sizes of the fixed fields (unique id 36, draft id 28, authenticator 40 bytes) are taken from the wire format, not from a harness; the reference-id request is 4 bytes + the Bloom-filter chunk size READ FROM THE SOURCE under test (so a constructor that picks a larger chunk is seen). "
            "Cookies longer than 1024 bytes (a 1024-byte receive buffer cannot deliver them)",
    assumptions=[
        "ideal AEAD sizes for the request authenticator: nonce 16 bytes, ciphertext = plaintext + 16 (AES-SIV)",
        "poll desire of the controller within 0..=17 in the NTS harnesses (arbitrary i8 in c14_poll_plain)",
    ],
    stub_notes=[
        "c14_poll_timer_*: NtpPacket::nts_poll_message{,_v5} replaced by a recorder returning the plain poll message of the same version with a unique id from the ghost tape",
        "ExtensionField::write_zeros replaced by one write of n zeros wherever the encoder runs inside handle_timer (equivalence with the real loop: c14_write_zeros_model)",
        "thread_rng: ghost tape; HashMap::insert on the snapshot publication map: no-op; clock: ghost instants",
    ],
    harnesses=[
        H(NH, "c14", "c14_poll_timer_v4", "NTPv4 NTS source, all cookie lengths 0..=1024 and stash fills: Send+SetTimer or Reset, never a panic; requested count = min(missing, fit); the request asked for fits 1024 bytes", timeout=600),
        H(NH, "c14", "c14_poll_timer_v5", "same for upgrading / upgraded (incl. fallback to v4) / NTPv5 NTS sources", timeout=600),
        H(NH, "c14", "c14_ef_nofit", "real per-field encoder (cookie and placeholder field, both framings), L <= 64, every remaining buffer size <= 80: written iff it fits and then exactly max(16, 4 + L rounded up to 4) bytes; otherwise an error, never a panic", timeout=600),
        H(NH, "c14", "c14_budget", "margin rule vs. field sizes: fixed part + min(missing, floor(724/max(L,1))) cookie-sized fields <= 1024 for all L, fills, versions", timeout=600),
        H(NH, "c14", "c14_write_zeros_model", "loop-free write_zeros model = real loop (bytes, position, success) for n <= 40, room <= 48 (the model is only reached with padding-sized n)", timeout=600),
        H(NH, "c14", "c14_poll_plain_v4", "source without NTS, NTPv4, real builder + encoder: Send(<= 1024)+SetTimer, Reset or Demobilize; never a panic", timeout=600),
        H(NH, "c14", "c14_poll_plain_upgrading", "same, NTPv4 with upgrade request", timeout=600),
    ],
)
