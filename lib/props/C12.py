NS = "np_source_h"
import importlib.util, os
_spec = importlib.util.spec_from_file_location("c08", os.path.join(os.path.dirname(__file__), "C08.py"))
_m = importlib.util.module_from_spec(_spec); _m.H = H; _spec.loader.exec_module(_m)
PROP = dict(
    functions=[
        "ntp_proto::source::NtpSource::<RecCtl>::handle_timer (fallback, choice of poll_message / poll_message_upgrade_request / poll_message_v5, serialisation)",
        "ntp_proto::source::NtpSource::<RecCtl>::handle_incoming (upgrade state machine)",
        "ntp_proto::source::ProtocolVersion::is_expected_incoming_version, ntp_proto::packet::NtpPacket::is_upgrade",
    ],
    bounds=_m._bounds48.replace("one handle_incoming", "one handle_timer / one handle_incoming") + "; reference transition function written from the property text (c12.rs)",
    outside="what UpgradedToV5 / V5 put on the wire and the absence of a fallback while fewer than two polls are missed (needs the NTPv5 request serialiser: handle_timer from a CONCRETE V5 state does not finish symbolic execution, > 6 min / > 4.7 GB; cause: ReferenceIdRequest::new(..).expect() leaves the field length symbolic); NTS sources (version fixed by key exchange: C07); NtpManager's choice of the initial state from the configuration",
    assumptions=[
        "V4UpgradingToV5.tries_left in 1..=8 on the pre-state; the post-state is asserted to stay in 1..=8",
        "matching answer = answers the pending request, fresh, expected version (KISS answers count: the state machine runs before the KISS dispatch)",
        "upgrade marker = version-4 packet whose reference timestamp is \"NTP5DRFT\"",
    ],
    stub_notes=_m._stubs,
    harnesses=[
        H(NS, "c12", "c12_timer", "timer transition == reference; V4 sends plain v4 (48 bytes, no marker), upgrading sends v4 with the marker (v4 family)", timeout=600),
        H(NS, "c12", "c12_incoming", "incoming transition == reference (soundness + completeness), counter stays in 1..=8, unexpected versions ignored entirely (48-byte packets)", timeout=600),
        H(NS, "c12", "c12_confirm", "UpgradedToV5 -> V5 on a matching NTPv5 answer and only then (foreign cookie / late answer: stays UpgradedToV5); 76-byte template, one header combination", timeout=600),
        H(NS, "c12", "c12_fallback", "UpgradedToV5 with the last two polls unanswered (reach in {0x00,0x04,0x80,0xFC}) returns to V4 before sending a plain NTPv4 request, or is reset when unreachable after start-up", timeout=600),
        H(NS, "c12", "c12_incoming_v5", "incoming transition for NTPv5 answers (UpgradedToV5 -> V5 on a matching answer only)", tier="thorough"),
    ],
)
