//! Safe-Rust verification hooks for this module (accessors/wrappers only; no logic).
#![allow(missing_docs, unused_imports, dead_code)]
use super::*;
pub use super::tlvs::vh_messages_tlvs as tlvs;

// ---- statime_h (C44/C45): the CSPTP message classifier as the server/client see it
pub fn csptp_parse_kind(buffer: &[u8]) -> Option<(bool, bool)> {
    CsptpMessage::deserialize(buffer).ok().map(|m| (m.is_request(), m.is_response()))
}
