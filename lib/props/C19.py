NP = "np_srvnts_h"
PROP = dict(
    functions=[
        "ntp_proto::server::Server<FixedClock>::handle (NTS paths of handle_inner: NAK on decrypt failure, cipher choice)",
        "ntp_proto::packet::NtpPacket::{deserialize, nts_timestamp_response, nts_nak_response, nts_deny_response, deny_response, serialize}",
        "ntp_proto::packet::extension_fields::{ExtensionFieldData::{deserialize, serialize}, RawEncryptedField::{from_message_bytes, decrypt}, ExtensionField::encode_encrypted}",
        "<ntp_proto::keyset::KeySet as CipherProvider>::get (real), KeySet::{decode_cookie, encode_cookie} (models)",
    ],
    bounds=("NTPv4 layout template header48 | unique identifier(16) | cookie(8) | authenticator(nonce 16, empty plaintext, tag 16) = 120 bytes; "
            "constant per harness: layout, policy (serve / deny by address), authentication outcome (ok / cookie does not decode / tag does not verify); "
            "symbolic: header bytes 1..47, identifier, 4 cookie bytes, nonce, tag, reception time, clock, synchronisation state; model cookie length 8 "
            "(the code only compares cookie lengths with request field lengths; the real length is 104)"),
    outside=("placeholders and cookies/placeholders inside the encrypted part (the 8-cookie limit and the per-placeholder size guard are NOT exercised: with a placeholder in the template symbolic execution of "
             "the answer serializer did not finish within the 30-minute cap), extra authenticated/encrypted/unauthenticated fields, NTPv5 NTS, real AES-SIV (ideal-AEAD assumption), "
             "cookie confidentiality, key rotation histories (abstracted into 'the cookie decodes or it does not')"),
    assumptions=[
        "ideal AEAD (DESIGN 2.6): decrypt under the cookie's c2s key succeeds iff the harness flag 'authentic' is set; the extents handed to decrypt are recorded and asserted to be exactly (request prefix, nonce, ciphertext)",
        "cookie model: decode_cookie succeeds iff the harness flag 'cookie valid' is set and yields the association's (s2c, c2s) model keys; encode_cookie returns an 8-byte cookie tagged with call number and session key ids and records the key set it ran on",
        "server state and policy as in C18",
    ],
    stub_notes=[
        "ntp_proto::KeySet::decode_cookie -> common::model_decode_cookie; ntp_proto::KeySet::encode_cookie -> common::model_encode_cookie",
        "session ciphers: common::ModelCipher (implements the public Cipher trait)",
        "as C18 for root_dispersion / from_utf8 / is_ascii / cargo-kani flags",
    ],
    harnesses=[
        H(NP, "c19", "c19_nts_time", "authentic request: time answer, authenticated by exactly one encrypt call under the s2c key over exactly the answer prefix (prefix unchanged afterwards), one fresh cookie from encode_cookie(current key set, same session keys), answer = request length", timeout=1800),
        H(NP, "c19", "c19_nts_nak_cookie", "cookie does not decode: NTS NAK (stratum 0, NTSN, no timestamps), only the identifier echoed, nothing encrypted", timeout=1800),
        H(NP, "c19", "c19_nts_nak_tag", "cookie decodes, tag does not verify: NTS NAK, never time", timeout=1800),
        H(NP, "c19", "c19_nts_deny", "authentic request of a denied client: DENY authenticated under s2c, no cookies", tier="thorough", timeout=1800),
        H(NP, "c19", "c19_nts_deny_unauth", "unauthenticated request of a denied client: plain DENY, never time", tier="thorough", timeout=1800),
    ],
)
