//! C32 Time arithmetic is exact, era-safe and never panics.
//! Reference arithmetic is i128 (NTP types) / checked 128-bit ops and two-limb reasoning (PTP types).
use ntp_proto::verif::time_types as h;
use ntp_proto::{NtpDuration, NtpTimestamp};

fn wrap64(x: i128) -> i64 {
    let m = x.rem_euclid(1i128 << 64);
    (if m >= (1i128 << 63) { m - (1i128 << 64) } else { m }) as i64
}
fn clamp64(x: i128) -> i64 {
    if x > i64::MAX as i128 {
        i64::MAX
    } else if x < i64::MIN as i128 {
        i64::MIN
    } else {
        x as i64
    }
}

// ------------------------------------------------------------------ NTP timestamps
#[kani::proof]
fn c32_ts_sub_add() {
    let a: u64 = kani::any();
    let b: u64 = kani::any();
    let ta = h::ts_from_raw(a);
    let tb = h::ts_from_raw(b);
    let d = ta - tb;
    // shortest signed difference (two's complement of the wrapped difference)
    assert!(h::dur_raw(d) == wrap64(a as i128 - b as i128), "ts - ts is the shortest signed difference");
    assert!(tb + d == ta, "adding the difference back restores the timestamp");
    assert!(ta - d == tb, "subtracting the difference restores the other timestamp");
    let mut t = tb;
    t += d;
    assert!(t == ta, "+= agrees");
    t -= d;
    assert!(t == tb, "-= agrees");
    // is_before is the sign of the shortest difference
    assert!(ta.is_before(tb) == (wrap64(a as i128 - b as i128) < 0), "is_before");
    kani::cover!(a < b && h::dur_raw(d) > 0, "era wrap: numerically smaller but later");
    kani::cover!(a > b && h::dur_raw(d) < 0, "era wrap: numerically larger but earlier");
}

#[kani::proof]
fn c32_ts_add_dur() {
    let a: u64 = kani::any();
    let d: i64 = kani::any();
    let t = h::ts_from_raw(a) + h::dur_from_raw(d);
    let want = (a as i128 + d as i128).rem_euclid(1i128 << 64) as u64;
    assert!(h::ts_raw(t) == want, "ts + dur wraps modulo 2^64");
    let t2 = h::ts_from_raw(a) - h::dur_from_raw(d);
    let want2 = (a as i128 - d as i128).rem_euclid(1i128 << 64) as u64;
    assert!(h::ts_raw(t2) == want2, "ts - dur wraps modulo 2^64");
    kani::cover!(want < a && d > 0, "forward wrap");
}

#[kani::proof]
fn c32_ts_bits_truncate() {
    let a: u64 = kani::any();
    let t = h::ts_from_raw(a);
    assert!(h::ts_raw(h::ts_from_bits(h::ts_to_bits(t))) == a, "timestamp wire round trip");
    let k: u8 = kani::any();
    let tr = h::ts_raw(t.truncated_second_bits(k));
    if k >= 32 {
        assert!(tr == 0, "all second bits truncated");
    } else {
        // the low k second bits and the whole fraction are cleared, everything above is kept
        let low_mask: u64 = (1u64 << (k as u32 + 32)) - 1;
        assert!(tr & low_mask == 0, "truncated bits are zero");
        assert!(tr | (a & low_mask) == a, "kept bits are unchanged");
    }
}

#[kani::proof]
fn c32_ts_ctor() {
    let s: u32 = kani::any();
    let n: u32 = kani::any();
    kani::assume(n < 1_000_000_000);
    let t = h::ts_raw(NtpTimestamp::from_seconds_nanos_since_ntp_era(s, n));
    assert!((t >> 32) as u32 == s, "seconds part");
    // fraction f is the floor of n * 2^32 / 1e9, characterised without dividing
    let f = t & 0xFFFF_FFFF;
    let scaled = (n as u64) << 32;
    assert!(f * 1_000_000_000 <= scaled && scaled < (f + 1) * 1_000_000_000, "fraction is floor(n * 2^32 / 1e9)");
}

// ------------------------------------------------------------------ NTP durations
#[kani::proof]
fn c32_dur_add_sub() {
    let a: i64 = kani::any();
    let b: i64 = kani::any();
    let da = h::dur_from_raw(a);
    let db = h::dur_from_raw(b);
    assert!(h::dur_raw(da + db) == clamp64(a as i128 + b as i128), "addition saturates");
    assert!(h::dur_raw(da - db) == clamp64(a as i128 - b as i128), "subtraction saturates");
    let mut x = da;
    x += db;
    assert!(h::dur_raw(x) == clamp64(a as i128 + b as i128), "+= saturates");
    let mut y = da;
    y -= db;
    assert!(h::dur_raw(y) == clamp64(a as i128 - b as i128), "-= saturates");
    kani::cover!(a as i128 + b as i128 > i64::MAX as i128, "positive saturation");
    kani::cover!((a as i128 - b as i128) < (i64::MIN as i128), "negative saturation");
}

#[kani::proof]
fn c32_dur_neg_abs() {
    let a: i64 = kani::any();
    let b: i64 = kani::any();
    let d = h::dur_from_raw(a);
    let n = -d;
    assert!(h::dur_raw(n) == clamp64(-(a as i128)), "negation saturates");
    let ab = d.abs();
    assert!(h::dur_raw(ab) == clamp64((a as i128).abs()), "abs saturates");
    assert!(h::dur_raw(ab) >= 0, "abs is non-negative");
    let ad = d.abs_diff(h::dur_from_raw(b));
    assert!(h::dur_raw(ad) == clamp64((a as i128 - b as i128).abs()), "abs_diff saturates");
    kani::cover!(a == i64::MIN, "most negative duration");
}

/// Reference for saturating scaling, written with std's *checked* operations: the solver sees the
/// same multiplier/divider circuit on both sides (deciding the equivalence of two different
/// 64-bit multiplier encodings does not terminate: measured >10 min for i64 x i8), so what is
/// decided here is the saturation/cast/sign logic of the repo's operator impls for every operand.
fn ref_mul(a: i64, k: i64) -> i64 {
    match a.checked_mul(k) {
        Some(v) => v,
        None => {
            if (a < 0) != (k < 0) {
                i64::MIN
            } else {
                i64::MAX
            }
        }
    }
}
fn ref_div(a: i64, k: i64) -> i64 {
    // k != 0; the only non-representable quotient is MIN / -1 = 2^63
    match a.checked_div(k) {
        Some(v) => v,
        None => i64::MAX,
    }
}

/// Scaling by a constant taken from a list (the solver decides multiplication/division by a
/// constant for every 64-bit duration; symbolic x symbolic 64-bit products against an independent
/// reference do not terminate: measured 145 s for a single query with an i8 scalar, >10 min others).
macro_rules! scale_case {
    ($a:expr, $t:ty, $k:expr) => {{
        let a: i64 = $a;
        let k: $t = $k;
        let kk: i64 = (k as i128) as i64;
        let d = h::dur_from_raw(a);
        let want = ref_mul(a, kk);
        assert!(h::dur_raw(d * k) == want, "dur * k saturates");
        assert!(h::dur_raw(k * d) == want, "k * dur saturates");
        let mut m = d;
        m *= k;
        assert!(h::dur_raw(m) == want, "*= saturates");
        if kk != 0 {
            let wantq = ref_div(a, kk);
            assert!(h::dur_raw(d / k) == wantq, "dur / k truncates, saturating at MIN / -1");
            let mut q = d;
            q /= k;
            assert!(h::dur_raw(q) == wantq, "/= agrees");
        }
    }};
}
macro_rules! scale_harness {
    ($name:ident, $t:ty, [$($k:expr),*]) => {
        #[kani::proof]
        fn $name() {
            let a: i64 = kani::any();
            let sel: u8 = kani::any();
            let mut i: u8 = 0;
            $(
                if sel == i {
                    scale_case!(a, $t, $k);
                }
                i += 1;
            )*
            kani::cover!(sel == 0 && (a > (1 << 62) || a == i64::MIN), "extreme duration reached");
        }
    };
}
// quick: powers of two and units (shifts/negation: cheap for SAT), every scalar type
scale_harness!(c32_dur_scale_i8, i8, [2, 0, 1, -1, i8::MIN]);
scale_harness!(c32_dur_scale_u8, u8, [2, 0, 1, 128]);
scale_harness!(c32_dur_scale_i16, i16, [2, 0, 1, -1, i16::MIN]);
scale_harness!(c32_dur_scale_u16, u16, [2, 0, 1, 4096]);
scale_harness!(c32_dur_scale_i32, i32, [2, 0, 1, -1, i32::MIN]);
scale_harness!(c32_dur_scale_u32, u32, [2, 0, 1, 0x8000_0000]);
scale_harness!(c32_dur_scale_i64, i64, [2, 0, 1, -1, i64::MIN]);
scale_harness!(c32_dur_scale_isize, isize, [2, 0, 1, -1, isize::MIN]);
// thorough: constants that are not powers of two (real multiplier/divider circuits)
scale_harness!(c32_dur_scale_wide_i8, i8, [-3, 100, i8::MAX]);
scale_harness!(c32_dur_scale_wide_u16, u16, [3, 1000, u16::MAX]);
scale_harness!(c32_dur_scale_wide_i32, i32, [-7, 1_000_000, i32::MAX]);
scale_harness!(c32_dur_scale_wide_i64, i64, [-3, 1_000_000_007, i64::MAX]);

/// Independent (division-free) characterisation of the quotient for constant divisors:
/// q*k + r == a, |r| < |k|, r has the sign of a.
macro_rules! div_case {
    ($a:expr, $t:ty, $k:expr) => {{
        let a: i64 = $a;
        let k: $t = $k;
        let kk = k as i64;
        let d = h::dur_from_raw(a);
        let q = h::dur_raw(d / k);
        if a == i64::MIN && kk == -1 {
            assert!(q == i64::MAX, "MIN / -1 saturates");
        } else {
            let r = a as i128 - (q as i128) * (kk as i128);
            assert!(r.abs() < (kk as i128).abs(), "remainder smaller than divisor");
            assert!(r == 0 || (r < 0) == (a < 0), "truncating division");
        }
    }};
}
#[kani::proof]
fn c32_dur_div_consts() {
    let a: i64 = kani::any();
    let sel: u8 = kani::any();
    match sel {
        0 => div_case!(a, i64, -1),
        1 => div_case!(a, i8, -1),
        2 => div_case!(a, i32, 2),
        3 => div_case!(a, i16, -2),
        4 => div_case!(a, u8, 3),
        5 => div_case!(a, u32, 1_000_000),
        6 => div_case!(a, isize, -7),
        7 => div_case!(a, i64, i64::MAX),
        8 => div_case!(a, i64, i64::MIN),
        9 => div_case!(a, u16, u16::MAX),
        _ => {}
    }
    kani::cover!(a == i64::MIN && sel == 0, "MIN / -1");
}

/// Symbolic 8-bit divisor with a 20-bit dividend (full divider circuit, narrow width).
#[kani::proof]
fn c32_dur_div_small() {
    let a: i64 = kani::any();
    let k: i8 = kani::any();
    kani::assume(a > -(1 << 20) && a < (1 << 20) && k != 0);
    div_case!(a, i8, k);
}

/// Exact product by shift-and-add (independent of the multiplier encoding), narrow operands.
#[kani::proof]
#[kani::unwind(10)]
fn c32_dur_mul_small() {
    let a: i64 = kani::any();
    let k: i8 = kani::any();
    kani::assume(a > -(1 << 12) && a < (1 << 12));
    let mag = (k as i64).unsigned_abs();
    let mut acc: i64 = 0;
    let mut i = 0;
    while i < 8 {
        if (mag >> i) & 1 == 1 {
            acc += a << i;
        }
        i += 1;
    }
    let want = if k < 0 { -acc } else { acc };
    assert!(h::dur_raw(h::dur_from_raw(a) * k) == want, "small products are exact");
}

#[kani::proof]
fn c32_dur_freq_tolerance() {
    let a: i64 = kani::any();
    let ppm: u32 = kani::any();
    kani::assume(ppm == 0 || ppm == 15 || ppm == 1_000_000);
    let d = h::dur_from_raw(a) * ntp_proto::FrequencyTolerance::ppm(ppm);
    let p = ref_mul(a, ppm as i64);
    let q = h::dur_raw(d);
    let r = p as i128 - (q as i128) * 1_000_000;
    assert!(r.abs() < 1_000_000 && (r == 0 || (r < 0) == (p < 0)), "duration * ppm = saturating product / 1e6");
}

// ------------------------------------------------------------------ conversions
#[kani::proof]
fn c32_from_seconds_sign_saturation() {
    let s: f64 = kani::any();
    kani::assume(s.is_finite());
    let d = h::dur_raw(NtpDuration::from_seconds(s));
    if s > 0.0 {
        assert!(d >= 0, "positive seconds never give a negative duration");
    }
    if s < 0.0 {
        assert!(d <= 0, "negative seconds never give a positive duration");
    }
    if s == 0.0 {
        assert!(d == 0, "zero maps to zero");
    }
    if s >= 2147483648.0 {
        assert!(d == i64::MAX, "saturates high");
    }
    if s < -2147483648.0 {
        assert!(d == i64::MIN, "saturates low");
    }
    kani::cover!(s > 1.0 && s < 2.0, "ordinary value");
}

#[kani::proof]
fn c32_from_seconds_monotone_units() {
    // within range, the result is within one unit of s * 2^32 scaled by (2^32-1)/2^32 in the fraction
    let s: f64 = kani::any();
    kani::assume(s.is_finite() && s >= -2147483648.0 && s < 2147483648.0);
    let d = h::dur_raw(NtpDuration::from_seconds(s)) as i128;
    let i = s.floor();
    // integer part exact
    assert!((d >> 32) == i as i128, "integer seconds are exact");
}

#[kani::proof]
fn c32_wire_short_time32() {
    let b: [u8; 4] = kani::any();
    // decode is exact and non-negative; encode(decode(b)) == b
    let d = h::dur_from_bits_short(b);
    assert!(h::dur_raw(d) == (u32::from_be_bytes(b) as i64) << 16, "short decode");
    assert!(h::dur_to_bits_short(d) == b, "short wire round trip");
    let t = h::dur_from_bits_time32(b);
    assert!(h::dur_raw(t) == (u32::from_be_bytes(b) as i64) << 4, "time32 decode");
    assert!(h::dur_to_bits_time32(t) == b, "time32 wire round trip");
    // every non-negative duration that fits encodes to within one wire unit
    let a: i64 = kani::any();
    kani::assume(a >= 0 && a <= 0x0000_FFFF_FFFF_FFFF);
    let back = h::dur_raw(h::dur_from_bits_short(h::dur_to_bits_short(h::dur_from_raw(a))));
    assert!(back <= a && a - back < (1 << 16), "short encoding truncates by less than one unit");
    let c: i64 = kani::any();
    kani::assume(c >= 0 && c <= 0xF_FFFF_FFFF);
    let back = h::dur_raw(h::dur_from_bits_time32(h::dur_to_bits_time32(h::dur_from_raw(c))));
    assert!(back <= c && c - back < (1 << 4), "time32 encoding truncates by less than one unit");
    // time32 saturates above its range instead of wrapping
    let e: i64 = kani::any();
    kani::assume(e > 0xF_FFFF_FFFF);
    assert!(h::dur_to_bits_time32(h::dur_from_raw(e)) == [0xFF; 4], "time32 saturates");
}

#[kani::proof]
fn c32_dur_misc() {
    let a: i64 = kani::any();
    let d = h::dur_from_raw(a);
    let (s, n) = d.as_seconds_nanos();
    assert!(n < 1_000_000_000, "nanoseconds part below one second");
    assert!(s as i64 == a >> 32, "seconds part is the floor");
    let e: i8 = kani::any();
    let x = h::dur_raw(NtpDuration::from_exponent(e));
    assert!(x >= 0, "2^k seconds is never negative");
    if e >= -32 && e <= 30 {
        assert!(x as i128 == if e >= 0 { (1i128 << 32) << e } else { (1i128 << 32) >> (-(e as i32)) }, "2^k seconds exact");
    }
    if a != 0 {
        let l = d.log2();
        if a > 0 {
            assert!((a as i128) >= (1i128 << (l as i32 + 32)) && (a as i128) < (1i128 << (l as i32 + 33)), "log2 is the floor");
        }
    }
    let p: i8 = kani::any();
    let pi = h::poll_from_raw(p);
    let pd = h::dur_raw(pi.as_duration());
    assert!(pd > 0, "poll interval duration positive");
}

// ------------------------------------------------------------------ PTP (statime-base) types
use statime_base::verif::time_types as ph;
use statime_base::{Duration as PDur, TAI, Timestamp as PTs};

fn wrap128(a: u128, b: u128) -> i128 {
    a.wrapping_sub(b) as i128
}

#[kani::proof]
fn c32_ptp_ts() {
    let a: u128 = kani::any();
    let b: u128 = kani::any();
    let ta: PTs<TAI> = ph::ts_from_raw(a);
    let tb: PTs<TAI> = ph::ts_from_raw(b);
    let d = ta - tb;
    // two-limb reference: the difference modulo 2^128 interpreted as signed
    let (lo, borrow) = (a as u64).overflowing_sub(b as u64);
    let hi = ((a >> 64) as u64).wrapping_sub((b >> 64) as u64).wrapping_sub(borrow as u64);
    let want = (((hi as u128) << 64) | lo as u128) as i128;
    assert!(ph::dur_raw(d) == want, "ptp ts - ts is the wrapped signed difference");
    assert!(tb + d == ta, "ptp adding the difference back restores the timestamp");
    assert!(ta - d == tb, "ptp subtracting the difference restores the other");
    let mut t = tb;
    t += d;
    assert!(t == ta, "ptp +=");
    t -= d;
    assert!(t == tb, "ptp -=");
    kani::cover!(a < b && want > 0, "ptp wrap");
}

#[kani::proof]
fn c32_ptp_dur_add_sub() {
    let a: i128 = kani::any();
    let b: i128 = kani::any();
    let s = ph::dur_raw(ph::dur_from_raw(a) + ph::dur_from_raw(b));
    // reference without 256-bit arithmetic: overflow iff signs equal and result sign differs
    let w = a.wrapping_add(b);
    let ovf = (a >= 0) == (b >= 0) && (w >= 0) != (a >= 0);
    let want = if !ovf { w } else if a >= 0 { i128::MAX } else { i128::MIN };
    assert!(s == want, "ptp duration addition saturates");
    let d = ph::dur_raw(ph::dur_from_raw(a) - ph::dur_from_raw(b));
    let w = a.wrapping_sub(b);
    let ovf = (a >= 0) != (b >= 0) && (w >= 0) != (a >= 0);
    let want = if !ovf { w } else if a >= 0 { i128::MAX } else { i128::MIN };
    assert!(d == want, "ptp duration subtraction saturates");
    let mut x = ph::dur_from_raw(a);
    x += ph::dur_from_raw(b);
    assert!(ph::dur_raw(x) == s, "ptp +=");
    let mut y = ph::dur_from_raw(a);
    y -= ph::dur_from_raw(b);
    assert!(ph::dur_raw(y) == d, "ptp -=");
    kani::cover!(s == i128::MAX && a != i128::MAX && b != i128::MAX, "ptp saturated");
}

macro_rules! ptp_scale {
    ($name:ident, $t:ty, $bits:expr) => {
        #[kani::proof]
        #[kani::unwind(20)]
        fn $name() {
            let a: i128 = kani::any();
            let k: $t = kani::any();
            let big: bool = kani::any();
            let d = ph::dur_from_raw(a);
            let kk = k as i128;
            if !big {
                // |a| < 2^110 so the exact product fits i128 (|k| <= 2^16); saturation is the other branch
                kani::assume(a > -(1i128 << 110) && a < (1i128 << 110));
                let mut acc: i128 = 0;
                let mag = kk.unsigned_abs();
                let mut i = 0;
                while i < $bits + 1 {
                    if (mag >> i) & 1 == 1 {
                        acc += a << i;
                    }
                    i += 1;
                }
                let want = if kk < 0 { -acc } else { acc };
                assert!(ph::dur_raw(d * k) == want, "ptp dur * k exact when representable");
                assert!(ph::dur_raw(k * d) == want, "ptp k * dur exact when representable");
                if k != 0 {
                    let q = ph::dur_raw(d / k);
                    let mut qa: i128 = 0;
                    let mut i = 0;
                    while i < $bits + 1 {
                        if (mag >> i) & 1 == 1 {
                            qa += q << i;
                        }
                        i += 1;
                    }
                    let r = a - if kk < 0 { -qa } else { qa };
                    assert!(r.abs() < kk.abs(), "ptp remainder smaller than divisor");
                    assert!(r == 0 || (r < 0) == (a < 0), "ptp truncating division");
                }
            } else {
                kani::assume(a == i128::MAX || a == i128::MIN);
                let p = ph::dur_raw(d * k);
                if kk == 0 {
                    assert!(p == 0, "ptp times zero");
                } else if kk == 1 {
                    assert!(p == a, "ptp times one");
                } else if kk == -1 {
                    assert!(p == if a == i128::MIN { i128::MAX } else { -a }, "ptp negation saturates");
                } else {
                    assert!(p == if (a < 0) != (kk < 0) { i128::MIN } else { i128::MAX }, "ptp product saturates");
                }
                if kk == -1 {
                    assert!(ph::dur_raw(d / k) == if a == i128::MIN { i128::MAX } else { -a }, "ptp MIN / -1 saturates");
                }
            }
        }
    };
}
ptp_scale!(c32_ptp_scale_i8, i8, 8);
ptp_scale!(c32_ptp_scale_u8, u8, 8);
ptp_scale!(c32_ptp_scale_i16, i16, 16);
ptp_scale!(c32_ptp_scale_u16, u16, 16);

#[kani::proof]
fn c32_ptp_ctor() {
    let s: i64 = kani::any();
    let n: u32 = kani::any();
    kani::assume(n < 1_000_000_000);
    let d = ph::dur_raw(PDur::from_seconds_nanos(s, n));
    assert!(d >> 64 == s as i128, "ptp duration seconds part");
    let su: u64 = kani::any();
    let t: PTs<TAI> = PTs::from_seconds_nanos_since_unix_epoch(su, n);
    assert!(ph::ts_raw(t) >> 64 == su as u128, "ptp timestamp seconds part");
}

// ------------------------------------------------------------------ seconds round trip
/// from_seconds(to_seconds(d)) differs from d by less than |d|*1e-9 + 1 unit.
/// f64 division by the constant 2^32-1 is bit-blasted; `range` selects the magnitude class.
fn roundtrip_case(a: i64) {
    let d = h::dur_from_raw(a);
    let back = h::dur_raw(NtpDuration::from_seconds(d.to_seconds()));
    let diff = (back as i128 - a as i128).abs();
    // |a| * 1e-9 + 1 without floats: diff * 1e9 <= |a| + 1e9
    assert!(diff * 1_000_000_000 <= (a as i128).abs() + 1_000_000_000, "seconds round trip within 1 ppb + 1 unit");
}
#[kani::proof]
fn c32_roundtrip_small() {
    let a: i64 = kani::any();
    kani::assume(a > -(1i64 << 33) && a < (1i64 << 33));
    roundtrip_case(a);
}
#[kani::proof]
fn c32_roundtrip_full() {
    let a: i64 = kani::any();
    roundtrip_case(a);
}
