NS = "np_source_h"
import importlib.util, os
_spec = importlib.util.spec_from_file_location("c08", os.path.join(os.path.dirname(__file__), "C08.py"))
_m = importlib.util.module_from_spec(_spec); _m.H = H; _spec.loader.exec_module(_m)
PROP = dict(
    functions=[
        "ntp_proto::source::NtpSource::<RecCtl>::handle_incoming (KISS dispatch)",
        "ntp_proto::source::NtpSource::<RecCtl>::handle_timer (poll after RATE, demobilise after DENY/RSTR)",
        "ntp_proto::packet::NtpPacket::{is_kiss, is_kiss_rate, is_kiss_deny, is_kiss_rstr, is_kiss_ntsn, valid_server_response}",
        "ntp_proto::time_types::PollInterval::inc",
    ],
    bounds=_m._bounds48.replace("one handle_incoming", "one handle_incoming followed (rate/deny harnesses) by one handle_timer") + "; stratum octet 0; RATE/DENY/RSTR codes concrete, origin = pending id; v5 variants: 76-byte template, poll octet symbolic (RATE) / 127 (DENY)",
    outside="NTS sources (DENY/RSTR => Demobilize, NTSN handling): C07; the i8 overflow of PollInterval::inc at remote_min_poll_interval = 127 (dev profile panics, release wraps to -128 and the result is max(-128 capped, last_poll) = last_poll): excluded by assumption, reported separately; interleavings longer than KISS answer + next timer (1-step from arbitrary states composes)",
    assumptions=[
        "remote_min_poll_interval <= 126 on the pre-state (127 is only reachable through an NTPv5 answer carrying poll = 127)",
        "valid KISS answer = matches the pending request, still fresh after the call, expected version, server mode, stratum 0",
        "NTPv5 encodings (no kiss codes in v5): poll > last poll and != 127 = RATE, poll == 127 = DENY, auth-NAK flag = NTSN",
        "controller's desired poll interval within the configured limits 4..=10",
    ],
    stub_notes=_m._stubs,
    harnesses=[
        H(NS, "c09", "c09_rate", "valid RATE: remote_min' >= last poll, +1 step below the maximum, nothing else changes; the next poll is not faster", timeout=600),
        H(NS, "c09", "c09_deny", "valid DENY/RSTR on a plain source: no action, flag set, nothing else; next timer demobilises iff unreachable and tries >= 3", timeout=600),
        H(NS, "c09", "c09_other", "stratum-0 packets: NTSN/unknown codes change nothing; any KISS that does not answer the pending request changes nothing", timeout=600),
        H(NS, "c09", "c09_rate_v5", "RATE for NTPv5 answers (incoming step only)", tier="thorough"),
        H(NS, "c09", "c09_deny_v5", "DENY for NTPv5 answers (incoming step only)", tier="thorough"),
        H(NS, "c09", "c09_other_v5", "NTSN/unknown for NTPv5 answers", tier="thorough"),
    ],
)
