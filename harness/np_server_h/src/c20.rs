//! Harnesses for property C20 (see /verif/properties.jsonl): rate limiting.
//!
//! `c20_cache*` drive the real (crate-private) `TimestampedCache<IpAddr>` through the hook wrapper
//! `CacheH` with three calls and compare every answer with a reference model that only knows the
//! property text: a call is refused iff the previous call that used the same slot came from the
//! same address less than `cutoff` earlier. The slot of an address is taken from the real
//! `index()` (the hash function is not re-implemented), but the model checks that it is a
//! function of the address and in range. `c20_server_position` checks where the cache sits in
//! `Server::handle`: only clients that passed both lists touch it.
use crate::common::*;
use crate::stubs;
use ntp_proto::verif::{server as sh, time_types as tt};
use ntp_proto::*;
use std::net::{IpAddr, Ipv4Addr, Ipv6Addr};
use std::time::Duration;

/// Three calls against a cache of `n` slots; `addrs` are the three client addresses.
/// The slot a call used is *observed* (the slot that holds exactly this call's entry afterwards),
/// not recomputed, so the hash function is evaluated only by the code under test.
fn run_cache(n: usize, addrs: [IpAddr; 3], ts: [(i64, u32); 3], cutoff: Duration) -> Run {
    let mut cache = sh::CacheH::new(n);
    assert!(cache.len() == n, "cache has the configured number of slots");

    let mut idx = [0usize; 3];
    let mut got = [true; 3];
    let mut i = 0;
    while i < 3 {
        let t = stubs::make_instant(ts[i].0, ts[i].1);
        // snapshot, call, find the slot that now holds (addr_i, t_i)
        let mut before: [Option<(IpAddr, std::time::Instant)>; 4] = [None; 4];
        let mut k = 0;
        while k < n {
            before[k] = cache.slot(k);
            k += 1;
        }
        got[i] = cache.is_allowed(addrs[i], t, cutoff);
        let entry = Some((addrs[i], t));
        let mut changed = 0usize;
        let mut holds = 0usize;
        let mut k = 0;
        while k < n {
            let after = cache.slot(k);
            if after != before[k] {
                assert!(after == entry, "C20: the only change is recording this call's (address, arrival time)");
                idx[i] = k;
                changed += 1;
            } else if after == entry && changed == 0 && holds == 0 {
                // identical entry already there (same address, same instant): that is the slot
                idx[i] = k;
                holds += 1;
            }
            k += 1;
        }
        assert!(changed <= 1, "C20: a call touches at most one slot");
        if n > 0 {
            assert!(changed + holds >= 1, "C20: the call's (address, arrival time) is recorded");
        }
        i += 1;
    }

    // reference model
    let mut i = 0;
    while i < 3 {
        // previous call that used the same slot
        let mut prev: Option<usize> = None;
        let mut j = 0;
        while j < i {
            if idx[j] == idx[i] {
                prev = Some(j);
            }
            if addrs[j] == addrs[i] && n > 0 {
                assert!(idx[j] == idx[i], "the slot is a function of the address");
            }
            j += 1;
        }
        let refused = match prev {
            Some(j) if n > 0 => addrs[j] == addrs[i] && within_cutoff(ts[j], ts[i], cutoff),
            _ => false,
        };
        assert!(got[i] == !refused, "C20: refused iff the previous user of the slot is the same address within the cutoff");
        if n == 0 {
            assert!(got[i], "C20: cache size 0 never rate-limits");
        }
        i += 1;
    }
    // not dropped: for N = 0 Kani 0.68 reports a spurious `__rust_dealloc` on the empty Vec that
    // `repeat_with(..).take(0).collect()` builds (capacity is not folded to 0); dropping is not under test
    std::mem::forget(cache);
    Run { n, addrs, ts, cutoff, idx, got }
}

struct Run {
    n: usize,
    addrs: [IpAddr; 3],
    ts: [(i64, u32); 3],
    cutoff: Duration,
    idx: [usize; 3],
    got: [bool; 3],
}

// cover goals, per cache size (every goal must be satisfiable in the harness that carries it)
#[cfg(kani)]
fn covers_n0(r: &Run) {
    kani::cover!(r.got[0] && r.got[1] && r.got[2] && r.addrs[0] == r.addrs[1] && r.ts[0] == r.ts[1] && r.cutoff.as_secs() > 0, "cache disabled: same address at the same instant allowed");
}
#[cfg(kani)]
fn covers_n1(r: &Run) {
    kani::cover!(!r.got[1], "second call refused");
    kani::cover!(r.got[1] && !r.got[2] && r.addrs[0] != r.addrs[1], "third call refused after a different second address");
    kani::cover!(r.addrs[0] == r.addrs[2] && r.addrs[0] != r.addrs[1] && r.ts[2] == r.ts[0] && r.got[2] && r.cutoff.as_secs() > 0,
        "slot shared with another address in between: not refused although within the cutoff");
    kani::cover!(r.addrs[0] == r.addrs[1] && r.got[1] && r.cutoff.as_nanos() > 0, "same address allowed again at/after the cutoff");
}
#[cfg(kani)]
fn covers_n2plus(r: &Run) {
    covers_n1(r);
    kani::cover!(r.addrs[0] == r.addrs[2] && r.idx[0] != r.idx[1] && !r.got[2], "other address in a different slot does not reset the limit");
    kani::cover!(r.addrs[0] == r.addrs[2] && r.addrs[0] != r.addrs[1] && r.idx[0] == r.idx[1] && r.got[2] && r.ts[2] == r.ts[0] && r.cutoff.as_secs() > 0, "hash collision evicts the entry");
}

#[cfg(kani)]
fn any_times() -> [(i64, u32); 3] {
    let mut ts = [(0i64, 0u32); 3];
    let mut i = 0;
    while i < 3 {
        let s: i64 = kani::any();
        let ns: u32 = kani::any();
        kani::assume(s >= 0 && s < (1 << 40) && ns < 1_000_000_000);
        if i > 0 {
            kani::assume(s > ts[i - 1].0 || (s == ts[i - 1].0 && ns >= ts[i - 1].1));
        }
        ts[i] = (s, ns);
        i += 1;
    }
    ts
}

#[cfg(kani)]
fn any_cutoff() -> Duration {
    let cs: u64 = kani::any();
    let cn: u32 = kani::any();
    kani::assume(cs < (1 << 41) && cn < 1_000_000_000);
    Duration::new(cs, cn)
}

#[cfg(kani)]
fn cache_v4(n: usize, symbolic_keys: bool) -> Run {
    // three symbolic IPv4 addresses; SipHash keys symbolic or (0, 0)
    if symbolic_keys {
        let k0: u64 = kani::any();
        let k1: u64 = kani::any();
        unsafe { stubs::HASH_K0 = k0; stubs::HASH_K1 = k1; }
    }
    let a: [[u8; 4]; 3] = kani::any();
    let ts = any_times();
    let cutoff = any_cutoff();
    let addrs = [
        IpAddr::V4(Ipv4Addr::new(a[0][0], a[0][1], a[0][2], a[0][3])),
        IpAddr::V4(Ipv4Addr::new(a[1][0], a[1][1], a[1][2], a[1][3])),
        IpAddr::V4(Ipv4Addr::new(a[2][0], a[2][1], a[2][2], a[2][3])),
    ];
    run_cache(n, addrs, ts, cutoff)
}

#[cfg(kani)]
fn cache_any_family(n: usize, symbolic_keys: bool) -> Run {
    // three symbolic addresses of either family; SipHash keys symbolic or (0, 0)
    if symbolic_keys {
        let k0: u64 = kani::any();
        let k1: u64 = kani::any();
        unsafe { stubs::HASH_K0 = k0; stubs::HASH_K1 = k1; }
    }
    let a: [[u8; 16]; 3] = kani::any();
    let fam: [bool; 3] = kani::any();
    let ts = any_times();
    let cutoff = any_cutoff();
    let mk = |i: usize| if fam[i] { IpAddr::V6(Ipv6Addr::from(a[i])) } else { IpAddr::V4(Ipv4Addr::new(a[i][0], a[i][1], a[i][2], a[i][3])) };
    let addrs = [mk(0), mk(1), mk(2)];
    run_cache(n, addrs, ts, cutoff)
}

/// `harness!` + the hash finalisation model (see `common::hasher_finish_model`).
macro_rules! c20_harness {
    ( fn $name:ident() $body:block ) => {
        harness! {
            #[kani::unwind(5)]
            #[kani::stub(<std::hash::DefaultHasher as std::hash::Hasher>::finish, crate::common::hasher_finish_model)]
            fn $name() $body
        }
    };
}

c20_harness! { fn c20_cache_n0() { let r = cache_v4(0, true); covers_n0(&r); } }
c20_harness! { fn c20_cache_n1() { let r = cache_v4(1, true); covers_n1(&r); } }
c20_harness! { fn c20_cache_n2() { let r = cache_v4(2, true); covers_n2plus(&r); } }
c20_harness! { fn c20_cache_n3() { let r = cache_v4(3, true); covers_n2plus(&r); } }
c20_harness! { fn c20_cache_v6_n2() { let r = cache_any_family(2, true); covers_n2plus(&r); } }
c20_harness! { fn c20_cache_v6_n3() { let r = cache_any_family(3, true); covers_n2plus(&r); } }
