//! Safe-Rust verification hooks for this module (accessors/wrappers only; no logic).
#![allow(unused_imports, dead_code)]
use super::*;

// --- C31 (np_misc_h): IpFilter is crate-private; wrapper + thin forwarding calls.
pub struct Filter(pub(crate) IpFilter);
pub fn filter_new(subnets: &[IpSubnet]) -> Filter {
    Filter(IpFilter::new(subnets))
}
pub fn filter_is_in(f: &Filter, addr: IpAddr) -> bool {
    f.0.is_in(addr)
}
pub fn filter_node_count(f: &Filter) -> (usize, usize) {
    (f.0.ipv4_filter.nodes.len(), f.0.ipv6_filter.nodes.len())
}

// --- C17/C18/C19 (np_srvnts_h): raw constructor for a one-node filter (no `IpFilter::new`, which is
// C31's subject and very expensive to execute symbolically). Bit i of `v4_top`/`v6_top` set <=> every
// address whose most significant nibble is i is in the set; all other addresses are outside.
pub fn filter_from_top_nibbles(v4_top: u16, v6_top: u16) -> Filter {
    Filter(IpFilter {
        ipv4_filter: BitTree { nodes: vec![TreeNode { child_offset: 1, inset: v4_top, outset: !v4_top }] },
        ipv6_filter: BitTree { nodes: vec![TreeNode { child_offset: 1, inset: v6_top, outset: !v6_top }] },
    })
}

// --- C31 (np_misc_h): raw node access. `filter_nodes` reads the two tries as
// (child_offset, inset, outset) triples; `filter_from_nodes` rebuilds a filter from such triples.
pub fn filter_nodes(f: &Filter) -> (Vec<(u32, u16, u16)>, Vec<(u32, u16, u16)>) {
    (
        f.0.ipv4_filter.nodes.iter().map(|n| (n.child_offset, n.inset, n.outset)).collect(),
        f.0.ipv6_filter.nodes.iter().map(|n| (n.child_offset, n.inset, n.outset)).collect(),
    )
}
pub fn filter_from_nodes(v4: &[(u32, u16, u16)], v6: &[(u32, u16, u16)]) -> Filter {
    Filter(IpFilter {
        ipv4_filter: BitTree { nodes: v4.iter().map(|&(child_offset, inset, outset)| TreeNode { child_offset, inset, outset }).collect() },
        ipv6_filter: BitTree { nodes: v6.iter().map(|&(child_offset, inset, outset)| TreeNode { child_offset, inset, outset }).collect() },
    })
}
