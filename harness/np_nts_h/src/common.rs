//! Shared helpers for the C07/C10/C13/C14/C33 harnesses (NTS client side).
//!
//! * `RecCtl`: recording `SourceController` (what the source hands to the clock filter).
//! * `ModelCipher`: ideal AEAD (DESIGN 2.6). No cryptography: `encrypt` leaves the plaintext in
//!   place, prepends a 16-byte nonce and appends a 16-byte tag (same sizes as AES-SIV-CMAC: nonce
//!   16, ciphertext = plaintext + 16); `decrypt` succeeds iff the ghost state says that exactly this
//!   (key, associated data, nonce, ciphertext) is something the peer really produced:
//!   `AUTHENTIC` is set and the three slices are the expected extents of the datagram under test
//!   (lengths + boundary bytes). Everything else is a forgery and yields `DecryptError`.
//! * source builders.
use ntp_proto::verif::cookiestash::StashH;
use ntp_proto::verif::packet::extension_fields::NonBlockingWrite;
use ntp_proto::verif::packet::crypto::DecryptError;
use ntp_proto::verif::packet::v5::server_reference_id as bh;
use ntp_proto::verif::source as sh;
use ntp_proto::verif::time_types as th;
use ntp_proto::*;
use std::net::{IpAddr, Ipv4Addr, SocketAddr};
use std::sync::Arc;

// ------------------------------------------------------------------------------------------
// controller

pub struct RecCtl {
    pub desired: PollInterval,
    pub n_meas: u8,
    pub n_usable: u8,
    pub usable: Option<bool>,
}

impl RecCtl {
    pub fn new(desired: PollInterval) -> Self {
        RecCtl { desired, n_meas: 0, n_usable: 0, usable: None }
    }
}

impl SourceController for RecCtl {
    fn handle_measurement(&mut self, _m: Measurement) {
        self.n_meas += 1;
    }
    fn set_usable(&mut self, usable: bool) {
        self.n_usable += 1;
        self.usable = Some(usable);
    }
    fn desired_poll_interval(&self) -> PollInterval {
        self.desired
    }
    fn observe(&self) -> ObservableSourceTimedata {
        ObservableSourceTimedata::default()
    }
}

// ------------------------------------------------------------------------------------------
// ideal AEAD

pub const TAG_LEN: usize = 16;
pub const NONCE_LEN: usize = 16;
pub const C2S_ID: u8 = 0xC2;
pub const S2C_ID: u8 = 0x52;
pub const ENC_NONCE_BYTE: u8 = 0x4E;

pub struct ModelCipher {
    pub id: [u8; 1],
}
impl zeroize::ZeroizeOnDrop for ModelCipher {}

// ghost: expectations set by the harness before the call under test
/// "the server really sent a datagram with exactly this AAD / nonce / ciphertext under s2c"
pub static mut AUTHENTIC: bool = false;
// The triple is identified WITHOUT pointers: lengths of the three slices (the AAD always starts at
// byte 0 of the datagram, so its length is its extent) plus the first nonce byte and the first and
// last ciphertext byte. Keeping the datagram's address in ghost state (as integer or as raw pointer)
// makes CBMC give up constant propagation through the datagram array (measured: 38 s vs > 8 min).
pub static mut EXP_AAD_LEN: usize = 0;
pub static mut EXP_NONCE_LEN: usize = 0;
pub static mut EXP_CT_LEN: usize = 0;
pub static mut EXP_NONCE_FIRST: u8 = 0;
pub static mut EXP_CT_FIRST: u8 = 0;
pub static mut EXP_CT_LAST: u8 = 0;
// ghost: records
pub static mut DEC_CALLS: u8 = 0;
pub static mut DEC_OK: u8 = 0;
pub static mut DEC_WRONG_KEY: u8 = 0;
pub static mut ENC_CALLS: u8 = 0;
pub static mut ENC_KEY: u8 = 0;
pub static mut ENC_AAD_LEN: usize = 0;
pub static mut ENC_PT_LEN: usize = 0;

impl Cipher for ModelCipher {
    fn encrypt(&self, buffer: &mut [u8], plaintext_length: usize, associated_data: &[u8]) -> std::io::Result<EncryptResult> {
        if buffer.len() < NONCE_LEN + plaintext_length + TAG_LEN {
            return Err(std::io::ErrorKind::WriteZero.into());
        }
        unsafe {
            ENC_CALLS += 1;
            ENC_KEY = self.id[0];
            ENC_AAD_LEN = associated_data.len();
            ENC_PT_LEN = plaintext_length;
        }
        buffer.copy_within(..plaintext_length, NONCE_LEN);
        let mut i = 0;
        while i < NONCE_LEN {
            buffer[i] = ENC_NONCE_BYTE;
            i += 1;
        }
        let mut i = 0;
        while i < TAG_LEN {
            buffer[NONCE_LEN + plaintext_length + i] = self.id[0];
            i += 1;
        }
        Ok(EncryptResult { nonce_length: NONCE_LEN, ciphertext_length: plaintext_length + TAG_LEN })
    }

    fn decrypt(&self, nonce: &[u8], ciphertext: &[u8], associated_data: &[u8]) -> Result<Vec<u8>, DecryptError> {
        unsafe {
            DEC_CALLS += 1;
            if self.id[0] != S2C_ID {
                DEC_WRONG_KEY += 1;
                return Err(DecryptError);
            }
            if ciphertext.len() < TAG_LEN || nonce.is_empty() {
                return Err(DecryptError);
            }
            let extents_ok = associated_data.len() == EXP_AAD_LEN
                && nonce.len() == EXP_NONCE_LEN
                && ciphertext.len() == EXP_CT_LEN
                && nonce[0] == EXP_NONCE_FIRST
                && ciphertext[0] == EXP_CT_FIRST
                && ciphertext[ciphertext.len() - 1] == EXP_CT_LAST;
            if !(AUTHENTIC && extents_ok) {
                return Err(DecryptError);
            }
            DEC_OK += 1;
        }
        Ok(plaintext_vec(&ciphertext[..ciphertext.len() - TAG_LEN]))
    }

    fn key_bytes(&self) -> &[u8] {
        &self.id
    }
}

/// Copy of the plaintext built from an array literal for the lengths the templates use (a
/// `to_vec()`/memcpy makes CBMC forget which bytes are pinned type/length words, after which the
/// parser of the decrypted fields is unrolled to the unwind bound with symbolic lengths).
fn plaintext_vec(c: &[u8]) -> Vec<u8> {
    match c.len() {
        0 => Vec::new(),
        16 => vec![c[0], c[1], c[2], c[3], c[4], c[5], c[6], c[7], c[8], c[9], c[10], c[11], c[12], c[13], c[14], c[15]],
        32 => vec![
            c[0], c[1], c[2], c[3], c[4], c[5], c[6], c[7], c[8], c[9], c[10], c[11], c[12], c[13], c[14], c[15], c[16], c[17], c[18], c[19], c[20], c[21], c[22],
            c[23], c[24], c[25], c[26], c[27], c[28], c[29], c[30], c[31],
        ],
        _ => c.to_vec(),
    }
}

pub fn c2s() -> Box<dyn Cipher> {
    Box::new(ModelCipher { id: [C2S_ID] })
}
pub fn s2c() -> Box<dyn Cipher> {
    Box::new(ModelCipher { id: [S2C_ID] })
}

/// Tell the model which part of `msg` the genuine sender authenticated:
/// AAD = msg[..nts_off], nonce = 16 bytes at nts_off + 8, ciphertext = ct_len bytes after it.
pub fn expect_extents(msg: &[u8], nts_off: usize, ct_len: usize, authentic: bool) {
    unsafe {
        AUTHENTIC = authentic;
        EXP_AAD_LEN = nts_off;
        EXP_NONCE_LEN = NONCE_LEN;
        EXP_CT_LEN = ct_len;
        EXP_NONCE_FIRST = msg[nts_off + 8];
        EXP_CT_FIRST = msg[nts_off + 8 + NONCE_LEN];
        EXP_CT_LAST = msg[nts_off + 8 + NONCE_LEN + ct_len - 1];
    }
}

// ------------------------------------------------------------------------------------------
// builders

pub fn server_id() -> v5::ServerId {
    bh::server_id_fixed()
}

pub fn poll(v: i8) -> PollInterval {
    th::poll_from_raw(v)
}

pub fn version_from(sel: u8, tries_left: u8) -> ProtocolVersion {
    match sel {
        0 => ProtocolVersion::V4,
        1 => ProtocolVersion::V4UpgradingToV5 { tries_left },
        2 => ProtocolVersion::UpgradedToV5,
        _ => ProtocolVersion::V5,
    }
}

pub fn new_source(version: ProtocolVersion, cfg: SourceConfig, desired: PollInterval, nts: Option<Box<SourceNtsData>>) -> NtpSource<RecCtl> {
    sh::new_source(
        SocketAddr::new(IpAddr::V4(Ipv4Addr::new(10, 0, 0, 1)), 123),
        cfg,
        version,
        RecCtl::new(desired),
        nts,
        sh::clock_id(7),
        Arc::from(Vec::<IpAddr>::new()),
        server_id(),
        16,
    )
}

/// A stash in an arbitrary raw ring position: `valid` cookies starting at slot `read`; the oldest
/// one is `oldest`, the i-th oldest (i >= 1) is the 2-byte cookie `[0xC0, i]`; the other slots are
/// empty (what `get` leaves behind).
pub fn stash_with_oldest(read: usize, valid: usize, oldest: Vec<u8>) -> StashH {
    let mut cookies: [Vec<u8>; MAX_COOKIES] = Default::default();
    let mut oldest = Some(oldest);
    let mut i = 0;
    while i < MAX_COOKIES {
        if i < valid {
            let slot = (read + i) % MAX_COOKIES;
            cookies[slot] = if i == 0 { oldest.take().unwrap() } else { vec![0xC0, i as u8] };
        }
        i += 1;
    }
    StashH::from_raw(cookies, read, valid)
}

/// `stubs::symbolic_rng()` without a loop (keeps the global unwind bound small)
#[cfg(kani)]
pub fn sym_rng() {
    unsafe {
        crate::stubs::RNG_TAPE = [kani::any(), kani::any(), kani::any(), kani::any(), kani::any(), kani::any(), kani::any(), kani::any()];
        crate::stubs::RNG_IDX = 0;
    }
}

/// Stash at ring position 0 without a loop: `valid` cookies, oldest = `oldest`, i-th oldest = [0xC0, i].
pub fn stash0(valid: usize, oldest: Vec<u8>) -> StashH {
    let cookies: [Vec<u8>; MAX_COOKIES] = [
        if valid > 0 { oldest } else { Vec::new() },
        if valid > 1 { vec![0xC0, 1] } else { Vec::new() },
        if valid > 2 { vec![0xC0, 2] } else { Vec::new() },
        if valid > 3 { vec![0xC0, 3] } else { Vec::new() },
        if valid > 4 { vec![0xC0, 4] } else { Vec::new() },
        if valid > 5 { vec![0xC0, 5] } else { Vec::new() },
        if valid > 6 { vec![0xC0, 6] } else { Vec::new() },
        if valid > 7 { vec![0xC0, 7] } else { Vec::new() },
    ];
    StashH::from_raw(cookies, 0, valid)
}

/// Collect the (at most 3) actions of an iterator into a fixed array.
pub fn collect_actions(it: NtpSourceActionIterator) -> ([Option<NtpSourceAction>; 3], usize) {
    let mut out: [Option<NtpSourceAction>; 3] = [None, None, None];
    let mut n = 0;
    for a in it {
        if n < 3 {
            out[n] = Some(a);
        }
        n += 1;
    }
    (out, n)
}

pub fn be16(b: &[u8], off: usize) -> usize {
    ((b[off] as usize) << 8) | b[off + 1] as usize
}

// ------------------------------------------------------------------------------------------
// `nharness!`: same as `harness!` (harness/common/util.rs) except that the ghost-tape
// `fill_bytes` stub copies whole 8-byte words (4 loop iterations for the 32-byte unique identifier
// instead of 32), so that harnesses around the NTS request builder can use a small global
// `#[kani::unwind]` (the cookie-placeholder loop of `nts_poll_message*` is unrolled up to that bound
// whenever the number of requested cookies is symbolic).
pub fn thread_rng_fill_bytes_words(_r: &mut rand::rngs::ThreadRng, dest: &mut [u8]) {
    let mut i = 0;
    while i + 8 <= dest.len() {
        let w = crate::stubs::rng_word().to_le_bytes();
        dest[i..i + 8].copy_from_slice(&w);
        i += 8;
    }
    if i < dest.len() {
        let w = crate::stubs::rng_word().to_le_bytes();
        let rem = dest.len() - i;
        dest[i..].copy_from_slice(&w[..rem]);
    }
}
pub fn thread_rng_try_fill_bytes_words(r: &mut rand::rngs::ThreadRng, dest: &mut [u8]) -> Result<(), rand::Error> {
    thread_rng_fill_bytes_words(r, dest);
    Ok(())
}

macro_rules! nharness {
    ( $(#[$m:meta])* fn $name:ident() $body:block ) => {
        #[kani::proof]
        #[kani::stub(tracing::dispatcher::get_default, crate::stubs::tracing_get_default)]
        #[kani::stub(tracing::callsite::DefaultCallsite::register, crate::stubs::tracing_register)]
        #[kani::stub(crate::util::cu_real, crate::stubs::catch_unwind_stub)]
        #[kani::stub(std::time::Instant::now, crate::stubs::instant_now_stub)]
        #[kani::stub(tokio::time::Instant::now, crate::stubs::tokio_instant_now_stub)]
        #[kani::stub(std::collections::hash_map::RandomState::new, crate::stubs::random_state_new_stub)]
        #[kani::stub(rand::thread_rng, crate::stubs::thread_rng_stub)]
        #[kani::stub(<rand::rngs::ThreadRng as rand::RngCore>::next_u32, crate::stubs::thread_rng_next_u32)]
        #[kani::stub(<rand::rngs::ThreadRng as rand::RngCore>::next_u64, crate::stubs::thread_rng_next_u64)]
        #[kani::stub(<rand::rngs::ThreadRng as rand::RngCore>::fill_bytes, crate::common::thread_rng_fill_bytes_words)]
        #[kani::stub(<rand::rngs::ThreadRng as rand::RngCore>::try_fill_bytes, crate::common::thread_rng_try_fill_bytes_words)]
        #[kani::stub(std::collections::HashMap::insert, crate::stubs::hashmap_insert_noop)]
        #[kani::stub(ntp_proto::verif::packet::extension_fields::ExtField::write_zeros, crate::common::write_zeros_single)]
        $(#[$m])*
        fn $name() $body
    };
}

/// Model of the private `ExtensionField::write_zeros(w, n)` (a loop writing `n` zero bytes in
/// chunks of 32): ONE write of `n` zero bytes. Same bytes, same final cursor position, same
/// success/failure (a `Cursor<&mut [u8]>` fails with WriteZero exactly when fewer than `n` bytes
/// are left; after a failure the packet is discarded by the caller). The loop itself is compared
/// with this model in `c14::c14_write_zeros_model`. Needed because every loop is unrolled up to the
/// harness's global unwind bound at every (inlined) call site.
pub fn write_zeros_single<'a>(mut w: impl NonBlockingWrite, n: usize) -> std::io::Result<()>
where
    'a: 'a,
{
    static ZEROS: [u8; 2048] = [0; 2048];
    assert!(n <= 2048, "write_zeros model: at most 2048 zero bytes");
    w.write_all(&ZEROS[..n])
}

/// compare `n` (multiple of 8, <= 32) bytes word by word (4 loop iterations instead of 32)
pub fn eq_words(a: &[u8], b: &[u8], n: usize) -> bool {
    let mut same = true;
    let mut i = 0;
    while i + 8 <= n {
        let x = u64::from_le_bytes([a[i], a[i + 1], a[i + 2], a[i + 3], a[i + 4], a[i + 5], a[i + 6], a[i + 7]]);
        let y = u64::from_le_bytes([b[i], b[i + 1], b[i + 2], b[i + 3], b[i + 4], b[i + 5], b[i + 6], b[i + 7]]);
        if x != y {
            same = false;
        }
        i += 8;
    }
    same
}

// ------------------------------------------------------------------------------------------
// Recorder for `NtpPacket::serialize` (used by the structure-level poll harnesses): instead of
// encoding, it records WHAT the source handed to the encoder (which fields, in which trust class,
// under which key) in ghost statics and writes a 48-byte dummy header. Serialising a packet with
// many extension fields symbolically is out of reach (measured: unwind 8 = 17 s, unwind 10 > 5 min
// and > 4 GB); the encoder itself is exercised by the *_wire harnesses with few fields and by C24.
use ntp_proto::verif::packet::extension_fields::ExtField;
pub static mut REC_CALLS: u8 = 0;
pub static mut REC_N_AUTH: usize = 0;
pub static mut REC_N_ENC: usize = 0;
pub static mut REC_N_UNTRUSTED: usize = 0;
pub static mut REC_N_UID: usize = 0;
pub static mut REC_UID: [u8; 32] = [0; 32];
pub static mut REC_UID_LEN: usize = 0;
pub static mut REC_N_COOKIE: usize = 0;
pub static mut REC_COOKIE_LEN: usize = 0;
/// index (chosen by the harness up front) and the cookie byte found there
pub static mut REC_JC: usize = 0;
pub static mut REC_COOKIE_BYTE: u8 = 0;
pub static mut REC_N_PH: usize = 0;
pub static mut REC_PH_LEN_MISMATCH: usize = 0;
pub static mut REC_N_OTHER: usize = 0;
pub static mut REC_KEY: u8 = 0;
pub static mut REC_HAS_KEY: bool = false;
pub static mut REC_POLL: u8 = 0;
pub static mut REC_DESIRED_SIZE_NONE: bool = false;

pub fn serialize_recorder<'a>(
    p: &NtpPacket<'a>,
    w: &mut std::io::Cursor<&mut [u8]>,
    cipher: &(impl CipherProvider + ?Sized),
    desired_size: Option<usize>,
) -> std::io::Result<()>
where
    'a: 'a,
{
    use ntp_proto::verif::packet as ph;
    use std::io::Write;
    let auth = ph::packet_authenticated(p);
    unsafe {
        REC_CALLS += 1;
        REC_N_AUTH = auth.len();
        REC_N_ENC = ph::packet_encrypted(p).len();
        REC_N_UNTRUSTED = ph::packet_untrusted(p).len();
        REC_POLL = p.poll().as_byte();
        REC_DESIRED_SIZE_NONE = desired_size.is_none();
        match cipher.get(auth) {
            Some(h) => {
                REC_HAS_KEY = true;
                REC_KEY = h.as_ref().key_bytes()[0];
            }
            None => REC_HAS_KEY = false,
        }
        let mut cookie_len = 0usize;
        for ef in auth {
            match ef {
                ExtField::UniqueIdentifier(u) => {
                    REC_N_UID += 1;
                    REC_UID_LEN = u.len();
                    if u.len() == 32 {
                        REC_UID.copy_from_slice(&u[..]);
                    }
                }
                ExtField::NtsCookie(c) => {
                    REC_N_COOKIE += 1;
                    REC_COOKIE_LEN = c.len();
                    cookie_len = c.len();
                    if REC_JC < c.len() {
                        REC_COOKIE_BYTE = c[REC_JC];
                    }
                }
                ExtField::NtsCookiePlaceholder { cookie_length } => {
                    REC_N_PH += 1;
                    // placeholders follow the cookie in the list
                    if *cookie_length as usize != cookie_len || REC_N_COOKIE != 1 {
                        REC_PH_LEN_MISMATCH += 1;
                    }
                }
                _ => REC_N_OTHER += 1,
            }
        }
    }
    let mut hdr = [0u8; 48];
    hdr[2] = p.poll().as_byte();
    w.write_all(&hdr)
}

// ------------------------------------------------------------------------------------------
// Model of `core::str::from_utf8` for the one call site in the decoder
// (`decode_draft_identification`: `match from_utf8(m) { Ok(di) if di.is_ascii() => di, _ => Err }`):
// ASCII input -> Ok, anything else -> some Utf8Error. At that call site both outcomes of the real
// function for non-ASCII input (valid or invalid UTF-8) lead to the same rejection, so the model is
// exact there. std's validator has nested word-wise loops that are unrolled to the global bound at
// every site where a symbolic-type field could be a draft identification.
/// loop-free ASCII test for up to 32 bytes (longer inputs: plain loop)
pub fn all_ascii(v: &[u8]) -> bool {
    let n = v.len();
    macro_rules! chk { ($($i:expr),*) => { $( if n > $i && v[$i] >= 0x80 { return false; } )* } }
    chk!(0, 1, 2, 3, 4, 5, 6, 7, 8, 9, 10, 11, 12, 13, 14, 15, 16, 17, 18, 19, 20, 21, 22, 23, 24, 25, 26, 27, 28, 29, 30, 31);
    let mut i = 32;
    while i < n {
        if v[i] >= 0x80 {
            return false;
        }
        i += 1;
    }
    true
}
pub fn from_utf8_ascii_model(v: &[u8]) -> Result<&str, core::str::Utf8Error> {
    if all_ascii(v) {
        Ok(unsafe { core::str::from_utf8_unchecked(v) })
    } else {
        const _: () = assert!(std::mem::size_of::<core::str::Utf8Error>() == 16);
        // all-zero = { valid_up_to: 0, error_len: None } whatever the field order; never inspected
        Err(unsafe { std::mem::transmute::<[u8; 16], core::str::Utf8Error>([0u8; 16]) })
    }
}
/// Model of `<[u8]>::is_ascii` (the real one takes a word-at-a-time path with nested loops).
pub fn is_ascii_model(v: &[u8]) -> bool {
    all_ascii(v)
}

// ------------------------------------------------------------------------------------------
// Recorders for `NtpPacket::nts_poll_message{,_v5}` (used by the *_timer harnesses): record what
// `handle_timer` asks the request builder for (which cookie, how many cookies, which poll
// exponent) and return a minimal packet (the plain poll message of the same version plus a request
// identifier with a unique id taken from the ghost tape; NTPv4 format for both builders), so that the rest of `handle_timer`
// (pending identifier, encoding, timer) runs on a packet without NTS fields. The real builders are
// checked separately (c13_poll_message_*). Reason: `handle_timer` + real builder + encoder does not
// fit (symex 337 s, 1.9 M steps, > 8 GB already with the encoder replaced).
pub static mut PM_CALLS: u8 = 0;
pub static mut PM_V5: bool = false;
pub static mut PM_COOKIE_LEN: usize = 0;
/// index (chosen by the harness up front) and the cookie byte found there
pub static mut PM_JC: usize = 0;
pub static mut PM_COOKIE_BYTE: u8 = 0;
pub static mut PM_NEW_COOKIES: u8 = 0;
pub static mut PM_POLL: i8 = 0;
pub static mut PM_UID: [u8; 32] = [0; 32];

fn pm_record(cookie: &[u8], new_cookies: u8, poll_interval: PollInterval, v5: bool) -> [u8; 32] {
    let mut uid = [0u8; 32];
    let w0 = crate::stubs::rng_word().to_le_bytes();
    let w1 = crate::stubs::rng_word().to_le_bytes();
    let w2 = crate::stubs::rng_word().to_le_bytes();
    let w3 = crate::stubs::rng_word().to_le_bytes();
    uid[0..8].copy_from_slice(&w0);
    uid[8..16].copy_from_slice(&w1);
    uid[16..24].copy_from_slice(&w2);
    uid[24..32].copy_from_slice(&w3);
    unsafe {
        PM_CALLS += 1;
        PM_V5 = v5;
        PM_COOKIE_LEN = cookie.len();
        if PM_JC < cookie.len() {
            PM_COOKIE_BYTE = cookie[PM_JC];
        }
        PM_NEW_COOKIES = new_cookies;
        PM_POLL = th::poll_raw(poll_interval);
        PM_UID = uid;
    }
    uid
}

pub fn nts_poll_message_rec<'a>(cookie: &'a [u8], new_cookies: u8, poll_interval: PollInterval) -> (NtpPacket<'static>, ntp_proto::verif::packet::RequestId)
where
    'a: 'a,
{
    let uid = pm_record(cookie, new_cookies, poll_interval, false);
    let (p, id) = NtpPacket::<'static>::poll_message(poll_interval);
    let (t, _) = ntp_proto::verif::packet::request_identifier_parts(id);
    (p, ntp_proto::verif::packet::request_identifier(t, Some(uid)))
}

pub fn nts_poll_message_v5_rec<'a>(cookie: &'a [u8], new_cookies: u8, poll_interval: PollInterval) -> (NtpPacket<'static>, ntp_proto::verif::packet::RequestId)
where
    'a: 'a,
{
    let uid = pm_record(cookie, new_cookies, poll_interval, true);
    // also the NTPv4 plain message: with an NTPv5 packet the remainder of handle_timer (Bloom-filter
    // request field + v5 encoder) makes the query 6x larger (942 k vs 148 k steps, > 8 GB); that tail
    // is exercised with real NTPv5 packets by c14_poll_plain
    let (p, id) = NtpPacket::<'static>::poll_message(poll_interval);
    let (t, _) = ntp_proto::verif::packet::request_identifier_parts(id);
    (p, ntp_proto::verif::packet::request_identifier(t, Some(uid)))
}

/// byte-wise, loop-free copy of up to 32 bytes (a memcpy into the datagram array would make CBMC
/// treat the whole array as one symbolic object and lose the pinned type/length words; a loop
/// would need a larger global unwind bound)
pub fn put_bytes(b: &mut [u8], off: usize, src: &[u8]) {
    let n = src.len();
    assert!(n <= 32);
    macro_rules! cp { ($($i:expr),*) => { $( if n > $i { b[off + $i] = src[$i]; } )* } }
    cp!(0, 1, 2, 3, 4, 5, 6, 7, 8, 9, 10, 11, 12, 13, 14, 15, 16, 17, 18, 19, 20, 21, 22, 23, 24, 25, 26, 27, 28, 29, 30, 31);
}


// ------------------------------------------------------------------------------------------
// Deadline of a pending request, derived from ONE reading of the clock (under Kani: the ghost
// clock's first, arbitrary reading; in a native replay: the real monotonic clock) plus/minus a
// symbolic distance of at least one second. Never built from ghost values directly, so that a
// counterexample means the same thing natively: "in time" stays in time (the code's own clock
// reading follows within microseconds), "expired" stays expired.
pub struct Deadline {
    pub expired: bool,
    pub secs: u64,
    pub nanos: u32,
}
#[cfg(kani)]
pub fn any_deadline() -> Deadline {
    let d = Deadline { expired: kani::any(), secs: kani::any(), nanos: kani::any() };
    kani::assume(d.secs >= 1 && d.secs <= (1 << 20) && d.nanos < 1_000_000_000);
    d
}
pub fn deadline_from_now(d: &Deadline) -> tokio::time::Instant {
    let base = tokio::time::Instant::now();
    let dist = std::time::Duration::new(d.secs, d.nanos);
    if d.expired { base - dist } else { base + dist }
}
/// (vacuity guards only) does the ghost clock's NEXT reading still lie before the deadline?
pub fn ghost_in_time(deadline: tokio::time::Instant) -> bool {
    unsafe {
        let i = if crate::stubs::NOW_IDX < 4 { crate::stubs::NOW_IDX } else { 3 };
        deadline >= tokio::time::Instant::from_std(crate::stubs::make_instant(crate::stubs::NOW_SECS[i], crate::stubs::NOW_NANOS[i]))
    }
}
