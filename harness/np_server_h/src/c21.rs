//! Harnesses for property C21 (see /verif/properties.jsonl): statistics.
//!
//! Every C15/C16 harness asserts `check_stats!` (exactly one registration whose kind matches the
//! decoded response). `c21_once` adds what those cannot see with a request-sized buffer: an
//! arbitrary send-buffer size (0..=64 bytes, independent of the request), so that the
//! serialisation-failure path after a positive policy decision is exercised too.
use crate::common::*;
use crate::stubs;
use ntp_proto::verif::{server as sh, time_types as tt};
use ntp_proto::*;
use std::net::{IpAddr, Ipv4Addr, Ipv6Addr};
use std::time::Duration;

srv_harness! {
    #[kani::unwind(4)]
    fn c21_once() {
        stubs::symbolic_clock();
        let cfg = any_cfg(any_nets(), any_nets(), 1);
        let info = any_server_info();
        let now: u64 = kani::any();
        let recv: u64 = kani::any();
        let fam: u8 = kani::any();
        kani::assume(fam <= 2);
        let cb: [u8; 16] = kani::any();
        let msg: [u8; 52] = kani::any();
        let len: usize = kani::any();
        kani::assume(len <= 52);
        let blen: usize = kani::any();
        kani::assume(blen <= 64);
        let seeded: bool = kani::any();
        let client = client_addr(fam, cb);
        let mut server = build_server(&cfg, SymClock { now: tt::ts_from_raw(now) }, info, zero_keyset());
        if seeded {
            sh::server_cache_set_slot(&mut server, 0, Some((client, stubs::make_instant(0, 0))));
        }
        let mut stats = RecStats::new();
        let mut buf = [0u8; 64];
        let act = server.handle(client, tt::ts_from_raw(recv), &msg[..len], &mut buf[..blen], &mut stats);
        let out = outcome(&act);
        check_stats!(stats, out);
        assert!(!stats.nts, "C21: the NTS flag is never set for a plain request");
        let vn = if len > 0 { (msg[0] >> 3) & 7 } else { 0 };
        assert!(stats.version == vn, "C21: recorded version is the datagram's version field");
        if out.kind.is_some() {
            assert!(out.resp_len <= blen, "response lies inside the caller's buffer");
        }
        if blen < 48 {
            assert!(out.kind.is_none(), "no response fits a buffer shorter than a header");
        }
        // the recorded reason distinguishes "ignored on purpose" from "could not answer"
        if stats.reason == ServerReason::InternalError {
            assert!(out.kind.is_none() && blen < 48 && len >= 48, "internal error is recorded only when the answer did not fit");
        }
        kani::cover!(stats.reason == ServerReason::InternalError, "serialisation failure recorded once, as Ignore");
        kani::cover!(out.kind == Some(Kind::Time) && blen == 48, "time answer into a minimal buffer");
        kani::cover!(out.kind == Some(Kind::DenyKiss) && blen == 64, "deny kiss into a larger buffer");
        kani::cover!(out.kind.is_none() && stats.reason == ServerReason::ParseError, "parse error recorded");
        kani::cover!(out.kind.is_none() && stats.reason == ServerReason::RateLimit, "rate limit recorded");
        kani::cover!(out.kind.is_none() && stats.reason == ServerReason::Policy && len == 0, "empty datagram recorded");
        std::mem::forget(server);
    }
}
