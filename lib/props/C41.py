ST = "statime_h"
_kinds = [("sync", "Sync"), ("delay_req", "Delay_Req"), ("pdelay_req", "Pdelay_Req"), ("pdelay_resp", "Pdelay_Resp"),
          ("follow_up", "Follow_Up"), ("delay_resp", "Delay_Resp"), ("pdelay_resp_fu", "Pdelay_Resp_Follow_Up"),
          ("announce", "Announce"), ("signaling", "Signaling"), ("management", "Management")]
_quick_kinds = ("sync",)
PROP = dict(
    functions=[
        "statime_wire::Message::{deserialize,serialize,wire_size}",
        "statime_wire::Header::{deserialize_header,serialize_header}, MessageBody::{deserialize,serialize}, all ten body codecs",
        "statime_wire::TlvSet::{deserialize,serialize,tlvs}, TlvSetIterator::next, Tlv::{serialize,deserialize}, TlvSetBuilder::{add,build}, TlvType::{from_primitive,to_primitive}",
        "statime_wire::{Timestamp,TimeInterval,PortIdentity,ClockIdentity,ClockQuality,ClockAccuracy,TimeSource,ManagementAction} codecs",
    ],
    bounds="parse direction: Sync-typed datagrams (first octet concrete 0x00), all remaining bytes unstructured, symbolic length <= 56: all TLV chains that fit in 12 bytes; "
           "build direction: Sync, Announce and Management bodies (the other seven body types have harnesses c41_build_<type> in the module, same code path, not registered because not run to completion) with every public field symbolic (header: all 19 fields), a TlvSet built with TlvSetBuilder from 0, 1 or 2 TLVs, each with a symbolic type "
           "(7 named types + Reserved/Experimental/Legacy payload ranges) and a symbolic value of symbolic length 0..=4",
    outside="parse direction for the nine non-Sync message types (harnesses c41_parse_<type> exist, not run to completion) and undefined types (c41_parse_badtype: 2.5M steps, out of memory); fully unstructured first octet (sdoId high nibble != 0 in the parse direction; the build direction covers all sdoId values): the unstructured U(52) run (c41_parse_u52, not registered) did not finish in 25 min; byte strings longer than 64 bytes and TLV chains longer than 12 bytes (property text: up to 4096 bytes); TLV values longer than 4 bytes; non-canonical enum payloads that the type system allows but that alias another "
            "variant on the wire (ClockAccuracy::ProfileSpecific(v>=0x7e), TimeSource::ProfileSpecific/Reserved holding a named code, TlvType::Reserved/Legacy/Experimental holding a code of another class); serde impls; "
            "meaning of reserved bits: the oracle requires equality on the defined bits of IEEE 1588-2019 and zero on reserved bits (flagField 0x98/0x80, messageTypeSpecific, controlField, Announce/Pdelay_Req reserved octets)",
    assumptions=[
        "c41_build_*: TLV value lengths even (IEEE 1588 lengthField is even; odd lengths are rejected by the parser by design while TlvSetBuilder::add accepts them - harness c41_build_kf_odd_tlv_length documents this, not registered); empty-valued TLVs anywhere, including last, are inside the claim",
        "c41_build_*: enum payloads canonical (ClockAccuracy/TimeSource values drawn from the image of the public from_primitive; TlvType::Reserved/Experimental/Legacy payloads inside their own code ranges)",
        "header fields within the ranges their public constructors enforce (SdoId <= 0xfff, version nibbles < 16, Timestamp::new)",
    ],
    stub_notes=["no stubs: plain #[kani::proof] harnesses over the public API (+ hook statime_wire::verif::common::tlv::tlv_type_to_primitive to read a TLV type code)"],
    harnesses=[
        H(ST, "c41", "c41_parse_sync", "Sync-typed datagrams (first octet 0x00 fixed), the other <= 55 bytes and the length symbolic: Ok(m) => serialize writes messageLength bytes equal to the input on all defined bits (reserved bits zero), nothing beyond; no panic (575 s)", tier="thorough", timeout=1500, timeout_thorough=1800),
        H(ST, "c41", "c41_parse_sync_tlv", "same inputs: header fields at their wire offsets, messageLength bounds, TLV iterator walks exactly the TLVs of the raw suffix (type code, even length, value bytes) (539 s)", tier="thorough", timeout=1500, timeout_thorough=1800),
    ] + [
        H(ST, "c41", "c41_build_" + k, "%s body, symbolic header/body/TLVs: serialise (length, messageLength, TLV headers at their offsets) and parse back to an equal message; TLVs iterate in order" % n,
          tier=("quick" if k in _quick_kinds else "thorough"), timeout=900) for k, n in _kinds if k in ("sync", "announce", "management")
    ] + [
        H(ST, "c41", "c41_build_trailing_empty_tlv", "regression harness for 24ae201: Sync body whose last TLV has an empty value: serialise -> parse is the identity and the iterator yields the empty TLV (fails on the pre-fix tree)", timeout=900),
    ],
)
