//! Harnesses for property C24 (see /verif/properties.jsonl): decode/encode round trip.
//!
//! For every byte image the decoder accepts (no keys):
//!  (a) `serialize(p)` is Ok (b1),
//!  (b) b1 is the *normal form* of the input computed here from the wire format alone
//!      (same header; same fields, same length fields, padding bytes zeroed, the unused tail of a
//!      reference-id request zeroed; same MAC) — this is the independent oracle: a serializer that
//!      writes another length than it reports, forgets padding, or drops a field fails it,
//!  (c) `deserialize(b1)` is Ok(p2) and p2 == p,
//!  (d) `serialize(p2)` == b1 (stable after one normalising round).
//! Known deviations on the unchanged tree are split off into `*_kf_*` harnesses (see report):
//!  * NTPv5 reference-id request whose payload length is not a multiple of four: `serialize`
//!    panics (`assert_eq!` in ReferenceIdRequest::serialize),
//!  * NTPv4 field shorter than the RFC 7822 minimum (16, last field 28): the encoder pads it and
//!    the padding becomes part of the field's value, so (b) and (c) cannot hold; (a), the decoded
//!    result of b1 and (d) are still checked in the main harnesses.
use crate::common::*;
use crate::stubs;
use ntp_proto::verif::packet as ph;
use ntp_proto::{NoCipher, NtpPacket};

pub const SLACK: usize = 64;

/// What the harness knows about the image from its template.
#[derive(Clone, Copy)]
pub struct Expect {
    /// check (b): the expected normal form is `nf[..nf_len]`
    pub check_nf: bool,
    /// check (c): p2 == p
    pub check_eq: bool,
}

/// Round trip of one image; `nf` is the expected normal form (only read when `e.check_nf`).
pub fn round_trip<const M: usize>(data: &[u8], nf: &[u8; M], nf_len: usize, e: Expect) -> bool {
    // byte-wise claims are checked at arbitrary indices i, j (drawn before the code under test)
    let i: usize = kani::any();
    let j: usize = kani::any();
    kani::assume(i < M && j < M);
    let (p, _) = match NtpPacket::deserialize(data, &NoCipher) {
        Ok(x) => x,
        Err(_) => return false,
    };
    let mut b1 = [0u8; M];
    let n1 = match encode(&p, &NoCipher, &mut b1) {
        Ok(n) => n,
        Err(_) => {
            assert!(false, "(a) an accepted packet can be encoded again");
            return true;
        }
    };
    if e.check_nf {
        assert!(n1 == nf_len, "(b) encoded length is the length of the normal form");
        if i < nf_len {
            assert!(b1[i] == nf[i], "(b) encoding is the normal form of the input");
        }
    }
    let (p2, _) = match NtpPacket::deserialize(&b1[..n1], &NoCipher) {
        Ok(x) => x,
        Err(_) => {
            assert!(false, "(c) the re-encoded packet is accepted again");
            return true;
        }
    };
    if e.check_eq {
        assert!(p2 == p, "(c) decoding the re-encoded packet yields the same packet");
    }
    let mut b2 = [0u8; M];
    match encode(&p2, &NoCipher, &mut b2) {
        Ok(n2) => {
            assert!(n2 == n1, "(d) second encoding has the same length");
            if j < n1 {
                assert!(b2[j] == b1[j], "(d) second encoding yields the same bytes");
            }
        }
        Err(_) => assert!(false, "(d) the normalised packet can be encoded"),
    }
    true
}

/// Normal form of a template image (wire format knowledge only):
/// copy of the input where, for NTPv5, the padding after each field and the unused tail of a
/// reference-id request are zero and the leap bits are 3 when the synchronized flag is clear.
pub fn normal_form<const N: usize, const M: usize, const K: usize>(img: &Img<N, K>) -> [u8; M] {
    let mut nf = [0u8; M];
    nf[..N].copy_from_slice(&img.buf);
    let version = (img.buf[0] >> 3) & 7;
    if version == 5 {
        if img.buf[15] & 1 == 0 {
            nf[0] |= 0xC0;
        }
        let mut k = 0;
        while k < K {
            let o = img.off[k];
            let l = img.flen[k] as usize;
            let mut j = l;
            while j < pad4(l) {
                nf[o + j] = 0;
                j += 1;
            }
            if get16(&img.buf, o) == T_REFID_REQ {
                let mut j = 6;
                while j < l {
                    nf[o + j] = 0;
                    j += 1;
                }
            }
            k += 1;
        }
    }
    nf
}

// ------------------------------------------------------------------ unstructured
harness! {
    #[kani::unwind(8)]
    fn c24_rt_u() {
        let buf: [u8; 52] = kani::any();
        let len: usize = kani::any();
        kani::assume(len <= 52);
        // within 52 bytes only v3/v4 header (+ MAC of 4 bytes) can be accepted: identity
        let mut nf = [0u8; 52 + SLACK];
        nf[..52].copy_from_slice(&buf);
        let acc = round_trip(&buf[..len], &nf, len, Expect { check_nf: true, check_eq: true });
        let version = (buf[0] >> 3) & 7;
        kani::cover!(acc && len == 48 && version == 3, "v3 header round trip");
        kani::cover!(acc && len == 52 && version == 4, "v4 header + 4-byte MAC round trip");
        kani::cover!(acc && len == 52 && version == 3, "v3 header + 4-byte MAC round trip");
        kani::cover!(!acc && len == 50, "rejected input");
    }
}
