//! Harnesses for property C07 (see /verif/properties.jsonl).
use crate::stubs;
