KS = "np_keyset_h"
_model = ("ideal AEAD for the cookie keys as in C26 (log-based INT-CTXT model; expected outcome asserted by the stub, never assumed)")
PROP = dict(
    functions=[
        "ntp_proto::keyset::KeySetProvider::{load, store, get}",
        "ntp_proto::keyset::KeySet::{encode_cookie, decode_cookie} on loaded key sets",
        "std::io::Read for &[u8] / std::io::Write for &mut [u8] (real library code) as the file",
    ],
    bounds="key files: EVERY byte string of length <= 148 (20-byte header + 2 keys, symbolic length, all header fields and key bytes symbolic, "
           "declared key count arbitrary u32); crash prefixes: every cut point 0..=len of a stored file with 1 or 2 keys; arbitrary id offset, history, wall-clock seconds < 2^62",
    outside="ntpd::daemon::nts_key_provider::spawn (tokio spawn_blocking, real files, fallback to fresh keys on Err: read, not encoded); the file mode: "
            "OpenOptions::new().create(true).truncate(true).write(true).mode(0o600).open(path) is compared by a source extractor only (not solver-decided; mode applies only when the file is created, "
            "an existing file keeps its mode, group bits are not inspected by the start-up warning); key files with more than 2 keys; partial writes that are not prefixes (out-of-order page write-back after power loss); "
            "system clock before 1970 at store time (store panics by design: expect(\"Could not get current time\"))",
    assumptions=[
        "none on the file contents: c27_load quantifies over every byte string <= 148 bytes (the two former defect regions, primary == key count and time >= 2^63 s, "
        "fixed by e6a5d66 / 5b49617, are included and additionally pinned by c27_load_primary_eq_len / c27_load_time_overflow)",
        "c27_usable quantifies over exactly the key sets c27_load can return (1..2 keys, primary < number of keys): composition of the two gives 'whatever loads is usable'",
        _model,
        "try_from specification instead of AesSivCmac512::try_from (proven equal by c26_key_try_from_512, property C26)",
        "wall clock at store time >= Unix epoch and < 2^62 s",
    ],
    stub_notes=[
        "std::time::SystemTime::now: ghost wall clock (arbitrary seconds < 2^62, nanoseconds < 1e9)",
        "cookie key AEAD, new_random, zeroize helpers: see C26",
    ],
    extractors=["key_file_mode"],
    harnesses=[
        H(KS, "c27", "c27_load", "any <=148-byte file: accepted => complete, fields/keys restored verbatim, primary < number of keys; never a panic", timeout=600),
        H(KS, "c27", "c27_usable_1", "every 1-key set load can return issues cookies and decodes them", timeout=600),
        H(KS, "c27", "c27_usable_2", "every 2-key set load can return (either key primary) issues cookies and decodes them", timeout=600),
        H(KS, "c27", "c27_crash_1", "1 key stored: no strict prefix loads; the full file restores the same set and time", timeout=600),
        H(KS, "c27", "c27_crash_2", "2 keys stored: no strict prefix loads; the full file restores the same set and time", timeout=600),
        H(KS, "c27", "c27_restore", "cookie issued before store decodes after load", timeout=600),
        H(KS, "c27", "c27_load_primary_eq_len", "regression (fixed e6a5d66): file with primary == number of keys (0 or 1 keys) is rejected; if accepted the harness issues a cookie (former crash keyset.rs:172)", timeout=600),
        H(KS, "c27", "c27_load_time_overflow", "regression (fixed 5b49617): header with time stamp >= 2^63 s is rejected without panic (former crash keyset.rs:101)", timeout=600),
    ],
)
