//! Harnesses for property C11 (see /verif/properties.jsonl): reachability register, reset /
//! demobilise decision of the timer, and the effect of a usable answer.
use crate::common::*;
use crate::stubs;
use ntp_proto::*;

/// The real `Reach` register against a reference that keeps the explicit history of the last
/// eight polls (`hist[i]` = "the poll i steps ago was answered"), from an arbitrary history,
/// for 10 further events (poll / usable answer).
#[kani::proof]
#[kani::unwind(12)]
fn c11_reach() {
    let mut hist: [bool; 8] = kani::any();
    let ev: [bool; 10] = kani::any(); // true = timer poll, false = usable answer arrives
    let mut raw: u8 = 0;
    let mut i = 0;
    while i < 8 {
        if hist[i] {
            raw |= 1 << i;
        }
        i += 1;
    }
    let mut r = sh::reach_from_raw(raw);
    let mut polls_total: u32 = 0;
    let mut step = 0;
    while step <= 10 {
        // reference: polls since the last answered poll, at most 8
        let mut since: u32 = 8;
        let mut k = 8;
        while k > 0 {
            k -= 1;
            if hist[k] {
                since = k as u32;
            }
        }
        assert!(r.unanswered_polls() == since, "C11: unanswered_polls == min(8, polls since the last usable answer)");
        assert!(r.is_reachable() == (since < 8), "C11: reachable iff an answer within the last 8 polls");
        kani::cover!(step == 10 && since == 8 && polls_total == 8, "answer followed by eight missed polls: unreachable");
        kani::cover!(step == 10 && since == 7, "seven missed polls: still reachable");
        if step == 10 {
            break;
        }
        if ev[step] {
            sh::reach_poll(&mut r);
            let mut j = 7;
            while j > 0 {
                hist[j] = hist[j - 1];
                j -= 1;
            }
            hist[0] = false;
            polls_total += 1;
        } else {
            sh::reach_received(&mut r);
            hist[0] = true;
            polls_total = 0;
        }
        step += 1;
    }
}

/// `handle_timer` from an arbitrary (reach, tries, deny flag, version, pending) state.
#[cfg(kani)]
fn timer_check(src: &Src, pre: &Pre, before: &sh::SourceState, acts: &Acts) {
    let post = sh::state(src);
    let unreachable = pre.reach == 0;
    if unreachable && pre.tries >= 3 {
        assert!(acts.n == 1, "C11: exactly one action for an unreachable source");
        if pre.have_deny {
            assert!(acts.kinds[0] == A_DEMOB, "C11: unreachable + deny seen => Demobilize");
        } else {
            assert!(acts.kinds[0] == A_RESET, "C11: unreachable => Reset");
        }
        assert!(acts.sent.is_none(), "C11: an unreachable source sends nothing further");
        assert!(post == *before, "C11: reset/demobilise decision leaves the state alone");
        assert!(pending_unchanged(src, pre), "C11: no new request");
        assert!(unsafe { stubs::HASHMAP_INSERTS } == 0, "C11: nothing published");
    } else {
        assert!(acts.n == 2 && acts.kinds[0] == A_SEND && acts.kinds[1] == A_TIMER, "C11: a live source polls: [Send, SetTimer]");
        assert!(post.tries == pre.tries.saturating_add(1), "C11: tries counts polls");
        assert!(post.reach == pre.reach << 1, "C11: a poll shifts the reach register");
        assert!(post.have_deny_rstr_response == pre.have_deny, "C11: deny memory only cleared by a usable answer");
        assert!(post.pending, "C11: a request is pending after a poll");
    }
    kani::cover!(acts.n == 1 && acts.kinds[0] == A_RESET, "reset");
    kani::cover!(acts.n == 1 && acts.kinds[0] == A_DEMOB, "demobilise");
    kani::cover!(acts.n == 2 && pre.reach == 0 && pre.tries == 2, "third start-up poll still sent");
    kani::cover!(acts.n == 2 && pre.reach == 0x80 && post.reach == 0, "eighth missed poll sent, source becomes unreachable");
    kani::cover!(acts.n == 2 && pre.tries == usize::MAX, "tries saturates");
}

sharness! {
    #[kani::unwind(30)]
    fn c11_timer() {
        frozen_clock();
        let (mut src, pre) = any_source(PvClass::V4Family);
        let before = sh::state(&src);
        let acts = timer_step!(v4fam, src, pre);
        timer_check(&src, &pre, &before, &acts);
    }
}

// (`c11_timer` for UpgradedToV5 / V5 needs the NTPv5 request serialiser, which does not finish
// symbolic execution even from a concrete state: see c12.rs. The reset / demobilise decision is
// taken before the version state is looked at, and `c12_fallback` runs `handle_timer` from
// UpgradedToV5 through the same check.)

/// A usable answer (C08 criteria, raw bytes) marks the source reachable and clears the deny memory;
/// the reported missed polls are the trailing zeros of the register.
#[cfg(kani)]
fn answer_body(src: &mut Src, pre: &Pre, pkt: &[u8]) {
    let acts = collect(src.handle_incoming(pkt, th::ts_from_raw(1), th::ts_from_raw(2)));
    let after_t = tokio::time::Instant::now();
    let post = sh::state(src);
    let n = sh::controller(src).n_meas;
    let usable = must_match(pre, pkt, after_t) && mode_bits(pkt) == 4 && stratum_byte(pkt) >= 1 && stratum_byte(pkt) <= 16;
    if usable {
        assert!(n == 2, "C11: a usable answer is measured");
        assert!(post.reach == pre.reach | 1, "C11: a usable answer sets the lowest reach bit");
        assert!(!post.have_deny_rstr_response, "C11: a usable answer clears the deny memory");
        assert!(sh::reach_from_raw(post.reach).unanswered_polls() == 0, "C11: no missed polls after an answer");
    }
    if n == 2 {
        assert!(post.reach & 1 == 1 && !post.have_deny_rstr_response, "C11: measured => reachable, deny cleared");
    } else {
        assert!(post.reach == pre.reach, "C11: reach only changes through usable answers");
        assert!(!pre.have_deny || post.have_deny_rstr_response, "C11: the deny memory is only cleared by a usable answer (not by RATE / NTSN / unknown kiss / wrong mode / bad stratum)");
    }
    assert!(post.tries == pre.tries, "C11: incoming packets do not count as polls");
    assert!(acts.n == 0, "C11: no actions");
    kani::cover!(usable && pre.have_deny && pre.reach == 0, "usable answer revives an unreachable, denied source");
    kani::cover!(n == 0 && pre.have_deny && post.have_deny_rstr_response && must_match(pre, pkt, after_t) && stratum_byte(pkt) == 1 && mode_bits(pkt) != 4, "matching answer in a wrong mode keeps the deny memory");
    kani::cover!(n == 0 && pre.have_deny && must_match(pre, pkt, after_t) && stratum_byte(pkt) == 0, "matching KISS answer keeps the deny memory");
}

sharness! {
    #[kani::unwind(12)]
    fn c11_answer() {
        frozen_clock();
        let (mut src, pre) = any_source(PvClass::V4Family);
        let mut p = any_pkt4();
        let b0: u8 = kani::any();
        let mut run = |v: u8| {
            p.set_b0(v);
            answer_body(&mut src, &pre, p.bytes());
        };
        for_b0!(quick, b0, run);
    }
}

sharness! {
    #[kani::unwind(30)]
    fn c11_answer_v5() {
        frozen_clock();
        let (mut src, pre) = any_source(PvClass::V5Family);
        let mut p = any_pkt5();
        let sel: u8 = kani::any();
        let mut run = |b0: u8, b12: u8, b14: u8, b15: u8, last: u8| {
            p.set_hdr(b0, b12, b14, b15, last);
            answer_body(&mut src, &pre, p.bytes());
        };
        for_v5hdr!(quick, sel, run);
    }
}

/// `observe()` reports the missed polls of the register (all 256 register values).
harness! {
    #[kani::unwind(30)]
    #[kani::stub(alloc::fmt::format, crate::stubs::fmt_format_stub)]
    fn c11_observe() {
        let reach: u8 = kani::any();
        let mut src = mk_source(ProtocolVersion::V4, th::poll_from_raw(4));
        sh::set_reach(&mut src, reach);
        let o = src.observe(String::new(), sh::clock_id(SRC_ID));
        let mut expect: u32 = 8;
        let mut k = 8;
        while k > 0 {
            k -= 1;
            if reach & (1 << k) != 0 {
                expect = k as u32;
            }
        }
        assert!(o.unanswered_polls == expect, "C11: observed missed polls = polls since the last usable answer, at most 8");
        kani::cover!(o.unanswered_polls == 8, "never answered / eight missed");
        kani::cover!(o.unanswered_polls == 3, "three missed");
    }
}
