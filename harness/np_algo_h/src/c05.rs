//! Harnesses for property C05 (see /verif/properties.jsonl).
use crate::stubs;
