//! Harnesses for property C15 (see /verif/properties.jsonl): server access policy.
//!
//! Oracle (written from the property text, in its order): deny list, allow list, rate limit,
//! well-formedness, mode == client(3), accepted version, require-nts. The response is classified
//! from its raw bytes (`common::classify`), never with the repo decoder.
//!
//! Tractability (measured, see the props file): CBMC's symbolic execution prunes only by
//! constant propagation, so a symbolic version/mode byte or a symbolic length makes it walk every
//! decoder (NTPv5 fields, NTS cookies, AES) on infeasible paths, and a symbolic policy outcome
//! makes it serialise three responses with phantom extension fields. The harnesses are therefore
//! split along the code's own seam:
//!   * `c15_policy_*` / `c15_reject_*` / `c15_nts_*`: the policy half (`Server::handle_inner`,
//!     through a hook wrapper) with a fully symbolic configuration, client, cache state and
//!     datagram contents, for a constant first byte (LI/version/mode) and constant length per
//!     call; the reject harnesses loop over the first-byte/length values that must be ignored;
//!   * `c15_wire_*` (shared with C16/C21): the whole `Server::handle` in the daemon's call shape
//!     for the three response kinds with a concrete policy, classifying the response bytes.
//!
//! Well-formed requests within the U(52) bound (RFC 5905 section 7.3, RFC 7822 section 7.5.1.4,
//! draft-ietf-ntp-ntpv5): NTPv3/NTPv4 = 48-byte header, optionally followed by a MAC (key id +
//! 0..20 bytes of digest, i.e. 4..=24 bytes, a multiple of 4; only 4 fits the bound). An NTPv4
//! extension field needs more than 24 trailing bytes and an NTPv5 request must carry the draft
//! identification field (28 bytes), so neither fits into 52 bytes: those layouts are covered by
//! the template harnesses below.
use crate::common::*;
use crate::stubs;
use ntp_proto::verif::{server as sh, time_types as tt};
use ntp_proto::*;
use std::net::{IpAddr, Ipv4Addr, Ipv6Addr};
use std::time::Duration;

/// What the property text prescribes for one datagram.
#[derive(Clone, Copy, PartialEq, Eq)]
pub enum Expect {
    /// nothing is sent; the reason recorded in the statistics
    Silent(ServerReason),
    DenyKiss,
    Time,
    Nak,
}

/// The decision procedure of the property text. `listed_*`: membership of the client in the
/// lists; `limited`: the client's previous request that passed the lists was less than the
/// cutoff ago (same slot, same address); `wellformed`, `mode`, `accepted`: about the datagram;
/// `nts_ok`: Some(true) = NTS request that authenticates, Some(false) = NTS request that does
/// not, None = plain request.
pub fn decide(cfg: &Cfg, in_deny: bool, in_allow: bool, limited: bool, wellformed: bool, mode: u8, accepted: bool, nts_ok: Option<bool>) -> Expect {
    let listed = if in_deny {
        Some(cfg.deny_action)
    } else if !in_allow {
        Some(cfg.allow_action)
    } else {
        None
    };
    if listed == Some(FilterAction::Ignore) {
        return Expect::Silent(ServerReason::Policy);
    }
    if listed.is_none() && limited {
        return Expect::Silent(ServerReason::RateLimit);
    }
    if !wellformed || mode != 3 {
        return Expect::Silent(ServerReason::ParseError);
    }
    if !accepted {
        return Expect::Silent(ServerReason::Policy);
    }
    if listed == Some(FilterAction::Deny) {
        // "at most a DENY kiss code": a plain request is additionally subject to require-nts
        if nts_ok.is_none() && cfg.require_nts == Some(FilterAction::Ignore) {
            return Expect::Silent(ServerReason::Policy);
        }
        return Expect::DenyKiss;
    }
    match nts_ok {
        Some(true) => Expect::Time,
        Some(false) => Expect::Nak,
        None => match cfg.require_nts {
            Some(FilterAction::Ignore) => Expect::Silent(ServerReason::Policy),
            Some(FilterAction::Deny) => Expect::DenyKiss,
            None => Expect::Time,
        },
    }
}


/// Everything symbolic around one datagram: policy, synchronisation state, clock readings,
/// client, rate-limit cache pre-state.
#[cfg(kani)]
pub struct Sym {
    pub cfg: Cfg,
    pub stratum: u8,
    pub now: u64,
    pub recv: u64,
    pub client: IpAddr,
    pub seeded: bool,
    pub prev: IpAddr,
    pub prev_t: (i64, u32),
    pub now_i: (i64, u32),
    pub server: Server<SymClock>,
}

/// `cache`: rate-limit cache size, 0 or 1. With 1 the single slot starts in an arbitrary state:
/// empty or any (address, instant not after the arrival instant).
#[cfg(kani)]
pub fn any_sym(cache: usize, fam_lo: u8, fam_hi: u8) -> Sym {
    any_dispersion();
    let cfg = any_cfg(any_nets(), any_nets(), cache);
    let stratum: u8 = kani::any();
    kani::assume(stratum != 0);
    let info = any_server_info_with(stratum);
    let now: u64 = kani::any();
    let recv: u64 = kani::any();
    let fam: u8 = kani::any();
    kani::assume(fam >= fam_lo && fam <= fam_hi);
    let cb: [u8; 16] = kani::any();
    let seeded: bool = kani::any();
    let pfam: u8 = kani::any();
    kani::assume(pfam <= 2);
    let pb: [u8; 16] = kani::any();
    // arrival instant = the ghost clock's first reading; previous instant not later
    let a_s: i64 = kani::any();
    let a_n: u32 = kani::any();
    let ps: i64 = kani::any();
    let pn: u32 = kani::any();
    kani::assume(a_s >= 0 && a_s < (1 << 40) && a_n < 1_000_000_000);
    kani::assume(ps >= 0 && pn < 1_000_000_000 && (ps < a_s || (ps == a_s && pn <= a_n)));
    unsafe {
        stubs::NOW_SECS = [a_s; 4];
        stubs::NOW_NANOS = [a_n; 4];
        stubs::NOW_IDX = 0;
    }
    let client = client_addr(fam, cb);
    let prev = client_addr(pfam, pb);
    let mut server = build_server(&cfg, SymClock { now: tt::ts_from_raw(now) }, info, zero_keyset());
    if cache == 1 && seeded {
        sh::server_cache_set_slot(&mut server, 0, Some((prev, stubs::make_instant(ps, pn))));
    }
    Sym { cfg, stratum, now, recv, client, seeded: cache == 1 && seeded, prev, prev_t: (ps, pn), now_i: (a_s, a_n), server }
}

/// One call of the policy half against the oracle. `nts_ok`: see `decide`.
macro_rules! policy_call {
    ($s:expr, $msg:expr, $wellformed:expr, $nts_ok:expr) => {{
        let msg: &[u8] = $msg;
        let len = msg.len();
        let vn = if len > 0 { (msg[0] >> 3) & 7 } else { 0 };
        let mode = if len > 0 { msg[0] & 7 } else { 0 };
        let in_deny = $s.cfg.in_deny($s.client);
        let in_allow = $s.cfg.in_allow($s.client);
        let limited = $s.seeded && $s.prev == $s.client && within_cutoff($s.prev_t, $s.now_i, $s.cfg.cutoff);
        let exp = decide(&$s.cfg, in_deny, in_allow, limited, $wellformed, mode, $s.cfg.accepts(vn), $nts_ok);
        let mut stats = RecStats::new();
        let r = sh::server_handle_inner(&mut $s.server, $s.client, tt::ts_from_raw($s.recv), msg, &mut stats);
        match &r {
            Err(a) => {
                assert!(matches!(a, ServerAction::Ignore), "the policy half only ever gives up with Ignore");
                assert!(matches!(exp, Expect::Silent(_)), "C15: this datagram must be answered");
                assert!(stats.calls == 1, "C21: an ignored datagram is registered exactly once");
                assert!(stats.response == ServerResponse::Ignore, "C21: recorded kind is Ignore");
                if let Expect::Silent(reason) = exp {
                    assert!(stats.reason == reason, "C21/C20: recorded reason matches the policy step that decided");
                }
                assert!(!stats.nts, "C21: NTS flag not set for an ignored datagram");
                assert!(stats.version == vn, "C21: recorded version is the datagram's version field");
            }
            Ok(d) => {
                assert!(stats.calls == 0, "C21: a datagram that will be answered is not registered by the policy half (handle registers it once)");
                assert!(version_num(d.version) == vn, "answer is built for the request's version");
                match exp {
                    Expect::Silent(_) => assert!(false, "C15: this datagram must not be answered"),
                    Expect::DenyKiss => {
                        assert!(d.action == ServerResponse::Deny && d.reason == ServerReason::Policy, "C15: denied client gets exactly a DENY kiss (never time)");
                        assert!(d.packet.is_kiss_deny() && d.packet.mode() == NtpAssociationMode::Server, "the prepared answer is a DENY kiss");
                        assert!(!d.nts, "C21: NTS flag");
                    }
                    Expect::Nak => {
                        assert!(d.action == ServerResponse::NTSNak && d.reason == ServerReason::InvalidCrypto, "C15: NTS request that does not authenticate gets an NTS NAK (never time)");
                        assert!(d.packet.is_kiss_ntsn() && d.packet.mode() == NtpAssociationMode::Server, "the prepared answer is an NTS NAK");
                        assert!(d.nts, "C21: NTS flag set for a NAK");
                    }
                    Expect::Time => {
                        assert!(d.action == ServerResponse::ProvideTime && d.reason == ServerReason::Policy, "C15: accepted request from an allowed client receives time");
                        assert!(d.packet.stratum() == $s.stratum && d.packet.mode() == NtpAssociationMode::Server, "the prepared answer is a time answer");
                        assert!(tt::ts_raw(d.packet.transmit_timestamp()) == $s.now, "time answer carries the server clock reading");
                        assert!(tt::ts_raw(d.packet.receive_timestamp()) == $s.recv, "time answer carries the receive timestamp");
                        assert!(d.desired_size == Some(len), "answer is sized to the request");
                        assert!(d.nts == ($nts_ok == Some(true)), "C21: NTS flag");
                    }
                }
            }
        }
        // C20 (position in the policy): only clients that passed both lists touch the cache
        if sh::server_cache_len(&$s.server) == 1 {
            let post = sh::server_cache_slot(&$s.server, 0);
            if !in_deny && in_allow {
                assert!(post == Some(($s.client, stubs::make_instant($s.now_i.0, $s.now_i.1))), "C20: a client that passed the lists is recorded with its arrival time");
            } else {
                let pre = if $s.seeded { Some(($s.prev, stubs::make_instant($s.prev_t.0, $s.prev_t.1))) } else { None };
                assert!(post == pre, "C20: a client stopped by the lists does not touch the rate-limit cache");
            }
        } else {
            assert!(!limited, "C20: cache size 0 never rate-limits");
        }
        std::mem::forget(r);
        (exp, in_deny, in_allow, limited)
    }};
}

/// Accepted-shape plain request (constant first byte `b0`, constant length 48 or 52) against
/// every policy.
#[cfg(kani)]
fn policy_plain(b0: u8, len: usize, cache: usize, fam_lo: u8, fam_hi: u8) -> Seen {
    let mut s = any_sym(cache, fam_lo, fam_hi);
    let mut msg: [u8; 60] = kani::any();
    msg[0] = b0;
    let vn = (b0 >> 3) & 7;
    let wellformed = (vn == 3 || vn == 4) && (len == 48 || len == 52);
    let (exp, in_deny, in_allow, limited) = policy_call!(s, &msg[..len], wellformed, None);
    assert!(decrypt_calls() == 0, "a plain datagram never reaches the cookie cipher");
    let r = Seen { exp, in_deny, in_allow, limited, accepted: s.cfg.accepts(vn), deny_action: s.cfg.deny_action, allow_action: s.cfg.allow_action, require_nts: s.cfg.require_nts, seeded: s.seeded, same_prev: s.prev == s.client, client: s.client };
    std::mem::forget(s);
    r
}

#[cfg(kani)]
struct Seen {
    exp: Expect,
    in_deny: bool,
    in_allow: bool,
    limited: bool,
    accepted: bool,
    deny_action: FilterAction,
    allow_action: FilterAction,
    require_nts: Option<FilterAction>,
    seeded: bool,
    same_prev: bool,
    client: IpAddr,
}

// cover goals; each harness carries only goals that are satisfiable for its parameters
#[cfg(kani)]
fn covers_policy(r: &Seen) {
    let passed = !r.in_deny && r.in_allow;
    kani::cover!(r.exp == Expect::Time, "request answered with time");
    kani::cover!(r.exp == Expect::DenyKiss && r.in_deny, "deny-listed client gets DENY");
    kani::cover!(r.exp == Expect::DenyKiss && !r.in_deny && !r.in_allow, "client outside the allow list gets DENY");
    kani::cover!(r.exp == Expect::DenyKiss && passed, "plain request denied because NTS is required");
    kani::cover!(r.in_deny && r.in_allow && r.deny_action == FilterAction::Ignore && r.allow_action == FilterAction::Deny, "deny list wins over allow list");
    kani::cover!(r.in_deny && r.in_allow && r.deny_action == FilterAction::Deny && r.exp == Expect::DenyKiss, "deny-listed client on the allow list is denied");
    kani::cover!(passed && !r.accepted && r.exp == Expect::Silent(ServerReason::Policy), "non-accepted version ignored");
    kani::cover!(passed && r.accepted && r.require_nts == Some(FilterAction::Ignore), "plain request ignored because NTS is required");
}
#[cfg(kani)]
fn covers_cache(r: &Seen) {
    let passed = !r.in_deny && r.in_allow;
    kani::cover!(r.limited && passed && r.exp == Expect::Silent(ServerReason::RateLimit), "rate-limited client ignored");
    kani::cover!(r.seeded && r.same_prev && passed && r.exp == Expect::Time, "same client after the cutoff answered");
    kani::cover!(r.seeded && !r.same_prev && passed && r.exp == Expect::Time, "slot used by another address: answered");
    kani::cover!(r.seeded && r.same_prev && !passed && r.exp == Expect::DenyKiss, "listed client is denied, not rate-limited");
}
#[cfg(kani)]
fn covers_v6(r: &Seen) {
    kani::cover!(matches!(r.client, IpAddr::V6(_)) && canonical(r.client) != r.client && r.exp == Expect::Time, "IPv4-mapped client answered");
    kani::cover!(matches!(r.client, IpAddr::V6(_)) && canonical(r.client) != r.client && r.in_deny, "IPv4-mapped client on the deny list");
    kani::cover!(canonical(r.client) == r.client && matches!(r.client, IpAddr::V6(_)) && r.exp == Expect::DenyKiss, "IPv6 client denied");
    kani::cover!(canonical(r.client) == r.client && matches!(r.client, IpAddr::V6(_)) && r.exp == Expect::Time, "IPv6 client answered");
}

srv_harness! { #[kani::unwind(4)] fn c15_policy_v4() { let r = policy_plain(0x23, 48, 0, 0, 0); covers_policy(&r); } }
srv_harness! { #[kani::unwind(4)] fn c15_policy_v3() { let r = policy_plain(0x1B, 48, 0, 0, 0); covers_policy(&r); } }
srv_harness! { #[kani::unwind(4)] fn c15_policy_v4_mac() { let r = policy_plain(0xE3, 52, 0, 0, 0); covers_policy(&r); } }
srv_harness! { #[kani::unwind(4)] fn c15_policy_v3_mac() { let r = policy_plain(0x5B, 52, 0, 0, 0); covers_policy(&r); } }
srv_harness! { #[kani::unwind(4)] fn c15_policy_v6() { let r = policy_plain(0xA3, 48, 0, 1, 2); covers_policy(&r); covers_v6(&r); } }
srv_harness! { #[kani::unwind(4)] #[kani::stub(<std::hash::DefaultHasher as std::hash::Hasher>::finish, crate::common::hasher_finish_model)] fn c15_policy_ratelimit() { let r = policy_plain(0x23, 48, 1, 0, 2); covers_policy(&r); covers_cache(&r); } }

// single datagrams that must be ignored whatever the policy (symbolic policy, policy half)
#[cfg(kani)]
fn covers_reject(r: &Seen) {
    kani::cover!(!r.in_deny && r.in_allow && r.require_nts.is_none() && r.exp == Expect::Silent(ServerReason::ParseError), "allowed client, NTS not required: still ignored");
    kani::cover!(r.in_deny && r.deny_action == FilterAction::Deny && r.exp == Expect::Silent(ServerReason::ParseError), "deny action: a malformed datagram gets no DENY kiss either");
    kani::cover!(r.in_deny && r.deny_action == FilterAction::Ignore && r.exp == Expect::Silent(ServerReason::Policy), "ignored by the deny list before parsing");
}
srv_harness! { #[kani::unwind(4)] fn c15_reject_mode4() { let r = policy_plain(0x24, 48, 0, 0, 2); covers_reject(&r); } }

srv_harness! {
    #[kani::unwind(9)]
    fn c15_reject_modes_v4() {
        // NTPv4, every mode other than client(3), with and without a 4-byte MAC
        reject_list_modes(4);
    }
}
srv_harness! {
    #[kani::unwind(9)]
    fn c15_reject_modes_v3() {
        reject_list_modes(3);
    }
}

/// well-formed v3/v4 header in a non-client mode: ignored (decide() gets wellformed = true).
#[cfg(kani)]
fn reject_list_modes(vn: u8) {
    let mut s = any_sym(0, 0, 2);
    let mut msg: [u8; 60] = kani::any();
    let li: u8 = 0;
    let mut mode = 0u8;
    while mode < 8 {
        if mode != 3 {
            msg[0] = (li << 6) | (vn << 3) | mode;
            let (exp, _, _, _) = policy_call!(s, &msg[..48], true, None);
            assert!(matches!(exp, Expect::Silent(_)), "oracle: non-client datagrams are silent");
            let (exp, _, _, _) = policy_call!(s, &msg[..52], true, None);
            assert!(matches!(exp, Expect::Silent(_)), "oracle: non-client datagrams are silent");
        }
        mode += 1;
    }
    kani::cover!(!s.cfg.in_deny(s.client) && s.cfg.in_allow(s.client) && s.cfg.accepts(vn) && s.cfg.require_nts.is_none(), "allowed client, accepted version: non-client mode still ignored");
    std::mem::forget(s);
}


// Datagrams the parser rejects (too short, trailing bytes, unknown version, NTPv5 without draft
// identification) are NOT covered by a Kani harness: every path on which `NtpPacket::deserialize`
// returns an error exhausts the 8 GB cap (measured: single call, concrete policy, unwind 2:
// 4.7 GB after 4 min and growing; the match arm `Err(DecryptError(packet))` is explored with an
// unconstrained packet because the error's niche-encoded discriminant is not constant-folded).
// They are exercised natively by `common::native_tests` (sampling, not a proof).

// ---------------------------------------------------------------------------------------------
// NTS requests whose encrypted field does not authenticate (DESIGN section 3, C15).
//
// Layout templates (constant field type/length words, symbolic contents):
//   A (80 bytes, v4):  header | NTS-encrypted EF (0x0404, 32 bytes: nonce len 16, ct len 8, 24 bytes)
//        no cookie field at all => the key set yields no cipher => "does not decrypt"
//   B (120 bytes, v4): header | NTS cookie EF (0x0204, 40 bytes: 36-byte cookie) | NTS-encrypted EF (32 bytes)
//        cookie bytes arbitrary: key id unknown, or the cookie ciphertext does not authenticate
//        (AES-SIV modelled: garbage never authenticates)
//   C (108 bytes, v5): header | draft identification EF (28 bytes) | encrypted EF (32 bytes)
// The property: such a request never receives time; from an allowed client in client mode with
// an accepted version it receives the NTS NAK; non-client-mode datagrams are never answered.

pub const DRAFT: &[u8; 23] = b"draft-ietf-ntp-ntpv5-09";

/// Build the template into `msg` (first byte `b0`); returns the length.
#[cfg(kani)]
pub fn nts_template(msg: &mut [u8; 160], layout: u8, b0: u8) -> usize {
    msg[0] = b0;
    let len = match layout {
        0 => {
            put_ef_header(msg, 48, 0x0404, 32);
            80
        }
        1 => {
            put_ef_header(msg, 48, 0x0204, 40);
            put_ef_header(msg, 88, 0x0404, 32);
            120
        }
        _ => {
            // v5 header words that must be well-formed: timescale, flags
            msg[12] = 0;
            msg[14] = 0;
            msg[15] = 0;
            put_ef_header(msg, 48, 0xF5FF, 27);
            put_draft_id(msg, 52);
            put_ef_header(msg, 76, 0x0404, 32);
            108
        }
    };
    // encrypted field: nonce length 16, ciphertext length 8 (24 bytes of symbolic nonce||ciphertext)
    let enc = len - 32;
    msg[enc + 4] = 0;
    msg[enc + 5] = 16;
    msg[enc + 6] = 0;
    msg[enc + 7] = 8;
    len
}

// (Harnesses with symbolic field contents for these layouts - no cookie / arbitrary cookie /
// NTPv5 - did not finish: > 9 min and > 5 GB in symbolic execution; removed. The concrete
// witnesses below do not fit the 8 GB cap either and are NOT registered; they are kept so that
// the lead can retry them with a larger cap. The native test in common.rs checks the same.)

/// `sym_header`: bytes 1..48 symbolic; otherwise the whole datagram is concrete (zeros).
#[cfg(kani)]
fn nts_nonclient(sym_header: bool, b0: u8) -> Outcome {
    let mut msg = [0u8; 160];
    if sym_header {
        let h: [u8; 48] = kani::any();
        let mut i = 1;
        while i < 48 {
            msg[i] = h[i];
            i += 1;
        }
    }
    let len = nts_template(&mut msg, 0, b0);
    let info = server_info(2, [127, 0, 0, 1], NtpDuration::from_exponent(-18), NtpDuration::ZERO, NtpLeapIndicator::NoWarning, tt::ts_from_raw(0));
    // accepted versions = {V4}, everybody allowed, NTS not required, no rate limiting
    let mut cfg = crate::c16::class_cfg(crate::c16::Class::Time, [NtpVersion::V4; 3]);
    cfg.n_versions = 1;
    let mut server = build_server(&cfg, SymClock { now: tt::ts_from_raw(0x1234_5678_0000_0000) }, info, zero_keyset());
    let mut stats = RecStats::new();
    // longer than --max-field-sensitivity-array-size: the serialiser writes at positions symex cannot fold
    let mut send_buf = [0u8; 256];
    let act = server.handle(IpAddr::V4(Ipv4Addr::new(192, 0, 2, 1)), tt::ts_from_raw(0x1234_5677_0000_0000), &msg[..len], &mut send_buf[..len], &mut stats);
    let out = outcome(&act);
    std::mem::forget(server);
    out
}

srv_harness! {
    #[kani::unwind(2)]
    fn c15_nts_kf_nonclient_nak() {
        // EXPECTED TO FAIL on the unchanged tree (DESIGN section 5): layout A (80 bytes: NTPv4
        // header in SERVER mode (4) + NTS-encrypted field, no cookie) from an allowed client.
        // `handle_inner` checks the mode only on the Ok branch of deserialize, so a non-client
        // datagram whose NTS field does not decrypt is answered with an NTS NAK. Concrete
        // witness (all other bytes zero), end-to-end through `Server::handle` in the daemon's call
        // shape, so that the native replay shows the datagram that is sent.
        let out = nts_nonclient(false, 0x24);
        assert!(out.kind.is_none(), "C15: a datagram that is not in client mode is never answered");
    }
}

srv_harness! {
    #[kani::unwind(2)]
    fn c15_nts_client_nak() {
        // the same datagram in client mode (3): answered with the NTS NAK, never with time
        let out = nts_nonclient(false, 0x23);
        assert!(out.kind == Some(Kind::NakKiss) && out.resp_len == 48, "C15: undecryptable NTS request from an allowed client gets the NAK");
        kani::cover!(out.kind == Some(Kind::NakKiss), "NAK sent");
    }
}

/// Policy half only, concrete datagram (layout A, first byte `b0`, all other bytes zero), everybody
/// allowed, versions {V4}: what does `handle_inner` decide?
#[cfg(kani)]
fn nts_nonclient_inner(b0: u8) -> Option<ServerResponse> {
    let mut msg = [0u8; 160];
    let len = nts_template(&mut msg, 0, b0);
    let info = server_info(2, [127, 0, 0, 1], NtpDuration::from_exponent(-18), NtpDuration::ZERO, NtpLeapIndicator::NoWarning, tt::ts_from_raw(0));
    let mut cfg = crate::c16::class_cfg(crate::c16::Class::Time, [NtpVersion::V4; 3]);
    cfg.n_versions = 1;
    let mut server = build_server(&cfg, SymClock { now: tt::ts_from_raw(0x1234_5678_0000_0000) }, info, zero_keyset());
    let mut stats = RecStats::new();
    let r = sh::server_handle_inner(&mut server, IpAddr::V4(Ipv4Addr::new(192, 0, 2, 1)), tt::ts_from_raw(0x1234_5677_0000_0000), &msg[..len], &mut stats);
    let out = match &r {
        Ok(d) => Some(d.action),
        Err(_) => None,
    };
    std::mem::forget(r);
    std::mem::forget(server);
    out
}

srv_harness! {
    #[kani::unwind(2)]
    fn c15_nts_inner_kf_nonclient_nak() {
        // EXPECTED TO FAIL on the unchanged tree: server-mode (4) datagram with an undecryptable
        // NTS field: the policy half prepares an NTS NAK instead of ignoring it.
        let out = nts_nonclient_inner(0x24);
        assert!(out.is_none(), "C15: a datagram that is not in client mode is never answered");
    }
}

srv_harness! {
    #[kani::unwind(2)]
    fn c15_nts_inner_client_nak() {
        let out = nts_nonclient_inner(0x23);
        assert!(out == Some(ServerResponse::NTSNak), "C15: undecryptable NTS request from an allowed client gets the NAK, never time");
        kani::cover!(out == Some(ServerResponse::NTSNak), "NAK prepared");
    }
}

