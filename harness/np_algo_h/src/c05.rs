//! Harnesses for property C05 (see /verif/properties.jsonl): offset = ((T2-T1)+(T3-T4))/2,
//! delay = (T4-T1)-(T3-T2) across era boundaries; one-way offset = remote - local.
use crate::stubs;
use ntp_proto::verif::algorithm as ah;
use ntp_proto::verif::algorithm::{InternalMeasurement, InternalSourceController};
use ntp_proto::verif::source as sh;
use ntp_proto::verif::time_types as tt;
use ntp_proto::{
    Measurement, NoCipher, NtpDuration, NtpLeapIndicator, NtpPacket, NtpTimestamp, ObservableSourceTimedata, PollInterval,
    SourceController,
};

// ghost record of what reached the inner (filter-side) controller
static mut M_N: usize = 0;
static mut M_OFFSET: i64 = 0;
static mut M_DELAY: i64 = 0;
static mut M_LOCAL: u64 = 0;
static mut M_ROOT_DELAY: i64 = 0;
static mut M_ROOT_DISP: i64 = 0;
static mut M_LEAP: u8 = 0xff;
static mut M_PRECISION: i8 = 0;

fn record<D: std::fmt::Debug + Copy>(m: &InternalMeasurement<D>, delay: i64) {
    unsafe {
        M_N += 1;
        M_OFFSET = tt::dur_raw(m.offset);
        M_DELAY = delay;
        M_LOCAL = tt::ts_raw(m.localtime);
        M_ROOT_DELAY = tt::dur_raw(m.root_delay);
        M_ROOT_DISP = tt::dur_raw(m.root_dispersion);
        M_LEAP = crate::common::leap_code(m.leap);
        M_PRECISION = m.precision;
    }
}

struct RecTwoWay;
impl InternalSourceController for RecTwoWay {
    type ControllerMessage = ();
    type SourceMessage = ();
    type MeasurementDelay = NtpDuration;
    fn handle_message(&mut self, _m: ()) {}
    fn handle_measurement(&mut self, m: InternalMeasurement<NtpDuration>) -> Option<()> {
        record(&m, tt::dur_raw(m.delay));
        None
    }
    fn desired_poll_interval(&self) -> PollInterval {
        PollInterval::default()
    }
    fn observe(&self) -> ObservableSourceTimedata {
        ObservableSourceTimedata::default()
    }
}
struct RecOneWay;
impl InternalSourceController for RecOneWay {
    type ControllerMessage = ();
    type SourceMessage = ();
    type MeasurementDelay = ();
    fn handle_message(&mut self, _m: ()) {}
    fn handle_measurement(&mut self, m: InternalMeasurement<()>) -> Option<()> {
        record(&m, 0);
        None
    }
    fn desired_poll_interval(&self) -> PollInterval {
        PollInterval::default()
    }
    fn observe(&self) -> ObservableSourceTimedata {
        ObservableSourceTimedata::default()
    }
}

/// shortest signed difference a - b of two 64-bit era-wrapping timestamps
fn wrap(a: u64, b: u64) -> i128 {
    let m = (a as i128 - b as i128).rem_euclid(1i128 << 64);
    if m >= (1i128 << 63) { m - (1i128 << 64) } else { m }
}
fn fits(x: i128) -> bool {
    x >= i64::MIN as i128 && x <= i64::MAX as i128
}
fn clamp64(x: i128) -> i64 {
    if x > i64::MAX as i128 {
        i64::MAX
    } else if x < i64::MIN as i128 {
        i64::MIN
    } else {
        x as i64
    }
}

fn meas(sender: u64, receiver: u64, sts: u64, rts: u64, rd: i64, rdisp: i64, leap: u8, precision: i8) -> Measurement {
    Measurement {
        sender_id: sh::clock_id(sender),
        receiver_id: sh::clock_id(receiver),
        sender_ts: tt::ts_from_raw(sts),
        receiver_ts: tt::ts_from_raw(rts),
        root_delay: tt::dur_from_raw(rd),
        root_dispersion: tt::dur_from_raw(rdisp),
        leap: crate::common::leap_from_code(leap),
        precision,
    }
}

// The real two-way wrapper: outgoing measurement (T1 = local send, T2 = remote receive) then
// incoming measurement (T3 = remote transmit, T4 = local receive).
harness! {
    fn c05_twoway() {
        let t1: u64 = kani::any();
        let t2: u64 = kani::any();
        let t3: u64 = kani::any();
        let t4: u64 = kani::any();
        let id: u64 = kani::any();
        kani::assume(id != 0); // ClockId::SYSTEM (0) marks the outgoing direction
        let rd: i64 = kani::any();
        let rdisp: i64 = kani::any();
        let leap: u8 = kani::any();
        kani::assume(leap <= 4);
        let precision: i8 = kani::any();

        let (mut w, rx) = ah::twoway_wrapper(sh::clock_id(id), RecTwoWay);
        w.handle_measurement(meas(0, id, t1, t2, rd, rdisp, leap, precision));
        unsafe { assert!(M_N == 0, "an outgoing measurement alone produces no sample"); }
        assert!(ah::twoway_has_outgoing(&w), "outgoing half stored");
        w.handle_measurement(meas(id, 0, t3, t4, rd, rdisp, leap, precision));
        // dropping the wrapper would send on the tokio channel (not modelled): leak both halves
        std::mem::forget(w);
        std::mem::forget(rx);

        let a = wrap(t2, t1);
        let b = wrap(t3, t4);
        let c = wrap(t4, t1);
        let d = wrap(t3, t2);
        unsafe {
            assert!(M_N == 1, "exactly one sample reaches the filter");
            if fits(a + b) {
                assert!(M_OFFSET as i128 == (a + b) / 2, "offset = ((T2-T1)+(T3-T4))/2");
            } else {
                assert!(M_OFFSET as i128 == clamp64(a + b) as i128 / 2, "offset saturates when the sum is not representable");
            }
            if fits(c - d) {
                assert!(M_DELAY as i128 == c - d, "delay = (T4-T1)-(T3-T2)");
            } else {
                assert!(M_DELAY == clamp64(c - d), "delay saturates when the difference is not representable");
            }
            assert!(M_LOCAL == t4, "the sample is stamped with the local receive time");
            assert!(M_ROOT_DELAY == rd && M_ROOT_DISP == rdisp && M_LEAP == leap && M_PRECISION == precision, "remote data passed through");
            kani::cover!(t2 < t1 && a > 0, "era wrap between T1 and T2");
            kani::cover!(M_OFFSET < 0 && (a + b) % 2 != 0, "odd negative sum (rounding toward zero)");
            kani::cover!(M_DELAY < 0, "negative delay");
            kani::cover!(!fits(a + b), "offset sum not representable");
        }
    }
}

// incoming measurement without a stored outgoing one: nothing reaches the filter
harness! {
    fn c05_twoway_needs_outgoing() {
        let t3: u64 = kani::any();
        let t4: u64 = kani::any();
        let id: u64 = kani::any();
        kani::assume(id != 0);
        let (mut w, rx) = ah::twoway_wrapper(sh::clock_id(id), RecTwoWay);
        w.handle_measurement(meas(id, 0, t3, t4, 0, 0, 0, 0));
        std::mem::forget(w);
        std::mem::forget(rx);
        unsafe { assert!(M_N == 0, "no sample without the outgoing half"); }
    }
}

// One-way sources (GPSd, PPS): offset = remote (sender) - local (receiver).
harness! {
    fn c05_oneway() {
        let ts_remote: u64 = kani::any();
        let ts_local: u64 = kani::any();
        let id: u64 = kani::any();
        let rd: i64 = kani::any();
        let rdisp: i64 = kani::any();
        let leap: u8 = kani::any();
        kani::assume(leap <= 4);
        let precision: i8 = kani::any();
        let (mut w, rx) = ah::oneway_wrapper(sh::clock_id(id), RecOneWay);
        w.handle_measurement(meas(id, 0, ts_remote, ts_local, rd, rdisp, leap, precision));
        std::mem::forget(w);
        std::mem::forget(rx);
        unsafe {
            assert!(M_N == 1, "one sample");
            assert!(M_OFFSET as i128 == wrap(ts_remote, ts_local), "offset = remote time - local time");
            assert!(M_LOCAL == ts_local, "stamped with the local time");
            assert!(M_ROOT_DELAY == rd && M_ROOT_DISP == rdisp && M_LEAP == leap && M_PRECISION == precision, "remote data passed through");
            kani::cover!(ts_remote < ts_local && M_OFFSET > 0, "era wrap");
            kani::cover!(M_OFFSET < 0, "remote behind local");
        }
    }
}

// `measurements_from_packet`: which packet field / local time becomes which of T1..T4.
// The packet is built from raw header fields through a hook (decoding 48 symbolic bytes with
// `NtpPacket::deserialize` did not get through symbolic execution in 10 minutes here; the
// wire layout is C23/C24's subject).
#[kani::proof]
fn c05_map() {
    let v3: bool = kani::any();
    let leap: u8 = kani::any();
    kani::assume(leap <= 4);
    let stratum: u8 = kani::any();
    let poll: i8 = kani::any();
    let precision: i8 = kani::any();
    let rd: i64 = kani::any();
    let rdisp: i64 = kani::any();
    let ref_ts: u64 = kani::any();
    let org_ts: u64 = kani::any();
    let rx_ts: u64 = kani::any();
    let tx_ts: u64 = kani::any();
    let send: u64 = kani::any();
    let recv: u64 = kani::any();
    let id: u64 = kani::any();
    let pkt = ntp_proto::verif::packet::packet_v3v4_from_raw(
        v3,
        crate::common::leap_from_code(leap),
        ntp_proto::NtpAssociationMode::Server,
        stratum,
        tt::poll_from_raw(poll),
        precision,
        tt::dur_from_raw(rd),
        tt::dur_from_raw(rdisp),
        ntp_proto::ReferenceId::NONE,
        tt::ts_from_raw(ref_ts),
        tt::ts_from_raw(org_ts),
        tt::ts_from_raw(rx_ts),
        tt::ts_from_raw(tx_ts),
    );
    let (out, inc) = sh::measurements_from_packet_hook(&pkt, sh::clock_id(id), tt::ts_from_raw(send), tt::ts_from_raw(recv));
    assert!(out.sender_id == sh::clock_id(0) && out.receiver_id == sh::clock_id(id), "outgoing: system -> source");
    assert!(inc.sender_id == sh::clock_id(id) && inc.receiver_id == sh::clock_id(0), "incoming: source -> system");
    assert!(tt::ts_raw(out.sender_ts) == send, "T1 = local send time");
    assert!(tt::ts_raw(out.receiver_ts) == rx_ts, "T2 = packet receive timestamp");
    assert!(tt::ts_raw(inc.sender_ts) == tx_ts, "T3 = packet transmit timestamp");
    assert!(tt::ts_raw(inc.receiver_ts) == recv, "T4 = local receive time");
    assert!(tt::dur_raw(out.root_delay) == rd && tt::dur_raw(inc.root_delay) == rd, "root delay passed through");
    assert!(tt::dur_raw(out.root_dispersion) == rdisp && tt::dur_raw(inc.root_dispersion) == rdisp, "root dispersion passed through");
    assert!(out.precision == precision && inc.precision == precision, "precision passed through");
    assert!(crate::common::leap_code(out.leap) == leap && crate::common::leap_code(inc.leap) == leap, "leap indicator passed through");
    kani::cover!(rx_ts > tx_ts, "receive after transmit numerically (era wrap)");
    kani::cover!(v3 && org_ts != send, "version 3 packet, origin differs from the send time");
}

// End to end: packet -> measurements -> two-way wrapper -> filter sample.
harness! {
    fn c05_packet_to_sample() {
        let v3: bool = kani::any();
        let rx_ts: u64 = kani::any();
        let tx_ts: u64 = kani::any();
        let send: u64 = kani::any();
        let recv: u64 = kani::any();
        let id: u64 = kani::any();
        kani::assume(id != 0);
        let pkt = ntp_proto::verif::packet::packet_v3v4_from_raw(
            v3,
            NtpLeapIndicator::NoWarning,
            ntp_proto::NtpAssociationMode::Server,
            2,
            tt::poll_from_raw(4),
            -20,
            tt::dur_from_raw(0),
            tt::dur_from_raw(0),
            ntp_proto::ReferenceId::NONE,
            tt::ts_from_raw(0),
            tt::ts_from_raw(send),
            tt::ts_from_raw(rx_ts),
            tt::ts_from_raw(tx_ts),
        );
        let (out, inc) = sh::measurements_from_packet_hook(&pkt, sh::clock_id(id), tt::ts_from_raw(send), tt::ts_from_raw(recv));
        let (mut w, rx) = ah::twoway_wrapper(sh::clock_id(id), RecTwoWay);
        // same order as NtpSource::handle_incoming
        w.handle_measurement(out);
        w.handle_measurement(inc);
        std::mem::forget(w);
        std::mem::forget(rx);
        let a = wrap(rx_ts, send);
        let b = wrap(tx_ts, recv);
        let c = wrap(recv, send);
        let d = wrap(tx_ts, rx_ts);
        unsafe {
            assert!(M_N == 1, "one sample per exchange");
            if fits(a + b) {
                assert!(M_OFFSET as i128 == (a + b) / 2, "offset = ((T2-T1)+(T3-T4))/2 from packet and local times");
            }
            if fits(c - d) {
                assert!(M_DELAY as i128 == c - d, "delay = (T4-T1)-(T3-T2) from packet and local times");
            }
            kani::cover!(M_OFFSET > 0 && M_DELAY > 0, "server ahead, positive delay");
        }
    }
}
