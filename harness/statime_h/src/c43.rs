//! Harnesses for property C43 (see /verif/properties.jsonl).
use crate::stubs;
