//! Harnesses for property C41 (see /verif/properties.jsonl).
use crate::stubs;
