//! Safe-Rust verification hooks for this module (accessors/wrappers only; no logic).
#![allow(missing_docs, unused_imports, dead_code)]
use super::*;

// ---- statime_h (C42/C43): access to the estimator inside a LinkFilter
pub type LinkFilterT<S> = super::LinkFilter<S>;
pub type LinkFilterConfigT = super::LinkFilterConfig;
pub fn filter_estimator<S: KalmanStorageBase>(f: &LinkFilter<S>) -> &EstimatorState<S> {
    &f.estimation_state
}
pub fn filter_estimator_mut<S: KalmanStorageBase>(f: &mut LinkFilter<S>) -> &mut EstimatorState<S> {
    &mut f.estimation_state
}
pub fn filter_link_count<S: KalmanStorageBase>(f: &LinkFilter<S>) -> usize {
    f.links.0.len()
}
