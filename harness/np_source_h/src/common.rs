//! Shared helpers for the `NtpSource` harnesses (C08, C09, C11, C12): recording controller,
//! source builder, arbitrary pre-state, packet templates and raw-byte field readers.
//!
//! Everything the oracles use is computed from the RAW BYTES of the packets and from the values
//! the harness itself put into the source, never from the packet accessors of the code under test.
use crate::stubs;
pub use ntp_proto::verif::source as sh;
pub use ntp_proto::verif::time_types as th;
use ntp_proto::*;
use std::net::{IpAddr, Ipv4Addr, SocketAddr};
use std::sync::Arc;
use std::time::Duration;

// ------------------------------------------------------------------ recording controller
pub const SRC_ID: u64 = 7;

/// `SourceController` that records what the source hands to the clock algorithm.
pub struct RecCtl {
    pub desired: PollInterval,
    pub n_meas: u8,
    pub usable: Option<bool>,
    /// per recorded measurement: 1 = SYSTEM -> source (outgoing), 2 = source -> SYSTEM (incoming), 3 = other
    pub kinds: [u8; 2],
    pub sender_ts: [u64; 2],
    pub receiver_ts: [u64; 2],
}
impl RecCtl {
    pub fn new(desired: PollInterval) -> Self {
        RecCtl { desired, n_meas: 0, usable: None, kinds: [0; 2], sender_ts: [0; 2], receiver_ts: [0; 2] }
    }
}
impl SourceController for RecCtl {
    fn handle_measurement(&mut self, m: Measurement) {
        let me = sh::clock_id(SRC_ID);
        if (self.n_meas as usize) < 2 {
            let i = self.n_meas as usize;
            self.kinds[i] = if m.sender_id == ClockId::SYSTEM && m.receiver_id == me {
                1
            } else if m.sender_id == me && m.receiver_id == ClockId::SYSTEM {
                2
            } else {
                3
            };
            self.sender_ts[i] = th::ts_raw(m.sender_ts);
            self.receiver_ts[i] = th::ts_raw(m.receiver_ts);
        }
        self.n_meas = self.n_meas.saturating_add(1);
    }
    fn set_usable(&mut self, usable: bool) {
        self.usable = Some(usable);
    }
    fn desired_poll_interval(&self) -> PollInterval {
        self.desired
    }
    fn observe(&self) -> ObservableSourceTimedata {
        ObservableSourceTimedata::default()
    }
}

pub type Src = NtpSource<RecCtl>;

/// Plain (non-NTS) source with `SourceConfig::default()` (poll limits 4..=10), no local addresses,
/// local stratum 16, a concrete server id and its own (empty) publication map.
pub fn mk_source(pv: ProtocolVersion, desired: PollInterval) -> Src {
    sh::new_source(
        SocketAddr::new(IpAddr::V4(Ipv4Addr::new(10, 0, 0, 1)), 123),
        SourceConfig::default(),
        pv,
        RecCtl::new(desired),
        None,
        sh::clock_id(SRC_ID),
        Arc::from(Vec::<IpAddr>::new()),
        ntp_proto::verif::packet::v5::server_reference_id::server_id_from_raw([1, 2, 3, 4, 5, 6, 7, 8, 9, 10]),
        16,
    )
}

pub const CFG_MIN_POLL: i8 = 4; // SourceConfig::default()
pub const CFG_MAX_POLL: i8 = 10;

// ------------------------------------------------------------------ clock
/// Ghost clock for these harnesses: one arbitrary instant, returned by EVERY `Instant::now()`
/// of the run (the harness's own reading `base` and the readings of the code under test).
/// Only differences between the pending deadline and `now` matter to the code, and the deadline
/// is `base +/- d` with arbitrary d, so nothing is lost against a clock that advances between
/// the readings - but a counterexample found this way also replays natively, where the real
/// clock advances by microseconds between the readings (the deadline keeps >= 0.25 s distance
/// from every whole-second offset of `base`, see `any_source`). With `stubs::symbolic_clock()`
/// (arbitrary gaps between readings) the solver picks counterexamples in which hours pass
/// between `base` and the code's `now`; those cannot be reproduced under the real clock.
#[cfg(kani)]
pub fn frozen_clock() {
    let s: i64 = kani::any();
    let n: u32 = kani::any();
    kani::assume(s >= 0 && s < (1 << 40));
    kani::assume(n < 1_000_000_000);
    unsafe {
        stubs::NOW_SECS = [s; 4];
        stubs::NOW_NANOS = [n; 4];
        stubs::NOW_IDX = 0;
    }
}

// ------------------------------------------------------------------ arbitrary pre-state
/// Which protocol-version states a harness quantifies over.
#[derive(Clone, Copy, PartialEq, Eq)]
pub enum PvClass {
    Any,
    /// V4 or V4UpgradingToV5 (the states that expect 48-byte v3/v4 answers)
    V4Family,
    /// UpgradedToV5 or V5
    V5Family,
}

#[cfg(kani)]
pub fn any_pv(class: PvClass) -> ProtocolVersion {
    let k: u8 = kani::any();
    let t: u8 = kani::any();
    kani::assume(k < 4);
    // invariant of the upgrade counter: starts at 8, a transition keeps 1..=7 (asserted in C12)
    kani::assume(t >= 1 && t <= 8);
    match class {
        PvClass::Any => {}
        PvClass::V4Family => kani::assume(k < 2),
        PvClass::V5Family => kani::assume(k >= 2),
    }
    match k {
        0 => ProtocolVersion::V4,
        1 => ProtocolVersion::V4UpgradingToV5 { tries_left: t },
        2 => ProtocolVersion::UpgradedToV5,
        _ => ProtocolVersion::V5,
    }
}

/// The values the harness put into the source (the oracle's view of the pre-state).
#[derive(Clone, Copy)]
pub struct Pre {
    pub pv: ProtocolVersion,
    pub has_pending: bool,
    pub pending_id: u64,
    pub deadline: tokio::time::Instant,
    /// a reading of the clock taken BEFORE the code under test runs (so every `now` the code
    /// sees is >= base; also true in a native replay with the real clock)
    pub base: tokio::time::Instant,
    pub reach: u8,
    pub tries: usize,
    pub last_poll: i8,
    pub remote_min: i8,
    pub have_deny: bool,
    pub desired: i8,
}

/// Builds a plain source in an arbitrary state. All nondeterministic values are drawn here.
/// * pending request: none, or (any 64-bit id, no uid, deadline = base +/- d, 1.25 s <= d < 2^20 s,
///   fractional part of d in [0.25 s, 0.75 s]).
/// * reach any u8, tries any usize, deny flag any.
/// * last poll / remote minimum poll: any i8 with remote_min <= 126 (see C09 notes);
///   controller desire in the configured limits 4..=10 unless `desired_any`.
#[cfg(kani)]
pub fn any_source(class: PvClass) -> (Src, Pre) {
    let pv = any_pv(class);
    let has_pending: bool = kani::any();
    let pending_id: u64 = kani::any();
    let d_neg: bool = kani::any();
    let d_secs: u64 = kani::any();
    let d_nanos: u32 = kani::any();
    // |deadline - base| = d_secs + d_nanos with 1 <= d_secs < 2^20 and the fraction in
    // [0.25 s, 0.75 s]: the deadline is never within 0.25 s of `base` +/- a whole number of
    // seconds, so under the REAL clock of a native replay (where the code reads `now` a few
    // microseconds after `base`) every comparison of the deadline with now (+ k seconds) has the
    // same outcome as under the ghost clock with all readings equal.
    kani::assume(d_secs >= 1 && d_secs < (1 << 20));
    kani::assume(d_nanos >= 250_000_000 && d_nanos <= 750_000_000);
    let reach: u8 = kani::any();
    let tries: usize = kani::any();
    let last_poll: i8 = kani::any();
    let remote_min: i8 = kani::any();
    kani::assume(remote_min <= 126);
    let have_deny: bool = kani::any();
    let desired: i8 = kani::any();
    kani::assume(desired >= CFG_MIN_POLL && desired <= CFG_MAX_POLL);

    let base = tokio::time::Instant::now();
    let delta = Duration::new(d_secs, d_nanos);
    let deadline = if d_neg { base - delta } else { base + delta };

    let mut src = mk_source(pv, th::poll_from_raw(desired));
    sh::set_protocol_version(&mut src, pv);
    sh::set_pending(&mut src, if has_pending { Some((th::ts_from_raw(pending_id), None, deadline)) } else { None });
    sh::set_reach(&mut src, reach);
    sh::set_tries(&mut src, tries);
    sh::set_last_poll_interval(&mut src, th::poll_from_raw(last_poll));
    sh::set_remote_min_poll_interval(&mut src, th::poll_from_raw(remote_min));
    sh::set_have_deny(&mut src, have_deny);
    (src, Pre { pv, has_pending, pending_id, deadline, base, reach, tries, last_poll, remote_min, have_deny, desired })
}

/// `handle_timer` builds and serialises a packet whose shape depends on the version state; with a
/// symbolic state CBMC executes all four serialisers on every path (the v5 one alone does not
/// finish). `for_pv!(k, run)` calls `run(<variant>)` once per variant with the variant a literal;
/// the closure pins the source to it with `pin_pv` (the upgrade counter stays symbolic).
#[macro_export]
macro_rules! for_pv {
    (v4fam, $k:expr, $run:ident) => {
        match $k {
            0 => $run(0u8),
            1 => $run(1u8),
            _ => kani::assume(false),
        }
    };
    (v5fam, $k:expr, $run:ident) => {
        match $k {
            2 => $run(2u8),
            3 => $run(3u8),
            _ => kani::assume(false),
        }
    };
}

/// `timer_step!(v4fam|v5fam, src, pre)` = one `handle_timer` with the version state pinned to a
/// literal variant per arm; evaluates to the collected actions.
#[macro_export]
macro_rules! timer_step {
    ($fam:ident, $src:expr, $pre:expr) => {{
        let mut acts = $crate::common::Acts { n: 0, kinds: [0; 3], sent: None };
        let mut run = |k: u8| {
            $crate::common::pin_pv(&mut $src, &$pre, k);
            acts = $crate::common::collect($src.handle_timer());
        };
        $crate::for_pv!($fam, $crate::common::pv_index($pre.pv), run);
        acts
    }};
}

pub fn pv_index(pv: ProtocolVersion) -> u8 {
    match pv {
        ProtocolVersion::V4 => 0,
        ProtocolVersion::V4UpgradingToV5 { .. } => 1,
        ProtocolVersion::UpgradedToV5 => 2,
        ProtocolVersion::V5 => 3,
    }
}

/// Re-write the version state of `src` with a literal variant (`k` must be a literal and equal
/// to `pv_index(pre.pv)`, which the caller's dispatch guarantees).
pub fn pin_pv(src: &mut Src, pre: &Pre, k: u8) {
    let t = match pre.pv {
        ProtocolVersion::V4UpgradingToV5 { tries_left } => tries_left,
        _ => 8,
    };
    let pv = match k {
        0 => ProtocolVersion::V4,
        1 => ProtocolVersion::V4UpgradingToV5 { tries_left: t },
        2 => ProtocolVersion::UpgradedToV5,
        _ => ProtocolVersion::V5,
    };
    sh::set_protocol_version(src, pv);
}

// ------------------------------------------------------------------ packets (raw bytes)
//
// How packets are made symbolic (measured, see the builder report):
// * CBMC only prunes the decoder's version / mode / flag branches during symbolic execution when
//   the octets that decide them are CONSTANTS (it does not fold `(x & 0xC7 | 0x20) & 0x38`), and
//   a merged Ok/Err result of the v5 header decoder makes the extension-field offset symbolic,
//   after which the extension-field parser explodes (> 10 min). So octet 0 (LI|VN|Mode), and for
//   v5 also octets 12, 14, 15 (timescale, flags), are chosen by a `match` over literal values
//   (`for_b0!`, `for_v5hdr!`): one symbolic execution per literal, every other octet symbolic.
// * Arrays above 64 elements are not field-sensitive in CBMC (constants inside are lost): the crate
//   passes `--max-field-sensitivity-array-size 160` (Cargo.toml) for the 76-byte v5 template.
// * A slice that ends exactly at the end of its object makes the decoder's "rest of the buffer"
//   pointer one-past-the-end, whose null check CBMC cannot fold either: 8 bytes of slack follow
//   the packet inside the same object (never part of the slice handed to the code).
pub const V4_LEN: usize = 48;
/// NTPv5 answer template: 48-byte header + draft-identification extension field
/// (type 0xF5FF, length 4+23=27, 23 bytes of text, 1 byte padding).
pub const V5_LEN: usize = 76;
pub const DRAFT: &[u8; 23] = b"draft-ietf-ntp-ntpv5-09";
pub const UPGRADE_MARKER: &[u8; 8] = b"NTP5DRFT";

#[repr(C)]
pub struct Pkt4 {
    pub b: [u8; 48],
    pub slack: [u8; 8],
}
impl Pkt4 {
    pub fn bytes(&self) -> &[u8] {
        unsafe { std::slice::from_raw_parts(self as *const Pkt4 as *const u8, V4_LEN) }
    }
    /// fix octet 0 (call with a literal, see `for_b0!`). For version 5 the other parse-deciding
    /// header octets are fixed too (timescale 0, flags = synchronized): a 48-byte v5 packet has
    /// no draft identification and is undecodable whatever they are.
    pub fn set_b0(&mut self, b0: u8) {
        self.b[0] = b0;
        if (b0 >> 3) & 7 == 5 {
            self.b[12] = 0;
            self.b[14] = 0;
            self.b[15] = 1;
        }
    }
}
pub struct Pkt5 {
    /// 76 packet bytes + 8 bytes slack
    pub b: [u8; 84],
}
impl Pkt5 {
    pub fn bytes(&self) -> &[u8] {
        &self.b[..V5_LEN]
    }
    /// fix the parse-deciding header octets and the last character of the draft text
    /// (call with literals, see `for_v5hdr!`)
    pub fn set_hdr(&mut self, b0: u8, b12: u8, b14: u8, b15: u8, last: u8) {
        self.b[0] = b0;
        self.b[12] = b12;
        self.b[14] = b14;
        self.b[15] = b15;
        self.b[74] = last;
    }
}

/// 48 symbolic bytes (octet 0 is overwritten by the dispatch)
#[cfg(kani)]
pub fn any_pkt4() -> Pkt4 {
    Pkt4 { b: kani::any(), slack: [0; 8] }
}

/// 48 symbolic header bytes + the draft-id field, all concrete (a symbolic character makes the
/// length of the decoded field list symbolic, and dropping that list then does not finish
/// symbolic execution); the dispatch also runs one wrong draft text.
#[cfg(kani)]
pub fn any_pkt5() -> Pkt5 {
    let h: [u8; 48] = kani::any();
    // one literal (no loops: keeps the unwind bound of the harnesses small)
    #[rustfmt::skip]
    let b: [u8; 84] = [
        h[0], h[1], h[2], h[3], h[4], h[5], h[6], h[7], h[8], h[9], h[10], h[11],
        h[12], h[13], h[14], h[15], h[16], h[17], h[18], h[19], h[20], h[21], h[22], h[23],
        h[24], h[25], h[26], h[27], h[28], h[29], h[30], h[31], h[32], h[33], h[34], h[35],
        h[36], h[37], h[38], h[39], h[40], h[41], h[42], h[43], h[44], h[45], h[46], h[47],
        0xF5, 0xFF, 0, 27, b'd', b'r', b'a', b'f', b't', b'-', b'i', b'e',
        b't', b'f', b'-', b'n', b't', b'p', b'-', b'n', b't', b'p', b'v', b'5',
        b'-', b'0', b'9', 0, 0, 0, 0, 0, 0, 0, 0, 0,
    ];
    Pkt5 { b }
}

/// Run `$run(<literal>)` for the octet-0 value `$b` (LI<<6 | VN<<3 | Mode); other values of `$b`
/// are assumed away. `quick`: v4 server / client, v3 server, v5 (undecodable in 48 bytes). `quick_a` / `quick_b`: v4 server / client / broadcast and v3 server / client / v5.
/// `full`: v4 in all eight modes, v4 server with LI=3, v3 broadcast, versions 2 and 7 (12 values;
/// 24 values exhaust the 8 GB solver memory cap). `all`: all 256 values
/// (about 10 s of symbolic execution per value: too slow for the tiers, kept for manual runs).
#[macro_export]
macro_rules! for_b0 {
    (quick, $b:expr, $run:ident) => {
        $crate::for_b0!(@m $b, $run, [0x24, 0x23, 0x1C, 0x2C])
    };
    (servers, $b:expr, $run:ident) => {
        $crate::for_b0!(@m $b, $run, [0x24, 0x1C])
    };
    (quick_a, $b:expr, $run:ident) => {
        $crate::for_b0!(@m $b, $run, [0x24, 0x23, 0x25])
    };
    (quick_b, $b:expr, $run:ident) => {
        $crate::for_b0!(@m $b, $run, [0x1C, 0x1B, 0x2C])
    };
    (full, $b:expr, $run:ident) => {
        $crate::for_b0!(@m $b, $run, [0x20, 0x21, 0x22, 0x23, 0x24, 0x25, 0x26, 0x27, 0xE4, 0x1D, 0x14, 0x3C])
    };
    (all, $b:expr, $run:ident) => {
        $crate::for_b0!(@m $b, $run, [0x00, 0x01, 0x02, 0x03, 0x04, 0x05, 0x06, 0x07, 0x08, 0x09, 0x0A, 0x0B, 0x0C, 0x0D, 0x0E, 0x0F, 0x10, 0x11, 0x12, 0x13, 0x14, 0x15, 0x16, 0x17, 0x18, 0x19, 0x1A, 0x1B, 0x1C, 0x1D, 0x1E, 0x1F, 0x20, 0x21, 0x22, 0x23, 0x24, 0x25, 0x26, 0x27, 0x28, 0x29, 0x2A, 0x2B, 0x2C, 0x2D, 0x2E, 0x2F, 0x30, 0x31, 0x32, 0x33, 0x34, 0x35, 0x36, 0x37, 0x38, 0x39, 0x3A, 0x3B, 0x3C, 0x3D, 0x3E, 0x3F, 0x40, 0x41, 0x42, 0x43, 0x44, 0x45, 0x46, 0x47, 0x48, 0x49, 0x4A, 0x4B, 0x4C, 0x4D, 0x4E, 0x4F, 0x50, 0x51, 0x52, 0x53, 0x54, 0x55, 0x56, 0x57, 0x58, 0x59, 0x5A, 0x5B, 0x5C, 0x5D, 0x5E, 0x5F, 0x60, 0x61, 0x62, 0x63, 0x64, 0x65, 0x66, 0x67, 0x68, 0x69, 0x6A, 0x6B, 0x6C, 0x6D, 0x6E, 0x6F, 0x70, 0x71, 0x72, 0x73, 0x74, 0x75, 0x76, 0x77, 0x78, 0x79, 0x7A, 0x7B, 0x7C, 0x7D, 0x7E, 0x7F, 0x80, 0x81, 0x82, 0x83, 0x84, 0x85, 0x86, 0x87, 0x88, 0x89, 0x8A, 0x8B, 0x8C, 0x8D, 0x8E, 0x8F, 0x90, 0x91, 0x92, 0x93, 0x94, 0x95, 0x96, 0x97, 0x98, 0x99, 0x9A, 0x9B, 0x9C, 0x9D, 0x9E, 0x9F, 0xA0, 0xA1, 0xA2, 0xA3, 0xA4, 0xA5, 0xA6, 0xA7, 0xA8, 0xA9, 0xAA, 0xAB, 0xAC, 0xAD, 0xAE, 0xAF, 0xB0, 0xB1, 0xB2, 0xB3, 0xB4, 0xB5, 0xB6, 0xB7, 0xB8, 0xB9, 0xBA, 0xBB, 0xBC, 0xBD, 0xBE, 0xBF, 0xC0, 0xC1, 0xC2, 0xC3, 0xC4, 0xC5, 0xC6, 0xC7, 0xC8, 0xC9, 0xCA, 0xCB, 0xCC, 0xCD, 0xCE, 0xCF, 0xD0, 0xD1, 0xD2, 0xD3, 0xD4, 0xD5, 0xD6, 0xD7, 0xD8, 0xD9, 0xDA, 0xDB, 0xDC, 0xDD, 0xDE, 0xDF, 0xE0, 0xE1, 0xE2, 0xE3, 0xE4, 0xE5, 0xE6, 0xE7, 0xE8, 0xE9, 0xEA, 0xEB, 0xEC, 0xED, 0xEE, 0xEF, 0xF0, 0xF1, 0xF2, 0xF3, 0xF4, 0xF5, 0xF6, 0xF7, 0xF8, 0xF9, 0xFA, 0xFB, 0xFC, 0xFD, 0xFE, 0xFF])
    };
    (@m $b:expr, $run:ident, [$($v:literal),*]) => {
        match $b { $( $v => $run($v), )* _ => kani::assume(false) }
    };
}

/// Run `$run(b0, b12, b14, b15, last)` with literal parse-deciding octets of an NTPv5 header and
/// the last character of the draft text. `quick`: server mode with flags {synchronized, auth-NAK},
/// request mode and a wrong draft text. `more` adds a malformed mode, LI=3 with timescale 3 and the
/// interleaved flag, and timescale 4 with a reserved flag bit (7 combinations; 10 exhaust the 8 GB cap). `all` adds no flags, a malformed mode, timescales,
/// interleaved flag, LI=3, reserved flag bits, timescale 4, and the 76-byte template under
/// versions 4 and 3 (undecodable).
#[macro_export]
macro_rules! for_v5hdr {
    (quick, $sel:expr, $run:ident) => {
        match $sel {
            0 => $run(0x2C, 0, 0, 0b001, b'9'),
            1 => $run(0x2C, 0, 0, 0b100, b'9'),
            2 => $run(0x2B, 0, 0, 0b001, b'9'),
            3 => $run(0x2C, 0, 0, 0b001, b'8'),
            _ => kani::assume(false),
        }
    };
    (more, $sel:expr, $run:ident) => {
        match $sel {
            0 => $run(0x2C, 0, 0, 0b001, b'9'),
            1 => $run(0x2C, 0, 0, 0b100, b'9'),
            2 => $run(0x2B, 0, 0, 0b001, b'9'),
            3 => $run(0x2C, 0, 0, 0b001, b'8'),
            4 => $run(0x2D, 0, 0, 0b001, b'9'),
            5 => $run(0xEC, 3, 0, 0b011, b'9'),
            6 => $run(0x2C, 4, 0, 0b1001, b'9'),
            _ => kani::assume(false),
        }
    };
    (all, $sel:expr, $run:ident) => {
        match $sel {
            0 => $run(0x2C, 0, 0, 0b000, b'9'),
            1 => $run(0x2C, 0, 0, 0b001, b'9'),
            2 => $run(0x2C, 0, 0, 0b100, b'9'),
            3 => $run(0x2B, 0, 0, 0b001, b'9'),
            4 => $run(0x2D, 0, 0, 0b001, b'9'),
            5 => $run(0x2C, 0, 0, 0b001, b'8'),
            6 => $run(0x2C, 3, 0, 0b011, b'9'),
            7 => $run(0xEC, 1, 0, 0b001, b'9'),
            8 => $run(0x2C, 4, 0, 0b001, b'9'),
            9 => $run(0x2C, 0, 1, 0b001, b'9'),
            10 => $run(0x2C, 0, 0, 0b1001, b'9'),
            11 => $run(0x24, 0, 0, 0b001, b'9'),
            12 => $run(0x1C, 0, 0, 0b001, b'9'),
            13 => $run(0x2C, 2, 0, 0b111, b'9'),
            14 => $run(0x2A, 0, 0, 0b001, b'9'),
            _ => kani::assume(false),
        }
    };
}

/// `sharness! { #[kani::unwind(n)] fn name() { .. } }` = `harness!` + the publication-map stub +
/// the `from_utf8` stub (every harness that calls `handle_timer` / `handle_incoming`).
#[macro_export]
macro_rules! sharness {
    ( $(#[$m:meta])* fn $name:ident() $body:block ) => {
        harness! {
            #[kani::stub(std::collections::HashMap::insert, crate::stubs::hashmap_insert_noop)]
            #[kani::stub(std::str::from_utf8, crate::common::from_utf8_unchecked_stub)]
            #[kani::stub(core::slice::ascii::is_ascii, crate::common::is_ascii_stub)]
            $(#[$m])*
            fn $name() $body
        }
    };
}

/// `core::str::from_utf8` runs an alignment-dependent, doubly nested validation loop that symbolic
/// execution unrolls quadratically. Its only caller on the `handle_incoming` path is
/// `ExtensionField::decode_draft_identification`, which accepts the result only `if di.is_ascii()`
/// (real code, still executed) and otherwise fails exactly as for invalid UTF-8; every ASCII
/// string is valid UTF-8, so skipping the validation does not change the caller's behaviour.
/// (Same stub as np_server_h.)
pub fn from_utf8_unchecked_stub(v: &[u8]) -> Result<&str, std::str::Utf8Error> {
    Ok(unsafe { std::str::from_utf8_unchecked(v) })
}
/// Model of `<[u8]>::is_ascii` (the real one takes an SSE2 path that Kani models with nested
/// `simd_bitmask` loops: > 8 min of symbolic execution for the 23-byte draft text). Same
/// function, plain loop. (Same stub as np_packet_h.)
pub fn is_ascii_stub(v: &[u8]) -> bool {
    let mut i = 0;
    while i < v.len() {
        if v[i] >= 0x80 {
            return false;
        }
        i += 1;
    }
    true
}

pub fn version_bits(p: &[u8]) -> u8 {
    (p[0] >> 3) & 7
}
pub fn mode_bits(p: &[u8]) -> u8 {
    p[0] & 7
}
pub fn stratum_byte(p: &[u8]) -> u8 {
    p[1]
}
pub fn poll_byte(p: &[u8]) -> i8 {
    p[2] as i8
}
pub fn be64(p: &[u8], off: usize) -> u64 {
    ((p[off] as u64) << 56)
        | ((p[off + 1] as u64) << 48)
        | ((p[off + 2] as u64) << 40)
        | ((p[off + 3] as u64) << 32)
        | ((p[off + 4] as u64) << 24)
        | ((p[off + 5] as u64) << 16)
        | ((p[off + 6] as u64) << 8)
        | (p[off + 7] as u64)
}
pub fn put_be64(p: &mut [u8], off: usize, v: u64) {
    let mut i = 0;
    while i < 8 {
        p[off + i] = (v >> (56 - 8 * i)) as u8;
        i += 1;
    }
}
/// origin timestamp (v3/v4) and client cookie (v5) occupy the same octets
pub fn origin_field(p: &[u8]) -> u64 {
    be64(p, 24)
}
/// v3/v4: reference id / kiss code
pub fn refid4(p: &[u8]) -> [u8; 4] {
    [p[12], p[13], p[14], p[15]]
}
/// v4: the reference timestamp carries the upgrade marker "NTP5DRFT"
pub fn has_upgrade_marker(p: &[u8]) -> bool {
    p[16] == b'N' && p[17] == b'T' && p[18] == b'P' && p[19] == b'5' && p[20] == b'D' && p[21] == b'R' && p[22] == b'F' && p[23] == b'T'
}

/// Does the decoder (per the wire format) accept these bytes at all? Written from the formats:
/// v3/v4 with exactly 48 bytes always parse; a v5 template parses iff mode in {3,4},
/// timescale < 4, flags octet 14 zero and only the three low bits of octet 15 used, and the
/// draft identification is the expected one. Everything else (other versions, a v5 header
/// without the draft field, the 76-byte template under version 3/4) is undecodable.
pub fn decodable(p: &[u8]) -> bool {
    let v = version_bits(p);
    if p.len() == V4_LEN {
        v == 3 || v == 4
    } else if p.len() == V5_LEN {
        v == 5
            && (mode_bits(p) == 3 || mode_bits(p) == 4)
            && p[12] < 4
            && p[14] == 0
            && p[15] & 0b1111_1000 == 0
            && p[74] == DRAFT[22]
    } else {
        false
    }
}

/// "has the expected protocol version": a V4 association takes v4 (and v3, which old servers
/// answer with); an upgrading association takes only v4; an upgraded / v5 association only v5.
pub fn version_expected(pv: ProtocolVersion, v: u8) -> bool {
    match pv {
        ProtocolVersion::V4 => v == 4 || v == 3,
        ProtocolVersion::V4UpgradingToV5 { .. } => v == 4,
        ProtocolVersion::UpgradedToV5 | ProtocolVersion::V5 => v == 5,
    }
}

/// Necessary condition for "this packet answers the pending request" (uses the earliest
/// possible `now`): pending, not expired at `base`, id equal, expected version.
pub fn may_match(pre: &Pre, p: &[u8]) -> bool {
    pre.has_pending && pre.deadline >= pre.base && origin_field(p) == pre.pending_id && version_expected(pre.pv, version_bits(p))
}
/// Sufficient condition (uses a clock reading taken AFTER the call): additionally decodable
/// and still fresh at `after`.
pub fn must_match(pre: &Pre, p: &[u8], after: tokio::time::Instant) -> bool {
    may_match(pre, p) && pre.deadline >= after && decodable(p)
}

// ------------------------------------------------------------------ actions
pub const A_SEND: u8 = 1;
pub const A_TIMER: u8 = 2;
pub const A_RESET: u8 = 3;
pub const A_DEMOB: u8 = 4;

pub struct Acts {
    pub n: usize,
    pub kinds: [u8; 3],
    pub sent: Option<Vec<u8>>,
}
pub fn collect(mut it: NtpSourceActionIterator) -> Acts {
    let mut a = Acts { n: 0, kinds: [0; 3], sent: None };
    let mut i = 0;
    while i < 4 {
        match it.next() {
            None => break,
            Some(x) => {
                let k = match x {
                    NtpSourceAction::Send(v) => {
                        if a.sent.is_none() {
                            a.sent = Some(v);
                        }
                        A_SEND
                    }
                    NtpSourceAction::SetTimer(_) => A_TIMER,
                    NtpSourceAction::Reset => A_RESET,
                    NtpSourceAction::Demobilize => A_DEMOB,
                };
                if i < 3 {
                    a.kinds[i] = k;
                }
                a.n += 1;
            }
        }
        i += 1;
    }
    // Leak the (drained) iterator instead of dropping it: on the accept path Kani 0.68 leaves the
    // capacity field of the returned empty `vec![]` iterator unconstrained, which shows up as a
    // spurious `__rust_dealloc` failure when it is dropped (the elements were all moved out above).
    std::mem::forget(it);
    a
}

/// pending request as (id, has uid, deadline)
pub fn pending_of(src: &Src) -> Option<(u64, bool, tokio::time::Instant)> {
    sh::pending(src).map(|(t, uid, d)| (th::ts_raw(t), uid.is_some(), d))
}

/// the pending request is exactly the one the harness installed
pub fn pending_unchanged(src: &Src, pre: &Pre) -> bool {
    match pending_of(src) {
        None => !pre.has_pending,
        Some((id, has_uid, d)) => pre.has_pending && id == pre.pending_id && !has_uid && d == pre.deadline,
    }
}
