//! Safe-Rust verification hooks for this module (accessors/wrappers only; no logic).
#![allow(missing_docs, unused_imports, dead_code)]
use super::*;

// ---- statime_h (C41/C44/C45): raw TLV type codes
pub fn tlv_type_to_primitive(t: TlvType) -> u16 {
    t.to_primitive()
}
pub fn tlv_type_from_primitive(v: u16) -> TlvType {
    TlvType::from_primitive(v)
}
