//! Harnesses for property C40 (see /verif/properties.jsonl).
use crate::stubs;
