//! Native (no solver, no stubs, real `Server::new_internal`/`IpFilter::new`) reproduction of the
//! C17 finding: requests whose answer is longer than the request.
//!   cargo run --release --example c17_short_uids
use ntp_proto::*;
use std::net::{IpAddr, Ipv4Addr};
use std::sync::{Arc, RwLock};

#[derive(Clone)]
struct Clk;
impl NtpClock for Clk {
    type Error = std::io::Error;
    fn now(&self) -> Result<NtpTimestamp, Self::Error> {
        Ok(NtpTimestamp::from_seconds_nanos_since_ntp_era(200, 0))
    }
    fn set_frequency(&self, _: f64) -> Result<NtpTimestamp, Self::Error> {
        unreachable!()
    }
    fn get_frequency(&self) -> Result<f64, Self::Error> {
        Ok(0.0)
    }
    fn step_clock(&self, _: NtpDuration) -> Result<NtpTimestamp, Self::Error> {
        unreachable!()
    }
    fn disable_ntp_algorithm(&self) -> Result<(), Self::Error> {
        unreachable!()
    }
    fn error_estimate_update(&self, _: NtpDuration, _: NtpDuration) -> Result<(), Self::Error> {
        unreachable!()
    }
    fn status_update(&self, _: NtpLeapIndicator) -> Result<(), Self::Error> {
        unreachable!()
    }
}

#[derive(Default)]
struct Stats(Option<(u8, bool, ServerReason, ServerResponse)>);
impl ServerStatHandler for Stats {
    fn register(&mut self, version: u8, nts: bool, reason: ServerReason, response: ServerResponse) {
        self.0 = Some((version, nts, reason, response));
    }
}

fn server() -> Server<Clk> {
    let config = ServerConfig {
        denylist: FilterList { filter: vec![], action: FilterAction::Deny },
        allowlist: FilterList { filter: vec!["0.0.0.0/0".parse().unwrap()], action: FilterAction::Ignore },
        rate_limiting_cache_size: 0,
        rate_limiting_cutoff: std::time::Duration::from_secs(1),
        require_nts: None,
        accepted_versions: vec![NtpVersion::V3, NtpVersion::V4, NtpVersion::V5],
    };
    Server::new_internal(config, Clk, Arc::new(RwLock::new(NtpServerInfo::default())), KeySetProvider::new(1).get())
}

fn run(name: &str, msg: &[u8]) -> bool {
    let ip = IpAddr::V4(Ipv4Addr::new(192, 0, 2, 7));
    let recv = NtpTimestamp::from_seconds_nanos_since_ntp_era(100, 0);
    let mut big = [0u8; 1024];
    let mut st_big = Stats::default();
    let n_big = match server().handle(ip, recv, msg, &mut big, &mut st_big) {
        ServerAction::Respond { message } => Some(message.len()),
        ServerAction::Ignore => None,
    };
    let mut small = vec![0u8; msg.len()];
    let mut st_small = Stats::default();
    let n_small = match server().handle(ip, recv, msg, &mut small, &mut st_small) {
        ServerAction::Respond { message } => Some(message.len()),
        ServerAction::Ignore => None,
    };
    println!("{name}: request {} bytes; 1024-byte buffer -> {:?} {:?}; request-sized buffer -> {:?} {:?}", msg.len(), n_big, st_big.0, n_small, st_small.0);
    n_big.is_some() && n_small.is_none()
}

/// Real NTS request (real key set, real AES-SIV-CMAC-256 session keys): header | uid(`uid_len`
/// payload bytes) | cookie | authenticator with an empty plaintext and a 16-byte nonce.
fn nts_request(keyset: &KeySet, uid_len: usize) -> Vec<u8> {
    use ntp_proto::verif::keyset as kh;
    use ntp_proto::verif::packet::crypto::{AesSivCmac256, Cipher as _};
    let c2s = AesSivCmac256::new([7u8; 32].into());
    let cookie = kh::keyset_encode_cookie(
        keyset,
        &kh::decoded_cookie_from_parts(15, Box::new(AesSivCmac256::new([9u8; 32].into())), Box::new(AesSivCmac256::new([7u8; 32].into()))),
    );
    let mut m = vec![0u8; 48];
    m[0] = 0x23;
    m[40..48].copy_from_slice(&[1, 2, 3, 4, 5, 6, 7, 8]);
    m.extend_from_slice(&[0x01, 0x04]);
    m.extend_from_slice(&((4 + uid_len) as u16).to_be_bytes());
    m.extend(std::iter::repeat(0xAB).take(uid_len));
    m.extend_from_slice(&[0x02, 0x04]);
    m.extend_from_slice(&((4 + cookie.len()) as u16).to_be_bytes());
    m.extend_from_slice(&cookie);
    // AES-SIV over the empty plaintext with the prefix as associated data
    let mut ct = vec![0u8; 64];
    let r = c2s.encrypt(&mut ct, 0, &m).unwrap();
    assert_eq!(r.nonce_length, 16);
    let total = 8 + r.nonce_length + r.ciphertext_length;
    m.extend_from_slice(&[0x04, 0x04]);
    m.extend_from_slice(&(total as u16).to_be_bytes());
    m.extend_from_slice(&(r.nonce_length as u16).to_be_bytes());
    m.extend_from_slice(&(r.ciphertext_length as u16).to_be_bytes());
    m.extend_from_slice(&ct[..r.nonce_length + r.ciphertext_length]);
    m
}

fn run_nts(name: &str, uid_len: usize) -> bool {
    let keyset = KeySetProvider::new(1).get();
    let msg = nts_request(&keyset, uid_len);
    let ip = IpAddr::V4(Ipv4Addr::new(192, 0, 2, 7));
    let recv = NtpTimestamp::from_seconds_nanos_since_ntp_era(100, 0);
    let mk = || {
        let config = ServerConfig {
            denylist: FilterList { filter: vec![], action: FilterAction::Deny },
            allowlist: FilterList { filter: vec!["0.0.0.0/0".parse().unwrap()], action: FilterAction::Ignore },
            rate_limiting_cache_size: 0,
            rate_limiting_cutoff: std::time::Duration::from_secs(1),
            require_nts: None,
            accepted_versions: vec![NtpVersion::V4],
        };
        Server::new_internal(config, Clk, Arc::new(RwLock::new(NtpServerInfo::default())), keyset.clone())
    };
    let mut big = [0u8; 1024];
    let mut st_big = Stats::default();
    let n_big = match mk().handle(ip, recv, &msg, &mut big, &mut st_big) {
        ServerAction::Respond { message } => Some(message.len()),
        ServerAction::Ignore => None,
    };
    let mut small = vec![0u8; msg.len()];
    let mut st_small = Stats::default();
    let n_small = match mk().handle(ip, recv, &msg, &mut small, &mut st_small) {
        ServerAction::Respond { message } => Some(message.len()),
        ServerAction::Ignore => None,
    };
    println!("{name}: request {} bytes; 1024-byte buffer -> {:?} {:?}; request-sized buffer -> {:?} {:?}", msg.len(), n_big, st_big.0, n_small, st_small.0);
    n_big.is_some() && n_small.is_none()
}

/// Observation (not a C19 violation, C19 only bounds the number from above): a standard client
/// request for 8 cookies (unique identifier, cookie, 7 placeholders) is answered with 7 cookies,
/// because `nts_timestamp_response` applies `.take(MAX_COOKIES)` to all authenticated fields
/// (the unique identifier included) before filtering for cookies/placeholders.
fn cookies_for_standard_request(n: u8) -> usize {
    use ntp_proto::verif::keyset as kh;
    use ntp_proto::verif::packet::crypto::AesSivCmac256;
    let keyset = KeySetProvider::new(1).get();
    let c2s = AesSivCmac256::new([7u8; 32].into());
    let s2c = AesSivCmac256::new([9u8; 32].into());
    let cookie = kh::keyset_encode_cookie(
        &keyset,
        &kh::decoded_cookie_from_parts(15, Box::new(AesSivCmac256::new([9u8; 32].into())), Box::new(AesSivCmac256::new([7u8; 32].into()))),
    );
    let (req, _id) = NtpPacket::nts_poll_message(&cookie, n, PollIntervalLimits::default().min);
    let mut reqbuf = [0u8; 2048];
    let mut cur = std::io::Cursor::new(&mut reqbuf[..]);
    req.serialize(&mut cur, &c2s, None).unwrap();
    let len = cur.position() as usize;
    let config = ServerConfig {
        denylist: FilterList { filter: vec![], action: FilterAction::Deny },
        allowlist: FilterList { filter: vec!["0.0.0.0/0".parse().unwrap()], action: FilterAction::Ignore },
        rate_limiting_cache_size: 0,
        rate_limiting_cutoff: std::time::Duration::from_secs(1),
        require_nts: None,
        accepted_versions: vec![NtpVersion::V4],
    };
    let mut server = Server::new_internal(config, Clk, Arc::new(RwLock::new(NtpServerInfo::default())), keyset.clone());
    let mut out = [0u8; 2048];
    let mut st = Stats::default();
    match server.handle(IpAddr::V4(Ipv4Addr::new(192, 0, 2, 7)), NtpTimestamp::from_seconds_nanos_since_ntp_era(100, 0), &reqbuf[..len], &mut out, &mut st) {
        ServerAction::Respond { message } => {
            let (p, _) = NtpPacket::deserialize(message, &s2c).unwrap();
            p.new_cookies().count()
        }
        ServerAction::Ignore => usize::MAX,
    }
}

fn main() {
    // header (v4, client) | uid EF (type 0x0104, length 4) | uid EF (length 4) | 24 bytes (MAC)
    let mut a = vec![0u8; 80];
    a[0] = 0x23;
    a[40..48].copy_from_slice(&[1, 2, 3, 4, 5, 6, 7, 8]);
    a[48..52].copy_from_slice(&[0x01, 0x04, 0x00, 0x04]);
    a[52..56].copy_from_slice(&[0x01, 0x04, 0x00, 0x04]);
    let va = run("two 4-byte unique identifiers + 24-byte MAC", &a);
    // control: identifiers at their minimum sizes (16, 28)
    let mut b = vec![0u8; 92];
    b[0] = 0x23;
    b[48..52].copy_from_slice(&[0x01, 0x04, 0x00, 0x10]);
    b[64..68].copy_from_slice(&[0x01, 0x04, 0x00, 0x1C]);
    let vb = run("identifiers of 16 and 28 bytes (control)", &b);
    println!("C17 violated by A: {va}; by control B: {vb}");
    // NTS: authenticated unique identifier shorter than 16 bytes (it is re-encoded with the 16-byte minimum)
    let vc = run_nts("NTS request, 4-byte unique identifier", 4);
    let vd = run_nts("NTS request, 32-byte unique identifier (control)", 32);
    println!("C17 violated by NTS C: {vc}; by NTS control D: {vd}");
    println!("standard NTS request asking for 8 cookies (cookie + 7 placeholders) receives {} cookies", cookies_for_standard_request(8));
    println!("standard NTS request asking for 7 cookies (cookie + 6 placeholders) receives {} cookies", cookies_for_standard_request(7));
    if va || vc {
        std::process::exit(1);
    }
}
