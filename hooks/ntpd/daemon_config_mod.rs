//! Safe-Rust verification hooks for this module (accessors/wrappers only; no logic).
#![allow(missing_docs, unused_imports, dead_code)]
use super::*;
pub use super::ntp_source::vh_daemon_config_ntp_source as ntp_source;
pub use super::server::vh_daemon_config_server as server;
