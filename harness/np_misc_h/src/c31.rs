//! C31 IP filters match exactly the configured subnets.
//!
//! Oracle (from the property text): an address is listed iff there is a configured subnet of the
//! same (canonical) family whose first `mask` bits equal the first `mask` bits of the address.
//! IPv4-mapped IPv6 query addresses (`::ffff:a.b.c.d`) count as the IPv4 address `a.b.c.d`.
//! Subnets are in the canonical form `IpSubnet::from_str` produces (an IPv4-mapped IPv6 subnet is
//! stored as IPv4), masks within the family's width.
//!
//! Hybrid encoding. `BitTree::fill_node` recurses from 16 guarded call sites per level and keeps
//! all its data on the heap, which CBMC's constant propagation does not see through: symbolic
//! execution instantiates 16^depth copies even for one concrete /0 subnet (measured: no result in
//! 10 min; two subnets with symbolic masks: out of memory at 8 GB). Therefore the trie
//! *construction* is executed natively by this crate's build script (`build.rs`), which links
//! /repo/ntp-proto's current working tree, calls the real `IpFilter::new` on a systematic set of
//! concrete subnet lists (every mask, nested pairs in both orders, sibling blocks that tile their
//! parent, duplicates, pseudo-random pairs) and emits the resulting nodes as constants; the
//! harnesses below load those nodes into a real `IpFilter` (raw constructor hook) and the solver
//! proves `is_in(addr) <=> reference predicate` for **every** address (2^32 IPv4 in plain and
//! IPv4-mapped form, 2^128 IPv6) and **every** list in the table (the list index is symbolic).
//! A wrong trie (e.g. a mask handled one bit off, a bad child index, a wrong coverage merge) has a
//! misclassified address, which the solver finds.
use crate::stubs;
use ntp_proto::IpSubnet;
use ntp_proto::verif::ipfilter as h;
use std::net::{IpAddr, Ipv4Addr, Ipv6Addr};

/// One generated case: the subnet list and the two tries `IpFilter::new` built for it
/// (padded with unreachable all-zero nodes to a common length).
pub struct Case<A, const N4: usize, const N6: usize> {
    pub n: usize,
    pub nets: [A; 2],
    pub masks: [u8; 2],
    pub len4: usize,
    pub len6: usize,
    pub v4: [(u32, u16, u16); N4],
    pub v6: [(u32, u16, u16); N6],
}
include!(concat!(env!("OUT_DIR"), "/c31_tables.rs"));

fn in4(net: u32, mask: u8, a: u32) -> bool {
    // first `mask` bits equal; mask 0 matches everything
    if mask == 0 { true } else { ((net ^ a) >> (32 - mask as u32)) == 0 }
}
fn in6(net: u128, mask: u8, a: u128) -> bool {
    if mask == 0 { true } else { ((net ^ a) >> (128 - mask as u32)) == 0 }
}
fn v4(a: u32) -> IpAddr {
    IpAddr::V4(Ipv4Addr::from(a))
}
fn v6(a: u128) -> IpAddr {
    IpAddr::V6(Ipv6Addr::from(a))
}
const MAPPED: u128 = 0xffff_0000_0000;
fn is_mapped(a: u128) -> bool {
    (a >> 32) == 0xffff
}

/// Query forms for IPv4 lists.
#[derive(Clone, Copy, PartialEq)]
enum Q4 {
    Plain,
    Mapped,
    ProperV6,
}
fn check4(c: &Case<u32, 16, 1>, form: Q4) {
    let f = h::filter_from_nodes_16_1(&c.v4, &c.v6);
    let (n, nets, masks) = (c.n, c.nets, c.masks);
    assert!(n <= 2 && masks[0] <= 32 && masks[1] <= 32 && c.len4 >= 1 && c.len6 >= 1);
    match form {
        Q4::Plain | Q4::Mapped => {
            let q: u32 = kani::any();
            let want = (n >= 1 && in4(nets[0], masks[0], q)) || (n >= 2 && in4(nets[1], masks[1], q));
            let got = if form == Q4::Plain { h::filter_is_in(&f, v4(q)) } else { h::filter_is_in(&f, v6(MAPPED | q as u128)) };
            assert!(got == want, "IPv4 (plain or IPv4-mapped) address listed iff in some configured IPv4 subnet");
            kani::cover!(got && masks[0] > 0, "listed (not through a /0)");
            kani::cover!(!got && n >= 1, "not listed although subnets are configured");
        }
        Q4::ProperV6 => unreachable!("see check4_proper_v6"),
    }
}
fn check4_proper_v6(c: &Case<u32, 16, 1>) {
    let f = h::filter_from_nodes_16_1(&c.v4, &c.v6);
    let q6: u128 = kani::any();
    kani::assume(!is_mapped(q6));
    assert!(!h::filter_is_in(&f, v6(q6)), "a proper IPv6 address is never listed by IPv4 subnets");
    kani::cover!(c.n >= 1, "non-empty list");
}

fn check6(c: &Case<u128, 1, 64>) {
    let f = h::filter_from_nodes_1_64(&c.v4, &c.v6);
    let (n, nets, masks) = (c.n, c.nets, c.masks);
    assert!(n <= 2 && c.len4 >= 1 && c.len6 >= 1 && !is_mapped(nets[0]) && !is_mapped(nets[1]));
    let q: u128 = kani::any();
    kani::assume(!is_mapped(q));
    let want = (n >= 1 && in6(nets[0], masks[0], q)) || (n >= 2 && in6(nets[1], masks[1], q));
    let got = h::filter_is_in(&f, v6(q));
    assert!(got == want, "IPv6 address listed iff in some configured IPv6 subnet");
    kani::cover!(got && masks[0] > 0, "listed (not through a /0)");
    kani::cover!(!got && n >= 1, "not listed although subnets are configured");
}
/// IPv4 (plain or mapped) query addresses are canonically IPv4: never in an IPv6 subnet.
fn check6_v4_query(c: &Case<u128, 1, 64>) {
    let f = h::filter_from_nodes_1_64(&c.v4, &c.v6);
    let q4: u32 = kani::any();
    assert!(!h::filter_is_in(&f, v4(q4)), "IPv4 address never listed by IPv6 subnets");
    assert!(!h::filter_is_in(&f, v6(MAPPED | q4 as u128)), "IPv4-mapped address never listed by IPv6 subnets");
    kani::cover!(c.n >= 1, "non-empty list");
}

fn any_index(len: usize) -> usize {
    let i: usize = kani::any();
    kani::assume(i < len);
    i
}

/// IPv4 quick table (272 lists: empty, 192.168.1.165/m for every m, 108 nested pairs, 63 sibling
/// pairs, duplicates/extremes, 64 pseudo-random pairs) x every IPv4 address.
#[kani::proof]
#[kani::unwind(10)]
fn c31_v4_plain() {
    check4(&V4_QUICK[any_index(V4_QUICK.len())], Q4::Plain);
}
/// Same lists x every IPv4-mapped IPv6 address `::ffff:a.b.c.d`.
#[kani::proof]
#[kani::unwind(10)]
fn c31_v4_mapped() {
    check4(&V4_QUICK[any_index(V4_QUICK.len())], Q4::Mapped);
}
/// Same lists x every proper IPv6 address: never listed.
#[kani::proof]
#[kani::unwind(10)]
fn c31_v4_proper_v6() {
    check4_proper_v6(&V4_QUICK[any_index(V4_QUICK.len())]);
}
// IPv4 thorough table (3302 lists: all 33 x 33 mask pairs of the nested pair in both orders, 1024
// pseudo-random pairs, ...) in 3 chunks (one query over the whole table ran out of 8 GB for the
// mapped form).
macro_rules! chunk4 {
    ($name:ident, $table:ident, $form:expr) => {
        #[kani::proof]
        #[kani::unwind(10)]
        fn $name() {
            check4(&$table[any_index($table.len())], $form);
        }
    };
}
chunk4!(c31_v4_full_plain_0, V4_FULL_0, Q4::Plain);
chunk4!(c31_v4_full_plain_1, V4_FULL_1, Q4::Plain);
chunk4!(c31_v4_full_plain_2, V4_FULL_2, Q4::Plain);
chunk4!(c31_v4_full_mapped_0, V4_FULL_0, Q4::Mapped);
chunk4!(c31_v4_full_mapped_1, V4_FULL_1, Q4::Mapped);
chunk4!(c31_v4_full_mapped_2, V4_FULL_2, Q4::Mapped);
const _: () = assert!(V4_FULL_CHUNKS == 3 && V6_FULL_CHUNKS == 5, "table chunk count changed: update the harness list");

/// First 24 lists of the IPv6 quick table (empty list, one subnet with masks 0, 1, 3, 4, 5, 8,
/// 16, 31, 32, 33, 48, 64, 96, 124, 125, 127, 128, sibling pairs for masks 1..=3) x every
/// proper IPv6 address.
#[kani::proof]
#[kani::unwind(34)]
fn c31_v6_quick() {
    check6(&V6_MINI[any_index(V6_MINI.len())]);
}
/// IPv6 quick table (149 lists) x every proper IPv6 address.
#[kani::proof]
#[kani::unwind(34)]
fn c31_v6() {
    check6(&V6_QUICK[any_index(V6_QUICK.len())]);
}
/// IPv6 lists x every IPv4 / IPv4-mapped address: never listed.
#[kani::proof]
#[kani::unwind(34)]
fn c31_v6_v4_query() {
    check6_v4_query(&V6_QUICK[any_index(V6_QUICK.len())]);
}
macro_rules! chunk6 {
    ($name:ident, $table:ident) => {
        #[kani::proof]
        #[kani::unwind(34)]
        fn $name() {
            check6(&$table[any_index($table.len())]);
        }
    };
}
// IPv6 thorough table (every mask 0..=128, every sibling pair, 162 nested pairs, 96 pseudo-random
// pairs) in 5 chunks of <= 130 lists.
chunk6!(c31_v6_full_0, V6_FULL_0);
chunk6!(c31_v6_full_1, V6_FULL_1);
chunk6!(c31_v6_full_2, V6_FULL_2);
chunk6!(c31_v6_full_3, V6_FULL_3);
chunk6!(c31_v6_full_4, V6_FULL_4);

// `IpSubnet::from_str` is not decided: std's `IpAddr` parser on ten symbolic characters did not
// finish within the 5-minute probe cap (391 s, 4.2 GB when cut off).
