//! Harnesses for property C33 (see /verif/properties.jsonl).
use crate::stubs;
