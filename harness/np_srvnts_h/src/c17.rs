//! Harnesses for property C17 (see /verif/properties.jsonl): whenever the server answers a
//! request, the answer also fits a buffer exactly as long as the request.
//!
//! Method: the same request is handled by two identically configured servers (same clock
//! reading, same synchronisation state, same policy, same key set), once with a 1024-byte buffer
//! and once with a buffer of exactly the request's length. Oracle: answered-with-big =>
//! answered-with-small, with the same length and the same statistics.
//!
//! Request shapes are layout templates (constant first byte / lengths / field types, symbolic
//! contents; see c18.rs for why). The defect predicates that are assumed away / assumed by the
//! `_kf_` harnesses are stated at each template.
use crate::common::*;
use crate::stubs;
use ntp_proto::*;
use std::sync::Arc;

/// Handle `msg` twice (1024-byte buffer, request-sized buffer) and check the C17 implication.
/// Returns the answer length with the big buffer.
pub fn fit_check(env: &Env, msg: &[u8]) -> Option<usize> {
    let mut big_backing = [0u8; BUF + SLACK];
    let mut small_backing = [0u8; BUF + SLACK];
    let len = msg.len();
    let mut s1 = env.server(v5::BloomFilter::new(), empty_keyset());
    let mut st1 = RecStats::default();
    let r_big = handle_once(&mut s1, env, msg, &mut big_backing[..BUF], &mut st1);
    std::mem::forget(s1);
    let mut s2 = env.server(v5::BloomFilter::new(), empty_keyset());
    let mut st2 = RecStats::default();
    let r_small = handle_once(&mut s2, env, msg, &mut small_backing[..len], &mut st2);
    std::mem::forget(s2);
    match r_big {
        Some(n) => {
            assert!(n < BUF, "the big buffer did not limit the answer");
            assert!(r_small.is_some(), "C17: an answer that is produced with a large buffer also fits a request-sized buffer");
            assert!(r_small == Some(n), "same answer length with both buffers");
            assert!(st2.reason == st1.reason && st2.response == st1.response, "same statistics with both buffers");
        }
        None => {
            assert!(r_small.is_none(), "a smaller buffer never turns an ignored request into an answered one");
        }
    }
    r_big
}

srv_harness! {
    #[kani::unwind(4)]
    fn c17_fit_v3() {
        let mut msg: [u8; 52 + SLACK] = kani::any();
        msg[0] = 0x1B; // LI 0, version 3, client mode
        let env = Env::any();
        let a = fit_check(&env.with(Policy::Serve), &msg[..48]);
        let b = fit_check(&env.with(Policy::Serve), &msg[..52]);
        let c = fit_check(&env.with(Policy::DenyAddress), &msg[..48]);
        kani::cover!(a == Some(48), "48-byte request answered in 48 bytes");
        kani::cover!(b == Some(48), "request with MAC answered");
        kani::cover!(c == Some(48), "DENY fits");
    }
}

srv_harness! {
    #[kani::unwind(4)]
    fn c17_fit_v4() {
        let mut msg: [u8; 52 + SLACK] = kani::any();
        msg[0] = 0x23; // LI 0, version 4, client mode
        let env = Env::any();
        let a = fit_check(&env.with(Policy::Serve), &msg[..48]);
        let b = fit_check(&env.with(Policy::Serve), &msg[..52]);
        let c = fit_check(&env.with(Policy::DenyAddress), &msg[..48]);
        kani::cover!(a == Some(48), "48-byte request answered in 48 bytes");
        kani::cover!(b == Some(48), "request with MAC answered");
        kani::cover!(c == Some(48), "DENY fits");
    }
}

/// NTPv4 request with two unique-identifier fields of total lengths `l1`, `l2` followed by
/// `trailer` bytes (<= 24: parsed as a MAC; RFC 7822: a trailing field must be longer than 24 bytes
/// to be taken as an extension field).
///
/// Defect predicate P_uid (plain NTPv4): "the request carries at least two unique-identifier
/// fields and one of them is shorter than the RFC 7822 minimum it is re-encoded with (16 bytes,
/// 28 bytes for the last field of the answer)". `c17_fit_v4_uids` instantiates not-P_uid,
/// `c17_fit_kf_short_uids` instantiates P_uid.
fn fit_v4_two_uids<const L1: usize, const L2: usize, const TRAILER: usize>() -> Option<usize> {
    let mut backing: [u8; 160] = kani::any();
    let len = 48 + L1 + L2 + TRAILER;
    assert!(len + SLACK <= 160);
    let env = Env::any().with(Policy::Serve);
    backing[0] = 0x23;
    put_ef(&mut backing, 48, EF_UID, L1 as u16);
    put_ef(&mut backing, 48 + L1, EF_UID, L2 as u16);
    fit_check(&env, &backing[..len])
}

srv_harness! {
    #[kani::unwind(6)]
    fn c17_fit_v4_uids() {
        // both identifiers at their re-encoding minimum (16, 28): answer = 48 + 16 + 28 = request
        let r = fit_v4_two_uids::<16, 28, 0>();
        kani::cover!(r == Some(92), "answer as long as the request");
    }
}

srv_harness! {
    #[kani::unwind(6)]
    fn c17_fit_kf_short_uids() {
        // two empty (4-byte) identifiers + 24-byte MAC: 80-byte request; the answer pads the
        // identifiers to 16 and 28 bytes: 92 bytes. EXPECTED TO FAIL (known finding).
        let r = fit_v4_two_uids::<4, 4, 24>();
        kani::cover!(r == Some(92), "answer longer than the request");
    }
}
