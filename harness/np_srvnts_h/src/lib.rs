//! Kani harnesses (external crate, path dependency on /repo).
#![feature(allocator_api)]
#![recursion_limit = "512"]
#![allow(unused, static_mut_refs)]
#[path = "../../common/stubs.rs"]
pub mod stubs;
#[path = "../../common/util.rs"]
#[macro_use]
pub mod util;
#[macro_use]
pub mod common;
#[cfg(kani)]
mod c17;
#[cfg(kani)]
mod c18;
#[cfg(kani)]
mod c19;
