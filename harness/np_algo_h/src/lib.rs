//! Kani harnesses (external crate, path dependency on /repo).
#![feature(allocator_api)]
#![recursion_limit = "512"]
#![allow(unused, static_mut_refs)]
#[path = "../../common/stubs.rs"]
pub mod stubs;
#[path = "../../common/util.rs"]
#[macro_use]
pub mod util;
#[cfg(kani)]
pub mod common;
#[cfg(kani)]
mod c01;
#[cfg(kani)]
mod c02;
#[cfg(kani)]
mod c03;
#[cfg(kani)]
mod c04;
#[cfg(kani)]
mod c05;
#[cfg(kani)]
mod cupd;
