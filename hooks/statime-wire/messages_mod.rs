//! Safe-Rust verification hooks for this module (accessors/wrappers only; no logic).
#![allow(missing_docs, unused_imports, dead_code)]
use super::*;
pub use super::announce::vh_messages_announce as announce;
pub use super::header::vh_messages_header as header;
pub use super::management::vh_messages_management as management;
pub use super::signalling::vh_messages_signalling as signalling;
