//! Helpers shared by the C41..C45 harnesses (symbolic PTP values, raw-byte readers that are
//! written from the IEEE 1588 layout and deliberately do not call the code under test).
use statime_wire::*;

// ------------------------------------------------------------------ symbolic wire values
pub fn any_timestamp() -> Timestamp {
    let s: u64 = kani::any();
    let n: u32 = kani::any();
    kani::assume(s < (1u64 << 48));
    kani::assume(n < 1_000_000_000);
    Timestamp::new(s, n).unwrap()
}

pub fn any_port_identity() -> PortIdentity {
    PortIdentity { clock_identity: ClockIdentity(kani::any()), port_number: kani::any() }
}

/// Every header the public API can express (all fields public; SdoId 12 bit, version nibbles).
pub fn any_header() -> Header {
    let sdo: u16 = kani::any();
    kani::assume(sdo <= 0xfff);
    let major: u8 = kani::any();
    let minor: u8 = kani::any();
    kani::assume(major < 16 && minor < 16);
    Header {
        sdo_id: SdoId::try_from(sdo).unwrap(),
        version: PtpVersion::new(major, minor).unwrap(),
        domain_number: kani::any(),
        alternate_master_flag: kani::any(),
        two_step_flag: kani::any(),
        unicast_flag: kani::any(),
        ptp_profile_specific_1: kani::any(),
        ptp_profile_specific_2: kani::any(),
        leap61: kani::any(),
        leap59: kani::any(),
        current_utc_offset_valid: kani::any(),
        ptp_timescale: kani::any(),
        time_tracable: kani::any(),
        frequency_tracable: kani::any(),
        synchronization_uncertain: kani::any(),
        correction_field: TimeInterval(kani::any()),
        source_port_identity: any_port_identity(),
        sequence_id: kani::any(),
        log_message_interval: kani::any(),
    }
}

// ------------------------------------------------------------------ raw readers (IEEE 1588-2019 13.3, 14.1)
pub fn be16(b: &[u8], o: usize) -> u16 {
    ((b[o] as u16) << 8) | b[o + 1] as u16
}
pub fn be32(b: &[u8], o: usize) -> u32 {
    ((b[o] as u32) << 24) | ((b[o + 1] as u32) << 16) | ((b[o + 2] as u32) << 8) | b[o + 3] as u32
}
pub fn be48(b: &[u8], o: usize) -> u64 {
    ((be16(b, o) as u64) << 32) | be32(b, o + 2) as u64
}
pub fn be64(b: &[u8], o: usize) -> u64 {
    ((be32(b, o) as u64) << 32) | be32(b, o + 4) as u64
}
pub fn put16(b: &mut [u8], o: usize, v: u16) {
    b[o] = (v >> 8) as u8;
    b[o + 1] = v as u8;
}
pub fn put32(b: &mut [u8], o: usize, v: u32) {
    put16(b, o, (v >> 16) as u16);
    put16(b, o + 2, v as u16);
}
pub fn put48(b: &mut [u8], o: usize, v: u64) {
    put16(b, o, (v >> 32) as u16);
    put32(b, o + 2, v as u32);
}
pub fn put64(b: &mut [u8], o: usize, v: u64) {
    put32(b, o, (v >> 32) as u32);
    put32(b, o + 4, v as u32);
}

/// Body length by messageType nibble (IEEE 1588-2019 table 36 ff.); None = not a PTPv2 type.
pub fn body_len(message_type: u8) -> Option<usize> {
    match message_type {
        0x0 | 0x1 | 0x8 => Some(10),       // Sync, Delay_Req, Follow_Up: one timestamp
        0x2 | 0x3 | 0x9 | 0xa => Some(20), // Pdelay_Req(+10 reserved), Pdelay_Resp, Delay_Resp, Pdelay_Resp_Follow_Up
        0xb => Some(30),                   // Announce
        0xc => Some(10),                   // Signaling: targetPortIdentity
        0xd => Some(14),                   // Management: targetPortIdentity + 4
        _ => None,
    }
}

/// Straight-line "loop" over the indices 0..64: the body is expanded once per index, so long
/// byte-wise comparisons do not force a large global `#[kani::unwind]` bound (which would also
/// unwind the parser's own data-dependent loops that many times).
#[macro_export]
macro_rules! unroll64 {
    ($i:ident, $body:block) => {
        $crate::unroll64!(@ $i, $body, 0 1 2 3 4 5 6 7 8 9 10 11 12 13 14 15 16 17 18 19 20 21 22 23 24 25 26 27 28 29 30 31 32 33 34 35 36 37 38 39 40 41 42 43 44 45 46 47 48 49 50 51 52 53 54 55 56 57 58 59 60 61 62 63)
    };
    (@ $i:ident, $body:block, $($n:literal)*) => {
        $( { let $i: usize = $n; $body } )*
    };
}
