NM = "np_misc_h"
PROP = dict(
    functions=[
        "<ntp_proto::StepThreshold as serde::Deserialize>::deserialize (visit_f64/i64/u64/str/map) and the private ThresholdPart visitor it uses per direction",
        "<ntp_proto::NtpDuration as serde::Deserialize>::deserialize, ntp_proto::config::deserialize_option_accumulated_step_panic_threshold",
    ],
    bounds="every f64 / i64 / u64 scalar and every 3-byte ASCII string, presented through serde's in-memory deserializers (F64Deserializer, I64Deserializer, U64Deserializer, StrDeserializer, MapDeserializer); maps with 0..=2 entries, keys from {forward, backward, <unknown>} (concrete per harness), in both orders, with duplicates",
    outside="TOML text parsing (the toml crate loops over the input; whole-document totality of Config loading is not decided); maps with more than two entries; the other f64 fields of the daemon configuration (plain f64, no custom validation code)",
    assumptions=[],
    stub_notes=["serde error type of the harness (E0) discards messages instead of formatting them"],
    harnesses=[
        H(NM, "c39", "c39_single", "single-number form: Ok => finite, >= 0, both directions equal and non-negative; NaN/inf/negative rejected; only \"inf\" accepted as string", timeout=600),
        H(NM, "c39", "c39_map_forward", "{forward = v}: accepted value is None or >= 0, backward unlimited", timeout=600),
        H(NM, "c39", "c39_map_backward", "{backward = v}", timeout=600),
        H(NM, "c39", "c39_map_unknown_empty", "unknown key rejected, empty map = unlimited", timeout=600),
        H(NM, "c39", "c39_map_dup_forward", "duplicate forward rejected", timeout=600),
        H(NM, "c39", "c39_map_dup_backward", "duplicate backward rejected", timeout=600),
        H(NM, "c39", "c39_map_two_fb", "{forward, backward}: both parts None or >= 0", timeout=600),
        H(NM, "c39", "c39_map_two_bf", "{backward, forward}", timeout=600),
        H(NM, "c39", "c39_duration", "NtpDuration / accumulated threshold: NaN and inf rejected, zero = disabled", timeout=600),
        H(NM, "c39", "c39_map_unvalidated_part", "{forward|backward = NaN | negative | +-inf} (f64 or integer) is rejected (was the known finding fixed by /repo cf1802a)", timeout=600),
    ],
)
