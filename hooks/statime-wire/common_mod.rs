//! Safe-Rust verification hooks for this module (accessors/wrappers only; no logic).
#![allow(missing_docs, unused_imports, dead_code)]
use super::*;
pub use super::port_identity::vh_common_port_identity as port_identity;
pub use super::time_interval::vh_common_time_interval as time_interval;
pub use super::timestamp::vh_common_timestamp as timestamp;
pub use super::tlv::vh_common_tlv as tlv;
