//! Safe-Rust verification hooks for this module (accessors/wrappers only; no logic).
#![allow(unused_imports, dead_code)]
use super::*;

// ---------------------------------------------------------------- C04 (np_algo_h)
/// Thin wrapper around the private `vote_leap`.
pub fn vote_leap_hook(selection: &super::super::verif_hooks::SnapVecH) -> Option<NtpLeapIndicator> {
    vote_leap(&selection.0)
}
/// Thin wrapper around `combine`: returns (used source ids, leap vote) of the combination.
pub fn combine_sources_leap(
    selection: &super::super::verif_hooks::SnapVecH,
    algo_config: &AlgorithmConfig,
) -> Option<(Vec<u64>, Option<NtpLeapIndicator>)> {
    combine(&selection.0, algo_config).map(|c| (c.sources.iter().map(|id| id.0).collect(), c.leap_indicator))
}

// ---------------------------------------------------------------- update_clock control-logic harnesses (lead)
/// Ghost parameters of the `combine` model (safe Rust: atomics). The harness sets them up front.
pub static MODEL_SOME: std::sync::atomic::AtomicBool = std::sync::atomic::AtomicBool::new(false);
pub static MODEL_OFFSET: std::sync::atomic::AtomicU64 = std::sync::atomic::AtomicU64::new(0);
pub static MODEL_FREQ: std::sync::atomic::AtomicU64 = std::sync::atomic::AtomicU64::new(0);
pub static MODEL_VAR_OFFSET: std::sync::atomic::AtomicU64 = std::sync::atomic::AtomicU64::new(0);
pub static MODEL_VAR_FREQ: std::sync::atomic::AtomicU64 = std::sync::atomic::AtomicU64::new(0);
/// 0 NoWarning, 1 Leap61, 2 Leap59, 3 Unknown, anything else: no majority (None)
pub static MODEL_LEAP: std::sync::atomic::AtomicU8 = std::sync::atomic::AtomicU8::new(255);
pub static MODEL_CALLS: std::sync::atomic::AtomicU8 = std::sync::atomic::AtomicU8::new(0);

/// Environment model of `combine` (used as a `#[kani::stub]` replacement): ignores its inputs and
/// returns an arbitrary (ghost-chosen) combination with one used source, or `None`.
pub fn combine_model(_selection: &[SourceSnapshot], _algo_config: &AlgorithmConfig) -> Option<Combine> {
    use std::sync::atomic::Ordering::Relaxed;
    MODEL_CALLS.fetch_add(1, Relaxed);
    if !MODEL_SOME.load(Relaxed) {
        return None;
    }
    let leap = match MODEL_LEAP.load(Relaxed) {
        0 => Some(NtpLeapIndicator::NoWarning),
        1 => Some(NtpLeapIndicator::Leap61),
        2 => Some(NtpLeapIndicator::Leap59),
        3 => Some(NtpLeapIndicator::Unknown),
        _ => None,
    };
    Some(Combine {
        estimate: KalmanState {
            state: super::super::matrix::Vector::new_vector([
                f64::from_bits(MODEL_OFFSET.load(Relaxed)),
                f64::from_bits(MODEL_FREQ.load(Relaxed)),
            ]),
            uncertainty: super::super::matrix::Matrix::new([
                [f64::from_bits(MODEL_VAR_OFFSET.load(Relaxed)), 0.0],
                [0.0, f64::from_bits(MODEL_VAR_FREQ.load(Relaxed))],
            ]),
            time: crate::NtpTimestamp::default(),
        },
        sources: vec![ClockId(77)],
        delay: NtpDuration::ZERO,
        leap_indicator: leap,
    })
}
