//! Safe-Rust verification hooks for this module (accessors/wrappers only; no logic).
#![allow(missing_docs, unused_imports, dead_code)]
use super::*;
