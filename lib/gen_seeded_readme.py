#!/usr/bin/env python3
"""Write /verif/seeded/README.md from seeded/*/meta.json, confirm.json and seeded/results.json."""
import glob, json, os
res = json.load(open("/verif/seeded/results.json")) if os.path.exists("/verif/seeded/results.json") else {}
rows = []
for d in sorted(glob.glob("/verif/seeded/C*_*")):
    mid = os.path.basename(d)
    meta = json.load(open(d + "/meta.json"))
    conf = json.load(open(d + "/confirm.json")) if os.path.exists(d + "/confirm.json") else {}
    r = res.get(mid, {})
    rows.append((mid, meta, conf, r))
out = ["# Seeded changes\n",
       "Each change was written by a sub-agent that saw only the property text and a scratch worktree, then confirmed by",
       "`lib/confirm_seeded.py` in a separate scratch worktree (demonstration passes without the change, fails with it; the",
       "touched crate's existing tests still pass). `check result` is the exit code of the listed check against the change",
       "(1 = VIOLATION reported after native replay, 2 = detected by the solver but not reported as a violation, 0 = missed).\n",
       "| id | property | change | needs | confirmed | check result | caught by / remark |", "|---|---|---|---|---|---|---|"]
for mid, meta, conf, r in rows:
    out.append("| %s | %s | %s | %s | %s | %s | %s |" % (
        mid, mid.split("_")[0], meta.get("summary", "").replace("|", "\\|")[:300], meta.get("needs", "").replace("|", "\\|")[:300],
        "yes" if conf.get("confirmed") else ("no: " + conf.get("error", "see confirm.json")[:80] if conf else "pending"),
        r.get("result", "pending"), r.get("remark", "").replace("|", "\\|")))
open("/verif/seeded/README.md", "w").write("\n".join(out) + "\n")
print("rows:", len(rows))
