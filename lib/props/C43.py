ST = "statime_h"
PROP = dict(
    functions=[
        "statime_algo::KalmanController::<NoAllocKalmanStorage<RecClock,16>,RecClock>::{new,add_clock,clock_offset,clock_frequency}",
        "statime_algo::KalmanControllerState::steer_clocks (private, via hook wrapper)",
        "statime_algo::filter::LinkFilter::{progress_time,leap_vote,local_root_delay,find_external_consensus_window,clock_offset,clock_frequency,absorb_frequency_steer,absorb_offset_change,absorb_system_clock_offset_change}",
        "statime_algo::estimator::EstimatorState::{clock_offset,clock_frequency,absorb_*,progress_time(dt=0)}, statime_base::Duration::{from_f64_seconds,as_seconds}",
    ],
    bounds="c43_query: one clock, offset and frequency estimates arbitrary f64 bit patterns, variances from {4,9}, any clock id for the unknown-clock case; "
           "c43_steer: system clock + one more steered clock, no links, zero time step; all four estimates finite f64 with |offset| < 4.6e18 s, variances finite >= 0, clock's current frequency finite, maximum frequency finite >= 0 (all symbolic)",
    outside="steering after a measurement/time progression (matrix arithmetic on symbolic f64), links present (leap vote / root delay selection), clocks returning errors, NaN/infinite estimates (a NaN estimate makes clamp() return NaN: not a reachable state from finite inputs), "
            "|offset| >= 2^62 s (Duration saturates while the non-system-clock filter entry absorbs the unsaturated value); the control law itself (which frequency is wanted) is not part of the property",
    assumptions=[
        "c43_query asserts the frequency query only when offset and frequency estimates coincide (value and variance); the complement is the finding harness c43_query_kf_frequency_is_offset",
        "Clock contract: max_frequency() finite and >= 0, get_frequency() finite; set_frequency/step_clock succeed",
        "pre-state estimates finite, |offset| < 4.6e18 s, variances >= 0",
    ],
    stub_notes=["no stubs; Clock implemented by the harness (records set_frequency/step_clock arguments in ghost statics)"],
    harnesses=[
        H(ST, "c43", "c43_query", "clock_offset reports offset estimate + standard deviation; unknown clock -> Err; clock_frequency correct where offset==frequency"),
        H(ST, "c43", "c43_steer", "every set_frequency(x) has |x| <= max of that clock; frequency estimate changes by exactly fl(x - current); a step changes the offset estimate by the applied Duration (<= 2^-64 s + one rounding), system clock step moves filter time; other entries bit-identical", timeout=600),
        H(ST, "c43", "c43_query_kf_frequency_is_offset", "FINDING (expected to fail until fixed): KalmanController::clock_frequency returns the offset estimate"),
    ],
)
