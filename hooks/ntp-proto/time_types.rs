//! Safe-Rust accessors for private fields of time_types. No logic.
use super::*;

pub fn ts_from_raw(v: u64) -> NtpTimestamp {
    NtpTimestamp { timestamp: v }
}
pub fn ts_raw(t: NtpTimestamp) -> u64 {
    t.timestamp
}
pub fn dur_from_raw(v: i64) -> NtpDuration {
    NtpDuration { duration: v }
}
pub fn dur_raw(d: NtpDuration) -> i64 {
    d.duration
}
pub fn dur_from_bits_short(b: [u8; 4]) -> NtpDuration {
    NtpDuration::from_bits_short(b)
}
pub fn dur_to_bits_short(d: NtpDuration) -> [u8; 4] {
    d.to_bits_short()
}
pub fn dur_from_bits_time32(b: [u8; 4]) -> NtpDuration {
    NtpDuration::from_bits_time32(b)
}
pub fn dur_to_bits_time32(d: NtpDuration) -> [u8; 4] {
    d.to_bits_time32()
}
pub fn ts_from_bits(b: [u8; 8]) -> NtpTimestamp {
    NtpTimestamp::from_bits(b)
}
pub fn ts_to_bits(t: NtpTimestamp) -> [u8; 8] {
    t.to_bits()
}
pub fn dur_from_bits(b: [u8; 8]) -> NtpDuration {
    NtpDuration::from_bits(b)
}
pub fn poll_from_raw(v: i8) -> PollInterval {
    PollInterval(v)
}
pub fn poll_raw(p: PollInterval) -> i8 {
    p.0
}
pub fn freq_tolerance_ppm(f: FrequencyTolerance) -> u32 {
    f.ppm
}
