//! Safe-Rust verification hooks for this module (accessors/wrappers only; no logic).
#![allow(unused_imports, dead_code)]
use super::*;
pub use super::crypto::verif_hooks as crypto;
pub use super::extension_fields::verif_hooks as extension_fields;
pub use super::mac::verif_hooks as mac;
pub use super::v5::verif_hooks as v5;

pub fn request_identifier(t: NtpTimestamp, uid: Option<[u8; 32]>) -> RequestIdentifier {
    RequestIdentifier { expected_origin_timestamp: t, uid }
}
pub fn request_identifier_parts(id: RequestIdentifier) -> (NtpTimestamp, Option<[u8; 32]>) {
    (id.expected_origin_timestamp, id.uid)
}

// ---- C23/C24/C25 (np_packet_h): raw constructor / field getters for NtpPacket.
pub use super::{ExtensionField as Ef, NtpHeader as Header};
pub fn packet_from_parts<'a>(
    header: NtpHeader,
    authenticated: Vec<ExtensionField<'a>>,
    encrypted: Vec<ExtensionField<'a>>,
    untrusted: Vec<ExtensionField<'a>>,
) -> NtpPacket<'a> {
    NtpPacket { header, efdata: ExtensionFieldData { authenticated, encrypted, untrusted }, mac: None }
}
pub fn packet_authenticated<'a, 'b>(p: &'b NtpPacket<'a>) -> &'b [ExtensionField<'a>] {
    &p.efdata.authenticated
}
pub fn packet_encrypted<'a, 'b>(p: &'b NtpPacket<'a>) -> &'b [ExtensionField<'a>] {
    &p.efdata.encrypted
}
pub fn packet_untrusted<'a, 'b>(p: &'b NtpPacket<'a>) -> &'b [ExtensionField<'a>] {
    &p.efdata.untrusted
}
pub fn packet_mac_parts<'a, 'b>(p: &'b NtpPacket<'a>) -> Option<(u32, &'b [u8])> {
    p.mac.as_ref().map(super::mac::verif_hooks::mac_parts)
}

// ---- C05 (np_algo_h): a V3/V4 packet from raw header fields (no extension fields, no MAC).
#[allow(clippy::too_many_arguments)]
pub fn packet_v3v4_from_raw(
    v3: bool,
    leap: NtpLeapIndicator,
    mode: NtpAssociationMode,
    stratum: u8,
    poll: PollInterval,
    precision: i8,
    root_delay: NtpDuration,
    root_dispersion: NtpDuration,
    reference_id: ReferenceId,
    reference_timestamp: NtpTimestamp,
    origin_timestamp: NtpTimestamp,
    receive_timestamp: NtpTimestamp,
    transmit_timestamp: NtpTimestamp,
) -> NtpPacket<'static> {
    let header = NtpHeaderV3V4 {
        leap,
        mode,
        stratum,
        poll,
        precision,
        root_delay,
        root_dispersion,
        reference_id,
        reference_timestamp,
        origin_timestamp,
        receive_timestamp,
        transmit_timestamp,
    };
    NtpPacket {
        header: if v3 { NtpHeader::V3(header) } else { NtpHeader::V4(header) },
        efdata: ExtensionFieldData::default(),
        mac: None,
    }
}

// ---- C13/C14 (np_nts_h): name the request identifier type from outside the private module.
pub use super::RequestIdentifier as RequestId;
