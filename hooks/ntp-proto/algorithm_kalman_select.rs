//! Safe-Rust verification hooks for this module (accessors/wrappers only; no logic).
#![allow(unused_imports, dead_code)]
use super::*;

// ---------------------------------------------------------------- C03 (np_algo_h)
/// Thin wrapper around the private `select`.
pub fn select_hook(
    synchronization_config: &SynchronizationConfig,
    algo_config: &AlgorithmConfig,
    candidates: &super::super::verif_hooks::SnapVecH,
) -> super::super::verif_hooks::SnapVecH {
    super::super::verif_hooks::SnapVecH(select(synchronization_config, algo_config, &candidates.0))
}

/// Environment model of `select` (used as a `#[kani::stub]` replacement): empty selection; the
/// `combine` model ignores it.
pub fn select_model(
    _synchronization_config: &SynchronizationConfig,
    _algo_config: &AlgorithmConfig,
    _candidates: &[SourceSnapshot],
) -> Vec<SourceSnapshot> {
    Vec::new()
}
