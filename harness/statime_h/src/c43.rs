//! C43 The PTP clock controller reports and steers consistently.
//!
//! Concrete instantiation: `KalmanController<NoAllocKalmanStorage<RecClock, 16>, RecClock>` where `RecClock`
//! records every `set_frequency` / `step_clock` call in ghost statics and returns symbolic
//! `get_frequency` / `max_frequency` values.
use crate::c42::filter_config;
use statime_algo::verif::controller as ch;
use statime_algo::verif::estimator as eh;
use statime_algo::verif::filter as fh;
use statime_algo::{KalmanController, NoAllocKalmanStorage};
use statime_base::verif::identifiers as ih;
use statime_base::verif::time_types as th;
use statime_base::{Clock, ClockError, ClockId, Duration, LeapStatus, TAI, Timestamp};

// ------------------------------------------------------------------ recording clock
static mut NOW: u128 = 0;
static mut CUR_FREQ: [f64; 2] = [0.0; 2];
static mut MAX_FREQ: [f64; 2] = [1e-4; 2];
static mut SET_CALLS: [u8; 2] = [0; 2];
static mut SET_VAL: [f64; 2] = [0.0; 2];
static mut STEP_CALLS: [u8; 2] = [0; 2];
static mut STEP_VAL: [i128; 2] = [0; 2];

#[derive(Clone)]
struct RecClock(usize);
impl Clock for RecClock {
    fn now(&self) -> Result<Timestamp<TAI>, ClockError> {
        Ok(th::ts_from_raw(unsafe { NOW }))
    }
    fn set_frequency(&self, freq: f64) -> Result<Timestamp<TAI>, ClockError> {
        unsafe {
            SET_CALLS[self.0] += 1;
            SET_VAL[self.0] = freq;
        }
        self.now()
    }
    fn get_frequency(&self) -> Result<f64, ClockError> {
        Ok(unsafe { CUR_FREQ[self.0] })
    }
    fn max_frequency(&self) -> Result<f64, ClockError> {
        Ok(unsafe { MAX_FREQ[self.0] })
    }
    fn step_clock(&self, offset: Duration) -> Result<Timestamp<TAI>, ClockError> {
        unsafe {
            STEP_CALLS[self.0] += 1;
            STEP_VAL[self.0] = th::dur_raw(offset);
        }
        self.now()
    }
    fn error_estimate_update(&self, _e: Duration, _m: Duration) -> Result<(), ClockError> {
        Ok(())
    }
    fn leap_update(&self, _l: LeapStatus) -> Result<(), ClockError> {
        Ok(())
    }
    fn synchronization_update(&self, _s: bool) -> Result<(), ClockError> {
        Ok(())
    }
}
type CtlN<const N: usize> = KalmanController<NoAllocKalmanStorage<RecClock, N>, RecClock>;
type Ctl = CtlN<4>; // one clock: 2 rows

// ------------------------------------------------------------------ queries
/// Offset and frequency estimates are independent symbolic bit patterns, variances from {4, 9}.
fn query() {
    let off: f64 = kani::any();
    let frq: f64 = kani::any();
    let var_off_sel: bool = kani::any();
    let var_frq_sel: bool = kani::any();
    let unknown_raw: usize = kani::any();
    let (var_off, unc_off) = if var_off_sel { (4.0, 2.0) } else { (9.0, 3.0) };
    let (var_frq, unc_frq) = if var_frq_sel { (4.0, 2.0) } else { (9.0, 3.0) };

    let (ctl, sys) = Ctl::new(RecClock(0), 1e-8, filter_config()).unwrap();
    ch::with_filter(&ctl, |f| {
        let e = fh::filter_estimator_mut(f);
        assert!(eh::est_clock_row(e, sys) == Some(0) && eh::est_clock_freq_row(e, sys) == Some(1), "one clock: offset row 0, frequency row 1");
        eh::est_state_set(e, 0, off);
        eh::est_state_set(e, 1, frq);
        eh::est_cov_set(e, 0, 0, var_off);
        eh::est_cov_set(e, 1, 1, var_frq);
    });

    let qo = ctl.clock_offset(sys);
    assert!(
        matches!(qo, Ok(v) if v.value.to_bits() == off.to_bits() && v.uncertainty == unc_off),
        "offset query reports the offset estimate and its standard deviation"
    );
    let qf = ctl.clock_frequency(sys);
    assert!(matches!(qf, Ok(v) if v.value.to_bits() == frq.to_bits()), "frequency query reports the frequency estimate");
    assert!(matches!(qf, Ok(v) if v.uncertainty == unc_frq), "frequency query reports the frequency standard deviation");
    let unknown = ih::clock_id_from_raw(unknown_raw);
    if unknown != sys {
        assert!(ctl.clock_offset(unknown).is_err() && ctl.clock_frequency(unknown).is_err(), "queries for an unknown clock fail");
    }
    kani::cover!(off > 1.0 && frq < 0.0, "distinct estimates");
}

#[kani::proof]
#[kani::unwind(6)]
fn c43_query() {
    query();
}

/// Regression harness for the defect fixed in 7d1f9fc (`KalmanController::clock_frequency` called
/// `filter.clock_offset`): with offset and frequency estimates that differ in value or variance the
/// frequency query returns the frequency entry and its standard deviation. Minimal variant of
/// `query` (fails on the pre-fix tree, counterexample replays natively).
#[kani::proof]
#[kani::unwind(6)]
fn c43_query_distinct() {
    let off: f64 = kani::any();
    let frq: f64 = kani::any();
    let same_var: bool = kani::any();
    // readable counterexamples: ordinary finite numbers
    kani::assume(off.is_finite() && frq.is_finite());
    kani::assume(off != frq || !same_var);
    let (ctl, sys) = Ctl::new(RecClock(0), 1e-8, filter_config()).unwrap();
    ch::with_filter(&ctl, |f| {
        let e = fh::filter_estimator_mut(f);
        eh::est_state_set(e, 0, off);
        eh::est_state_set(e, 1, frq);
        eh::est_cov_set(e, 0, 0, 4.0);
        eh::est_cov_set(e, 1, 1, if same_var { 4.0 } else { 9.0 });
    });
    let qf = ctl.clock_frequency(sys);
    assert!(matches!(qf, Ok(v) if v.value == frq), "frequency query reports the frequency estimate");
    assert!(matches!(qf, Ok(v) if v.uncertainty == if same_var { 2.0 } else { 3.0 }), "frequency query reports the frequency standard deviation");
    kani::cover!(!same_var && off > 1.0 && frq < 0.0, "distinct value and variance");
}

// ------------------------------------------------------------------ steering
const TWO_M64: f64 = 1.0 / 18446744073709551616.0;
const TWO_64: f64 = 18446744073709551616.0;

fn finite(x: f64) -> bool {
    x.is_finite()
}

/// Two steered clocks (system clock = index 0 and one more), no links, zero time step.
/// Pre-state: finite estimates, |offset| < 2^62 s, variances 1e-6 s^2; clock contract: finite current
/// frequency, finite maximum >= 0.
fn steer<const N: usize>(two: bool) {
    let st: [f64; 4] = kani::any(); // off0 frq0 off1 frq1
    // concrete variances (standard deviation 1 ms): the steering code takes sqrt(variance), and a
    // symbolic square root per clock did not finish in 20 minutes
    let var: [f64; 4] = [1e-6; 4];
    let cur: [f64; 2] = kani::any();
    let max: [f64; 2] = kani::any();
    let mut i = 0;
    while i < 4 {
        kani::assume(finite(st[i]) && finite(var[i]) && var[i] >= 0.0);
        i += 1;
    }
    kani::assume(st[0].abs() < 4.6e18 && st[2].abs() < 4.6e18);
    kani::assume(finite(cur[0]) && finite(cur[1]) && finite(max[0]) && finite(max[1]) && max[0] >= 0.0 && max[1] >= 0.0);

    let (ctl, sys) = CtlN::<N>::new(RecClock(0), 1e-8, filter_config()).unwrap();
    let nrows = if two { 4 } else { 2 };
    if two {
        let second = ctl.add_clock(RecClock(1), 1e-8).unwrap();
        ch::with_filter(&ctl, |f| assert!(eh::est_clock_row(fh::filter_estimator(f), second) == Some(2), "construction order"));
    }
    ch::with_filter(&ctl, |f| {
        let e = fh::filter_estimator_mut(f);
        assert!(eh::est_clock_row(e, sys) == Some(0), "construction order");
        let mut r = 0;
        while r < nrows {
            eh::est_state_set(e, r, st[r]);
            eh::est_cov_set(e, r, r, var[r]);
            r += 1;
        }
    });
    unsafe {
        CUR_FREQ = cur;
        MAX_FREQ = max;
        SET_CALLS = [0; 2];
        STEP_CALLS = [0; 2];
    }

    let res = ch::steer_clocks(&ctl);
    assert!(res.is_ok(), "steering succeeds when the clocks do");

    let mut after = [0.0f64; 4];
    let mut t_after = 0u128;
    ch::with_filter(&ctl, |f| {
        let e = fh::filter_estimator(f);
        let mut r = 0;
        while r < nrows {
            after[r] = eh::est_state_get(e, r);
            r += 1;
        }
        t_after = th::ts_raw(eh::est_time(e));
    });

    let mut c = 0;
    while c < nrows / 2 {
        let (sets, steps, x, d) = unsafe { (SET_CALLS[c], STEP_CALLS[c], SET_VAL[c], STEP_VAL[c]) };
        assert!(sets + steps == 1, "each clock is either slewed or stepped, once");
        let (o, f) = (2 * c, 2 * c + 1);
        if sets == 1 {
            assert!(x >= -max[c] && x <= max[c], "frequency set on a clock lies within that clock's maximum");
            let applied = x - cur[c];
            assert!(after[f].to_bits() == (st[f] + applied).to_bits(), "frequency estimate changes by the applied frequency change");
            assert!(after[o].to_bits() == st[o].to_bits(), "offset estimate untouched by a frequency change");
        } else {
            // the step handed to the clock, as seconds (exact: at most 53 significant bits survive from_f64_seconds)
            let applied = (d as f64) / TWO_64;
            let want = st[o] + applied;
            assert!((after[o] - want).abs() <= TWO_M64, "offset estimate changes by the applied step (one duration unit + one rounding)");
            assert!(after[f].to_bits() == st[f].to_bits(), "frequency estimate untouched by a step");
            if c == 0 {
                assert!(t_after == (d as u128), "stepping the system clock moves the filter time by the step");
            }
        }
        c += 1;
    }
    let (s0, s1) = unsafe { (SET_CALLS[0], SET_CALLS[1]) };
    if s0 == 0 {
        // only the system clock step moves the filter time
    } else {
        assert!(t_after == 0, "filter time unchanged without a system clock step");
    }
    kani::cover!(s0 == 1 && unsafe { SET_VAL[0] } == max[0] && max[0] > 0.0 && (!two || s1 == 0), "system clock slew clamped at +max (second clock stepped)");
}

/// System clock only (2 state rows).
#[kani::proof]
#[kani::unwind(6)]
fn c43_steer() {
    steer::<4>(false);
}

/// System clock + a second steered clock (4 state rows).
#[kani::proof]
#[kani::unwind(18)]
fn c43_steer_2() {
    steer::<16>(true);
}
