"""Registry: which harnesses decide which property, with bounds and trusted base."""

PROPS = {}


def H(crate, module, name, what, tier="quick", timeout=300, timeout_thorough=None, bounds="", **kw):
    d = dict(crate=crate, module=module, name=name, what=what, tier=tier, timeout=timeout,
             timeout_thorough=timeout_thorough or max(timeout, 1800), bounds=bounds)
    d.update(kw)
    return d


NP = "ntp_proto_h"

PROPS["C32"] = dict(
    functions=["ntp_proto::time_types::{NtpTimestamp,NtpDuration} operator impls"],
    bounds="full 64-bit ranges",
    outside="",
    assumptions=[],
    harnesses=[
        H(NP, "c32", "c32_ts_sub_add", "timestamp difference is the shortest signed difference and adds back"),
        H(NP, "c32", "c32_dur_neg_abs", "negation/abs saturate"),
    ],
)

NOT_APPLICABLE = {
    "C06": "per-measurement Kalman update multiplies/divides/inverts symbolic f64 (2x2 inverse, exp, sqrt) over histories with feedback; bit-blasting one update is out of reach and no inductive finite invariant is available without real-number reasoning",
    "C28": "negotiation logic sits inside exchange_keys/handle_connection behind a real TLS 1.3 handshake (rustls + aws-lc FFI); no seam to enter symbolically",
    "C29": "token/keep-alive logic sits inside the TLS connection handler (rustls, tokio semaphores); not encodable",
    "C35": "PoolSpawner::try_spawn awaits DNS and tokio mpsc send (single send measured at 26 GB / 20 min in CBMC)",
    "C36": "pacing loop is tokio::time + channel receive under a runtime; Kani has no runtime/time driver and no concurrency",
    "C37": "property is about interleavings of tasks through tokio channels and select!; Kani does not handle concurrency and tokio's coop TLS ICEs the compiler",
}
