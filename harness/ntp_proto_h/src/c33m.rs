//! C33 (manager level): the server id the daemon advertises in its Bloom filter is the id its
//! sources test remote Bloom filters against (otherwise Bloom-filter loop detection is void).
use crate::stubs;
use ntp_proto::verif::packet::v5::server_reference_id as sh;
use ntp_proto::verif::system as yh;
use ntp_proto::*;
use std::net::IpAddr;
use std::sync::Arc;

/// Model of `ServerId::default()` (random id; the real one sorts random draws in a retry loop):
/// every call returns a *different* valid id, as independent random draws do (up to 2^-100).
pub static mut FRESH_IDS: u16 = 0;
pub fn fresh_server_id() -> ntp_proto::v5::ServerId {
    unsafe {
        let k = FRESH_IDS;
        FRESH_IDS += 1;
        let base = 100 * k + 1;
        sh::server_id_from_raw([base, base + 1, base + 2, base + 3, base + 4, base + 5, base + 6, base + 7, base + 8, base + 9])
    }
}

harness! {
    #[kani::unwind(12)]
    #[kani::stub(<ntp_proto::v5::ServerId as std::default::Default>::default, crate::c33m::fresh_server_id)]
    fn c33_manager_ids() {
        let local_stratum: u8 = kani::any();
        let cfg = SynchronizationConfig { local_stratum, ..SynchronizationConfig::default() };
        let m = NtpManager::new(cfg, Arc::from(Vec::<IpAddr>::new()));
        let adv = sh::server_id_raw(&yh::manager_server_id(&m));
        let chk = sh::server_id_raw(&yh::manager_source_info_server_id(&m));
        let mut i = 0;
        while i < 10 {
            assert!(adv[i] == chk[i], "sources check Bloom filters against the id the daemon advertises");
            i += 1;
        }
        assert!(yh::manager_source_info_local_stratum(&m) == local_stratum, "sources compare against the configured local stratum");
        // what is advertised contains the advertised id
        let snap = m.update_used_sources(std::iter::empty());
        assert!(snap.bloom_filter.contains_id(&yh::manager_server_id(&m)), "the advertised Bloom filter contains the daemon's id");
        assert!(snap.stratum == local_stratum, "no sources: local stratum advertised");
        kani::cover!(adv[0] != adv[9], "non-degenerate id");
    }
}
