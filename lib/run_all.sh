#!/bin/bash
# Run every registered check once (tier from $1, default quick) on the current tree; summary in /verif/.cache/run_all.<tier>.log
tier=${1:-quick}
cd /verif
out=/verif/.cache/run_all.$tier.log
: > $out
for id in $(python3 -c "import sys; sys.path.insert(0,'lib'); import registry; print(' '.join(sorted(registry.PROPS)))"); do
  s=$(date +%s)
  ./check $id --tier $tier > /verif/.cache/run_all.$id.$tier.txt 2>&1
  rc=$?
  echo "$id rc=$rc $(( $(date +%s) - s ))s" | tee -a $out
done
