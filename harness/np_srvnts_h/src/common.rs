//! Shared helpers for the C17/C18/C19 harnesses (NTP server answers).
//!
//! * `FixedClock`, `RecStats`, `Env`: the server's environment (clock reading, synchronisation
//!   state, policy) with every value drawn up front.
//! * byte-level readers and *independent* oracles for response datagrams (written from the
//!   property text / wire format, they never call the repo decoder).
//! * `ModelCipher`: ideal AEAD (DESIGN 2.6) and the `KeySet` cookie models used through
//!   `#[kani::stub]` (`model_decode_cookie`, `model_encode_cookie`).
use ntp_proto::verif::keyset as kh;
use ntp_proto::verif::packet::crypto::DecryptError;
use ntp_proto::verif::packet::v5::server_reference_id as bh;
use ntp_proto::verif::time_types as th;
use ntp_proto::*;
use std::net::{IpAddr, Ipv4Addr};
use std::sync::{Arc, RwLock};

// ------------------------------------------------------------------------------------------
// environment

#[derive(Clone)]
pub struct FixedClock {
    pub now: NtpTimestamp,
}

impl NtpClock for FixedClock {
    type Error = std::io::Error;
    fn now(&self) -> Result<NtpTimestamp, Self::Error> {
        Ok(self.now)
    }
    fn set_frequency(&self, _freq: f64) -> Result<NtpTimestamp, Self::Error> {
        panic!("server must not steer the clock")
    }
    fn get_frequency(&self) -> Result<f64, Self::Error> {
        Ok(0.0)
    }
    fn step_clock(&self, _offset: NtpDuration) -> Result<NtpTimestamp, Self::Error> {
        panic!("server must not steer the clock")
    }
    fn disable_ntp_algorithm(&self) -> Result<(), Self::Error> {
        panic!("server must not steer the clock")
    }
    fn error_estimate_update(&self, _e: NtpDuration, _m: NtpDuration) -> Result<(), Self::Error> {
        panic!("server must not steer the clock")
    }
    fn status_update(&self, _l: NtpLeapIndicator) -> Result<(), Self::Error> {
        panic!("server must not steer the clock")
    }
}

#[derive(Default)]
pub struct RecStats {
    pub calls: u8,
    pub version: u8,
    pub nts: bool,
    pub reason: Option<ServerReason>,
    pub response: Option<ServerResponse>,
}

impl ServerStatHandler for RecStats {
    fn register(&mut self, version: u8, nts: bool, reason: ServerReason, response: ServerResponse) {
        self.calls += 1;
        self.version = version;
        self.nts = nts;
        self.reason = Some(reason);
        self.response = Some(response);
    }
}

/// What the server knows and is configured with; everything that ends up in an answer.
#[derive(Clone, Copy)]
pub struct Env {
    /// client is outside the allow list (action = deny)
    pub deny_client: bool,
    /// 0 = NTS not required, 1 = non-NTS requests are denied, 2 = non-NTS requests are ignored
    pub require_nts: u8,
    pub recv_raw: u64,
    pub now_raw: u64,
    pub stratum: u8,
    /// 0 NoWarning, 1 Leap61, 2 Leap59, 3 Unknown, 4 Unsynchronized
    pub leap_code: u8,
    pub refid: [u8; 4],
    pub precision_raw: i64,
    pub root_delay_raw: i64,
    /// what `TimeSnapshot::root_dispersion` returns (model, see `root_dispersion_stub`)
    pub root_disp_raw: i64,
}

#[cfg(kani)]
impl Env {
    /// Arbitrary environment. Assumptions (server-state invariants, not request properties):
    /// precision, root delay and root dispersion are non-negative and the latter two fit the
    /// 16.16 wire format (`to_bits_short` asserts the first and debug-asserts the second; C22's
    /// concern).
    pub fn any() -> Env {
        let e = Env {
            deny_client: false,
            require_nts: 0,
            recv_raw: kani::any(),
            now_raw: kani::any(),
            stratum: kani::any(),
            leap_code: kani::any(),
            refid: kani::any(),
            precision_raw: kani::any(),
            root_delay_raw: kani::any(),
            root_disp_raw: kani::any(),
        };
        kani::assume(e.leap_code <= 4);
        kani::assume(e.precision_raw >= 0);
        kani::assume(e.root_delay_raw >= 0 && e.root_delay_raw <= 0x0000_FFFF_FFFF_FFFF);
        kani::assume(e.root_disp_raw >= 0 && e.root_disp_raw <= 0x0000_FFFF_FFFF_FFFF);
        e
    }
}

/// Policy outcome of a run: constant per run (see c18.rs header for why).
#[derive(Clone, Copy, PartialEq, Eq)]
pub enum Policy {
    /// client allowed, NTS not required
    Serve,
    /// client outside the allow list (action deny)
    DenyAddress,
    /// NTS required, non-NTS requests are denied
    DenyNonNts,
    /// NTS required, non-NTS requests are ignored
    IgnoreNonNts,
}

impl Env {
    pub fn with(&self, p: Policy) -> Env {
        let mut e = *self;
        e.deny_client = p == Policy::DenyAddress;
        e.require_nts = match p {
            Policy::DenyNonNts => 1,
            Policy::IgnoreNonNts => 2,
            _ => 0,
        };
        e
    }
    pub fn leap(&self) -> NtpLeapIndicator {
        match self.leap_code {
            0 => NtpLeapIndicator::NoWarning,
            1 => NtpLeapIndicator::Leap61,
            2 => NtpLeapIndicator::Leap59,
            3 => NtpLeapIndicator::Unknown,
            _ => NtpLeapIndicator::Unsynchronized,
        }
    }
    /// wire value of the leap indicator (RFC 5905: 3 = unknown/unsynchronised)
    pub fn leap_bits(&self) -> u8 {
        if self.leap_code >= 3 { 3 } else { self.leap_code }
    }
    pub fn client_ip(&self) -> IpAddr {
        if self.deny_client {
            IpAddr::V4(Ipv4Addr::new(10, 1, 2, 3))
        } else {
            IpAddr::V4(Ipv4Addr::new(192, 0, 2, 7))
        }
    }
    pub fn server_info(&self, bloom: v5::BloomFilter) -> NtpServerInfo {
        NtpServerInfo {
            ntp_snapshot: NtpSnapshot {
                stratum: self.stratum,
                reference_id: ReferenceId::from_ip(IpAddr::V4(Ipv4Addr::new(
                    self.refid[0],
                    self.refid[1],
                    self.refid[2],
                    self.refid[3],
                ))),
                bloom_filter: bloom,
            },
            time_snapshot: TimeSnapshot {
                precision: th::dur_from_raw(self.precision_raw),
                root_delay: th::dur_from_raw(self.root_delay_raw),
                // not used: `root_dispersion` is replaced by `root_dispersion_stub`
                root_variance_base_time: th::ts_from_raw(0),
                root_variance_base: 0.0,
                root_variance_linear: 0.0,
                root_variance_quadratic: 0.0,
                root_variance_cubic: 0.0,
                leap_indicator: self.leap(),
                accumulated_steps: th::dur_from_raw(0),
                accumulated_steps_threshold: None,
            },
        }
    }
    pub fn config(&self) -> ServerConfig {
        ServerConfig {
            // deny list empty; allow list = 128.0.0.0/1 with action DENY: the client address is
            // either inside (192.0.2.7) or outside (10.1.2.3).
            denylist: FilterList { filter: vec![], action: FilterAction::Ignore },
            allowlist: FilterList {
                filter: vec![IpSubnet { addr: IpAddr::V4(Ipv4Addr::new(128, 0, 0, 0)), mask: 1 }],
                action: FilterAction::Deny,
            },
            rate_limiting_cache_size: 0,
            rate_limiting_cutoff: std::time::Duration::from_secs(1),
            require_nts: match self.require_nts {
                0 => None,
                1 => Some(FilterAction::Deny),
                _ => Some(FilterAction::Ignore),
            },
            // order matters for cost only: `contains` stops at the match, and the unwind bound of the
            // v4 templates is minimal
            accepted_versions: vec![NtpVersion::V4, NtpVersion::V3, NtpVersion::V5],
        }
    }
    /// The server under test. The address filters are supplied ready-made (hook
    /// `server_from_parts`): deny list = nobody, allow list = 128.0.0.0/1 and 8000::/1, exactly
    /// what `config()` describes; `IpFilter::new` itself is C31's subject (executing it
    /// symbolically costs > 10 GB even for one-entry lists).
    pub fn server(&self, bloom: v5::BloomFilter, keyset: Arc<KeySet>) -> Server<FixedClock> {
        unsafe {
            DISPERSION = self.root_disp_raw;
        }
        ntp_proto::verif::server::server_from_parts(
            self.config(),
            FixedClock { now: th::ts_from_raw(self.now_raw) },
            ntp_proto::verif::ipfilter::filter_from_top_nibbles(0, 0),
            ntp_proto::verif::ipfilter::filter_from_top_nibbles(0xFF00, 0xFF00),
            Arc::new(RwLock::new(self.server_info(bloom))),
            keyset,
        )
    }
    pub fn recv(&self) -> NtpTimestamp {
        th::ts_from_raw(self.recv_raw)
    }
}

/// Model of `TimeSnapshot::root_dispersion` (sqrt of a cubic polynomial in f64; `powi` is
/// nondeterministic in CBMC, so the real function "returns NaN" there): an arbitrary non-negative
/// duration chosen by the harness (`Env::root_disp_raw`). Over-approximates every value the real
/// function returns in the release profile; same model as np_server_h.
pub static mut DISPERSION: i64 = 0;
pub fn root_dispersion_stub(_s: &TimeSnapshot, _now: NtpTimestamp) -> NtpDuration {
    th::dur_from_raw(unsafe { DISPERSION })
}

/// A key set without keys: every real cookie decode fails; enough for requests without NTS
/// fields and for harnesses that replace cookie decode/encode by the models below.
pub fn empty_keyset() -> Arc<KeySet> {
    Arc::new(kh::keyset_from_parts(Vec::new(), 0, 0))
}

/// Run `Server::handle` once; returns the length of the answer (None = ignored).
pub fn handle_once(
    server: &mut Server<FixedClock>,
    env: &Env,
    msg: &[u8],
    buf: &mut [u8],
    stats: &mut RecStats,
) -> Option<usize> {
    match server.handle(env.client_ip(), env.recv(), msg, buf, stats) {
        ServerAction::Ignore => None,
        ServerAction::Respond { message } => Some(message.len()),
    }
}

// ------------------------------------------------------------------------------------------
// byte-level reading / writing (independent of the repo codec)

pub fn rd16(b: &[u8], o: usize) -> u16 {
    ((b[o] as u16) << 8) | (b[o + 1] as u16)
}
pub fn rd32(b: &[u8], o: usize) -> u32 {
    ((rd16(b, o) as u32) << 16) | (rd16(b, o + 2) as u32)
}
pub fn rd64(b: &[u8], o: usize) -> u64 {
    ((rd32(b, o) as u64) << 32) | (rd32(b, o + 4) as u64)
}
pub fn wr16(b: &mut [u8], o: usize, v: u16) {
    b[o] = (v >> 8) as u8;
    b[o + 1] = v as u8;
}
/// `b[o..o+n] == c[p..p+n]` for n <= 64, loop-free (every loop the solver cannot bound is
/// unrolled `unwind` times, and the unwind bound has to stay minimal: phantom iterations of the
/// serializer's loops dominate the cost)
pub fn same(b: &[u8], o: usize, c: &[u8], p: usize, n: usize) -> bool {
    assert!(n <= 64);
    let mut ok = true;
    macro_rules! w { ($($i:expr),*) => { $( if 8 * $i + 8 <= n { ok &= rd64(b, o + 8 * $i) == rd64(c, p + 8 * $i); } )* } }
    w!(0, 1, 2, 3, 4, 5, 6, 7);
    let t = n & !7;
    macro_rules! t { ($($i:expr),*) => { $( if t + $i < n { ok &= b[o + t + $i] == c[p + t + $i]; } )* } }
    t!(0, 1, 2, 3, 4, 5, 6);
    ok
}
/// `b[o..o+n]` is all zero, n <= 128, loop-free
pub fn all_zero(b: &[u8], o: usize, n: usize) -> bool {
    assert!(n <= 128);
    let mut ok = true;
    macro_rules! w { ($($i:expr),*) => { $( if 8 * $i + 8 <= n { ok &= rd64(b, o + 8 * $i) == 0; } )* } }
    w!(0, 1, 2, 3, 4, 5, 6, 7, 8, 9, 10, 11, 12, 13, 14, 15);
    let t = n & !7;
    macro_rules! t { ($($i:expr),*) => { $( if t + $i < n { ok &= b[o + t + $i] == 0; } )* } }
    t!(0, 1, 2, 3, 4, 5, 6);
    ok
}
/// write an extension-field header (type, total length) at `o`
pub fn put_ef(b: &mut [u8], o: usize, ty: u16, total_len: u16) {
    wr16(b, o, ty);
    wr16(b, o + 2, total_len);
}

/// Spare bytes behind every request / answer buffer handed to the server. A slice that ends
/// exactly at the end of its backing object makes the parser's final `buffer.get(offset..)`
/// a one-past-the-end pointer whose `Option` niche test CBMC does not constant-fold: the
/// extension-field loop then never terminates in symex (measured: 22 s with slack, minutes without).
pub const SLACK: usize = 8;

/// Size of the backing array of every answer buffer: larger than the field-sensitivity bound in
/// Cargo.toml (see there), and 1024 = the "big" buffer of C17.
pub const BUF: usize = 1024;

pub const EF_UID: u16 = 0x0104;
pub const EF_COOKIE: u16 = 0x0204;
pub const EF_PLACEHOLDER: u16 = 0x0304;
pub const EF_ENCRYPTED: u16 = 0x0404;
pub const EF_V5_PADDING: u16 = 0xF501;
pub const EF_V5_REFID_REQ: u16 = 0xF503;
pub const EF_V5_REFID_RESP: u16 = 0xF504;
pub const EF_V5_DRAFT: u16 = 0xF5FF;
pub const DRAFT: &[u8; 23] = b"draft-ietf-ntp-ntpv5-09";
pub const UPGRADE_MAGIC: u64 = u64::from_be_bytes(*b"NTP5DRFT");

#[derive(Clone, Copy, PartialEq, Eq)]
pub enum Kind {
    Time,
    Deny,
    Nak,
}

/// Expected wire value of the precision field: floor(log2(precision in seconds)), i8::MIN for 0.
pub fn expected_precision(raw: i64) -> u8 {
    if raw == 0 {
        0x80
    } else {
        let top = 63 - (raw as u64).leading_zeros() as i32; // highest set bit, unit 2^-32 s
        ((top - 32) as i8) as u8
    }
}

/// Oracle for the 48-byte NTPv3/NTPv4 answer header (property C18), written from RFC 5905's
/// layout: LI/VN/mode, stratum, poll, precision, root delay, root dispersion, reference id,
/// reference/origin/receive/transmit timestamps.
pub fn check_header_v34(resp: &[u8], req: &[u8], kind: Kind, env: &Env) {
    let ver = (req[0] >> 3) & 7;
    assert!(resp[0] & 7 == 4, "answer is in server mode");
    assert!((resp[0] >> 3) & 7 == ver, "answer uses the request's version");
    assert!(rd64(resp, 24) == rd64(req, 40), "origin timestamp echoes the request's transmit timestamp");
    match kind {
        Kind::Time => {
            assert!(resp[0] >> 6 == env.leap_bits(), "leap indicator is the server's");
            assert!(resp[1] == env.stratum, "stratum is the server's");
            assert!(resp[2] == req[2], "poll is echoed");
            assert!(resp[3] == expected_precision(env.precision_raw), "precision is the server's");
            assert!(rd32(resp, 4) == ((env.root_delay_raw >> 16) as u32), "root delay is the server's");
            assert!(rd32(resp, 8) == ((env.root_disp_raw >> 16) as u32), "root dispersion is the server's");
            assert!(resp[12] == env.refid[0] && resp[13] == env.refid[1] && resp[14] == env.refid[2] && resp[15] == env.refid[3],
                "reference id is the server's");
            let trunc = env.recv_raw & !((1u64 << 39) - 1);
            let upgrade = ver == 4 && rd64(req, 16) == UPGRADE_MAGIC;
            assert!(rd64(resp, 16) == if upgrade { UPGRADE_MAGIC } else { trunc },
                "reference timestamp is derived from the reception time (or the v5 upgrade marker when asked)");
            assert!(rd64(resp, 32) == env.recv_raw, "receive timestamp is the reception time");
            assert!(rd64(resp, 40) == env.now_raw, "transmit timestamp is the clock reading");
        }
        Kind::Deny | Kind::Nak => {
            assert!(resp[1] == 0, "kiss answer has stratum 0");
            let code: &[u8; 4] = if kind == Kind::Deny { b"DENY" } else { b"NTSN" };
            assert!(resp[12] == code[0] && resp[13] == code[1] && resp[14] == code[2] && resp[15] == code[3], "kiss code");
            assert!(rd64(resp, 32) == 0 && rd64(resp, 40) == 0, "kiss answer carries no server timestamps");
            assert!(rd64(resp, 16) == 0, "kiss answer carries no reference timestamp");
        }
    }
}

/// Oracle for the 48-byte NTPv5 answer header (draft-ietf-ntp-ntpv5 layout: LI/VN/mode,
/// stratum, poll, precision, root delay, root dispersion (time32), timescale, era, flags,
/// server cookie, client cookie, receive, transmit).
pub fn check_header_v5(resp: &[u8], req: &[u8], kind: Kind, env: &Env) {
    assert!(resp[0] & 7 == 4, "answer is a response");
    assert!((resp[0] >> 3) & 7 == 5, "answer uses the request's version");
    assert!(rd64(resp, 24) == rd64(req, 24), "client cookie is echoed");
    match kind {
        Kind::Time => {
            assert!(resp[0] >> 6 == env.leap_bits(), "leap indicator is the server's");
            assert!(resp[1] == env.stratum, "stratum is the server's");
            assert!(resp[2] == req[2], "poll is echoed");
            assert!(resp[3] == expected_precision(env.precision_raw), "precision is the server's");
            let rd = env.root_delay_raw >> 4;
            let rd = if rd > u32::MAX as i64 { u32::MAX } else { rd as u32 };
            assert!(rd32(resp, 4) == rd, "root delay is the server's");
            let rp = env.root_disp_raw >> 4;
            let rp = if rp > u32::MAX as i64 { u32::MAX } else { rp as u32 };
            assert!(rd32(resp, 8) == rp, "root dispersion is the server's");
            assert!(resp[12] == 0 && resp[13] == 0, "timescale UTC, era 0");
            assert!(resp[14] == 0 && resp[15] == (env.stratum < 16) as u8, "flags: synchronized iff stratum < 16");
            assert!(rd64(resp, 32) == env.recv_raw, "receive timestamp is the reception time");
            assert!(rd64(resp, 40) == env.now_raw, "transmit timestamp is the clock reading");
        }
        Kind::Deny | Kind::Nak => {
            assert!(resp[1] == 0, "kiss answer has stratum 0");
            assert!(rd64(resp, 32) == 0 && rd64(resp, 40) == 0, "kiss answer carries no server timestamps");
            assert!(resp[14] == 0, "flags high byte");
            if kind == Kind::Deny {
                assert!(resp[2] == 0x7f, "v5 DENY = poll NEVER");
                assert!(resp[15] == 0, "no flags on DENY");
            } else {
                assert!(resp[15] == 0b100, "v5 NTS NAK = authnak flag only");
            }
        }
    }
}

/// Classify an answer by its header bytes alone (stratum / kiss code / v5 flags).
pub fn classify(resp: &[u8]) -> Kind {
    let ver = (resp[0] >> 3) & 7;
    if resp[1] != 0 {
        Kind::Time
    } else if ver == 5 {
        if resp[15] & 0b100 != 0 { Kind::Nak } else if resp[2] == 0x7f { Kind::Deny } else { Kind::Time }
    } else if resp[12] == b'N' && resp[13] == b'T' && resp[14] == b'S' && resp[15] == b'N' {
        Kind::Nak
    } else if resp[12] == b'D' && resp[13] == b'E' && resp[14] == b'N' && resp[15] == b'Y' {
        Kind::Deny
    } else {
        Kind::Time
    }
}

// ------------------------------------------------------------------------------------------
// ideal AEAD (DESIGN 2.6) and KeySet cookie models
//
// Keys are identified by a one-byte id. The client of the modelled NTS association holds
// (C2S_ID, S2C_ID); a decoded cookie hands exactly those two keys to the server.
//
// decrypt(nonce, ct, aad) under key K succeeds iff K is the c2s key and the harness-chosen ghost
// `REQ_AUTHENTIC` is set ("the client really produced this (aad, nonce, ciphertext) under c2s");
// whether the code passed exactly the extents the client authenticated (aad = request prefix up
// to the encrypted field, nonce and ciphertext = the field's nonce and ciphertext) is recorded in
// `DEC_BAD_EXTENTS` and asserted by the harness. Plaintext = ciphertext minus the 16-byte tag
// (confidentiality is not modelled).
//
// encrypt(buf, n, aad): 16-byte nonce `ENC_NONCE_BYTE`, plaintext left in place, 16-byte tag
// = key id repeated; the call (key, aad extent, plaintext length) is recorded.

pub const S2C_ID: u8 = 0xA5;
pub const C2S_ID: u8 = 0x5C;
pub const TAG_LEN: usize = 16;
pub const NONCE_LEN: usize = 16;

pub struct ModelCipher {
    pub id: [u8; 1],
}
impl zeroize::ZeroizeOnDrop for ModelCipher {}

// ghost state: expectations set by the harness up front
pub static mut REQ_AUTHENTIC: bool = false;
pub static mut COOKIE_VALID: bool = false;
pub static mut EXP_AAD_PTR: *const u8 = core::ptr::null();
pub static mut EXP_AAD_LEN: usize = 0;
pub static mut EXP_NONCE_PTR: *const u8 = core::ptr::null();
pub static mut EXP_NONCE_LEN: usize = 0;
pub static mut EXP_CT_PTR: *const u8 = core::ptr::null();
pub static mut EXP_CT_LEN: usize = 0;
pub static mut EXP_COOKIE_PTR: *const u8 = core::ptr::null();
pub static mut EXP_COOKIE_LEN: usize = 0;
pub static mut FRESH_COOKIE_LEN: usize = 0;
// ghost state: records
pub static mut DEC_CALLS: u8 = 0;
pub static mut DEC_OK: u8 = 0;
pub static mut DEC_WRONG_KEY: u8 = 0;
/// number of decrypt calls whose (aad, nonce, ciphertext) extents were NOT the ones the client
/// authenticated
pub static mut DEC_BAD_EXTENTS: u8 = 0;
pub static mut ENC_CALLS: u8 = 0;
pub static mut ENC_KEY: u8 = 0;
pub static mut ENC_AAD_PTR: *const u8 = core::ptr::null();
pub static mut ENC_AAD_LEN: usize = 0;
pub static mut ENC_PT_LEN: usize = 0;
pub static mut ENC_BUF_PTR: *const u8 = core::ptr::null();
/// copy of the associated data the (last) encrypt call authenticated (first 128 bytes)
pub static mut ENC_AAD_COPY: [u8; 128] = [0; 128];
pub static mut COOKIE_DECODES: u8 = 0;
pub static mut COOKIE_DECODE_FOREIGN: u8 = 0;
pub static mut COOKIE_ENCODES: u8 = 0;
pub static mut COOKIE_ENCODE_BAD_KEYS: u8 = 0;
pub static mut COOKIE_ENCODE_KEYSET: *const KeySet = core::ptr::null();
pub const ENC_NONCE_BYTE: u8 = 0x4E;

impl Cipher for ModelCipher {
    fn encrypt(&self, buffer: &mut [u8], plaintext_length: usize, associated_data: &[u8]) -> std::io::Result<EncryptResult> {
        if buffer.len() < NONCE_LEN + plaintext_length + TAG_LEN {
            return Err(std::io::ErrorKind::WriteZero.into());
        }
        unsafe {
            ENC_CALLS += 1;
            ENC_KEY = self.id[0];
            ENC_AAD_PTR = associated_data.as_ptr();
            ENC_AAD_LEN = associated_data.len();
            ENC_PT_LEN = plaintext_length;
            ENC_BUF_PTR = buffer.as_ptr();
            let n = if associated_data.len() < 128 { associated_data.len() } else { 128 };
            ENC_AAD_COPY[..n].copy_from_slice(&associated_data[..n]);
        }
        buffer.copy_within(..plaintext_length, NONCE_LEN);
        buffer[..NONCE_LEN].copy_from_slice(&[ENC_NONCE_BYTE; NONCE_LEN]);
        let tag = [self.id[0]; TAG_LEN];
        buffer[NONCE_LEN + plaintext_length..NONCE_LEN + plaintext_length + TAG_LEN].copy_from_slice(&tag);
        Ok(EncryptResult { nonce_length: NONCE_LEN, ciphertext_length: plaintext_length + TAG_LEN })
    }

    fn decrypt(&self, nonce: &[u8], ciphertext: &[u8], associated_data: &[u8]) -> Result<Vec<u8>, DecryptError> {
        unsafe {
            DEC_CALLS += 1;
            if self.id[0] != C2S_ID {
                DEC_WRONG_KEY += 1;
                return Err(DecryptError);
            }
            // The extents are recorded, not branched on (a data-dependent Ok/Err would make the
            // parse result symbolic, see c18.rs); the harness asserts DEC_BAD_EXTENTS == 0, i.e. the
            // server verified exactly what the client authenticated.
            let extents_ok = associated_data.as_ptr() == EXP_AAD_PTR
                && associated_data.len() == EXP_AAD_LEN
                && nonce.as_ptr() == EXP_NONCE_PTR
                && nonce.len() == EXP_NONCE_LEN
                && ciphertext.as_ptr() == EXP_CT_PTR
                && ciphertext.len() == EXP_CT_LEN;
            DEC_BAD_EXTENTS += !extents_ok as u8;
            if !REQ_AUTHENTIC || ciphertext.len() < TAG_LEN {
                return Err(DecryptError);
            }
            DEC_OK += 1;
        }
        Ok(ciphertext[..ciphertext.len() - TAG_LEN].to_vec())
    }

    fn key_bytes(&self) -> &[u8] {
        &self.id
    }
}

// The real AES-SIV ciphers are never instantiated in these harnesses (the key set has no keys,
// cookies decode to `ModelCipher`s), but `dyn Cipher` calls are dispatched over every
// implementor when symex cannot fold the vtable pointer, and would walk into the real AES code.
// These stand-ins count calls; the harnesses assert the counter stays 0.
pub static mut REAL_AES_CALLS: u8 = 0;
use ntp_proto::verif::packet::crypto::{AesSivCmac256, AesSivCmac512};
pub fn aes256_decrypt_unreachable(_c: &AesSivCmac256, _n: &[u8], _ct: &[u8], _aad: &[u8]) -> Result<Vec<u8>, DecryptError> {
    unsafe { REAL_AES_CALLS += 1 };
    Err(DecryptError)
}
pub fn aes512_decrypt_unreachable(_c: &AesSivCmac512, _n: &[u8], _ct: &[u8], _aad: &[u8]) -> Result<Vec<u8>, DecryptError> {
    unsafe { REAL_AES_CALLS += 1 };
    Err(DecryptError)
}
pub fn aes256_encrypt_unreachable(_c: &AesSivCmac256, _b: &mut [u8], _n: usize, _aad: &[u8]) -> std::io::Result<EncryptResult> {
    unsafe { REAL_AES_CALLS += 1 };
    Err(std::io::ErrorKind::Other.into())
}
pub fn aes512_encrypt_unreachable(_c: &AesSivCmac512, _b: &mut [u8], _n: usize, _aad: &[u8]) -> std::io::Result<EncryptResult> {
    unsafe { REAL_AES_CALLS += 1 };
    Err(std::io::ErrorKind::Other.into())
}

/// Model of `KeySet::decode_cookie`: the cookie bytes are opaque; the harness-chosen ghost
/// `COOKIE_VALID` says whether this server issued it (under a key it still holds). A valid
/// cookie yields the association's two keys.
pub fn model_decode_cookie(_ks: &KeySet, cookie: &[u8]) -> Result<DecodedServerCookie, DecryptError> {
    unsafe {
        COOKIE_DECODES += 1;
        if cookie.as_ptr() != EXP_COOKIE_PTR || cookie.len() != EXP_COOKIE_LEN {
            COOKIE_DECODE_FOREIGN += 1;
            return Err(DecryptError);
        }
        if !COOKIE_VALID {
            return Err(DecryptError);
        }
    }
    Ok(kh::decoded_cookie_from_parts(
        15,
        Box::new(ModelCipher { id: [S2C_ID] }),
        Box::new(ModelCipher { id: [C2S_ID] }),
    ))
}

/// Model of `<KeySet as CipherProvider>::get` (keyset.rs: "find the single cookie field among the
/// fields seen so far and decode it; no cookie, two cookies or an undecodable cookie => None").
/// Same logic, written with an index loop: the real function iterates the `Vec` by pointer, which
/// symex unrolls to the unwind bound with garbage elements, each of them allocating and dropping
/// boxed `dyn Cipher`s (measured: > 5 GB before the first decrypt call). Consequence: the "exactly
/// one cookie" rule itself is part of the model, not of the claim.
pub fn model_keyset_get<'a>(ks: &'a KeySet, context: &[ntp_proto::verif::packet::Ef<'_>]) -> Option<ntp_proto::verif::packet::crypto::CipherHolder<'a>> {
    use ntp_proto::verif::packet::Ef;
    let mut found: Option<usize> = None;
    let mut i = 0;
    while i < context.len() {
        if let Ef::NtsCookie(_) = &context[i] {
            if found.is_some() {
                return None;
            }
            found = Some(i);
        }
        i += 1;
    }
    match found {
        None => None,
        Some(i) => match &context[i] {
            Ef::NtsCookie(c) => match model_decode_cookie(ks, c) {
                Ok(d) => Some(ntp_proto::verif::packet::crypto::CipherHolder::DecodedServerCookie(d)),
                Err(_) => None,
            },
            _ => None,
        },
    }
}

/// Model of `KeySet::encode_cookie`: a fresh opaque cookie of `FRESH_COOKIE_LEN` bytes whose first
/// bytes say which encode call produced it and for which session keys; records the key set used.
pub fn model_encode_cookie(ks: &KeySet, cookie: &DecodedServerCookie) -> Vec<u8> {
    let s2c = cookie.s2c.key_bytes()[0];
    let c2s = cookie.c2s.key_bytes()[0];
    let n;
    let seq;
    unsafe {
        COOKIE_ENCODES += 1;
        seq = COOKIE_ENCODES;
        if s2c != S2C_ID || c2s != C2S_ID {
            COOKIE_ENCODE_BAD_KEYS += 1;
        }
        COOKIE_ENCODE_KEYSET = ks as *const KeySet;
        n = FRESH_COOKIE_LEN;
    }
    let mut v = vec![0u8; n];
    v[0] = 0xC0;
    v[1] = seq;
    v[2] = s2c;
    v[3] = c2s;
    v
}

// ------------------------------------------------------------------------------------------
// NTS request layout templates (RFC 8915 section 5.7 shape)

/// header48 | uid | cookie | p placeholders | encrypted field (nonce, inner plaintext + tag) | trailing
#[derive(Clone, Copy)]
pub struct NtsLayout {
    /// payload length of the unique-identifier field (RFC 8915: 32)
    pub uid: usize,
    /// cookie length (multiple of 4)
    pub cookie: usize,
    /// number of cookie placeholder fields before the encrypted field
    pub placeholders: usize,
    /// body length of each placeholder (multiple of 4)
    pub placeholder: usize,
    /// nonce length in the request's encrypted field (multiple of 4)
    pub nonce: usize,
    /// what the encrypted field's plaintext holds: 0 nothing, 1 one more placeholder,
    /// 2 an unknown field with 8 symbolic bytes
    pub inner: u8,
    /// total length of a trailing unauthenticated unique-identifier field (0 or >= 28)
    pub trailing: usize,
}

impl NtsLayout {
    pub const fn o_uid(&self) -> usize {
        48
    }
    pub const fn o_cookie(&self) -> usize {
        48 + 4 + self.uid
    }
    pub const fn o_placeholder(&self, i: usize) -> usize {
        self.o_cookie() + 4 + self.cookie + i * (4 + self.placeholder)
    }
    pub const fn o_enc(&self) -> usize {
        self.o_placeholder(self.placeholders)
    }
    pub const fn inner_len(&self) -> usize {
        match self.inner {
            0 => 0,
            1 => 4 + self.placeholder,
            _ => 12,
        }
    }
    pub const fn ct_len(&self) -> usize {
        self.inner_len() + TAG_LEN
    }
    pub const fn enc_total(&self) -> usize {
        8 + self.nonce + self.ct_len()
    }
    pub const fn o_trailing(&self) -> usize {
        self.o_enc() + self.enc_total()
    }
    pub const fn len(&self) -> usize {
        self.o_trailing() + self.trailing
    }
    /// number of cookie / placeholder fields of the request (authenticated or encrypted)
    pub const fn slots(&self) -> usize {
        1 + self.placeholders + (self.inner == 1) as usize
    }
}

/// `msg` = `lay.len()` arbitrary bytes; overwrite (element-wise, so that CBMC keeps them as
/// per-element constants) everything that the template fixes: first byte, field types and
/// lengths, zero placeholder bodies, cookie body beyond its first 4 bytes (opaque to the models).
/// What stays symbolic: header bytes 1..48, unique identifiers, 4 cookie bytes, nonce, the
/// contents of the unknown encrypted field, the tag. Also sets the ghost expectations of the
/// ideal-AEAD / cookie models (the extents the client authenticated). `msg` must not move
/// afterwards.
pub fn build_nts_request(msg: &mut [u8], lay: &NtsLayout, version: u8) {
    // loop-free (the unwind bound of these harnesses is 3..4): zero up to 16 bytes
    fn zero16(msg: &mut [u8], o: usize, n: usize) {
        assert!(n <= 16);
        macro_rules! z { ($($i:expr),*) => { $( if $i < n { msg[o + $i] = 0; } )* } }
        z!(0, 1, 2, 3, 4, 5, 6, 7, 8, 9, 10, 11, 12, 13, 14, 15);
    }
    msg[0] = (version << 3) | 3;
    put_ef(msg, lay.o_uid(), EF_UID, (4 + lay.uid) as u16);
    put_ef(msg, lay.o_cookie(), EF_COOKIE, (4 + lay.cookie) as u16);
    zero16(msg, lay.o_cookie() + 8, lay.cookie - 4);
    assert!(lay.placeholders <= 8);
    macro_rules! ph { ($($k:expr),*) => { $( if $k < lay.placeholders {
        put_ef(msg, lay.o_placeholder($k), EF_PLACEHOLDER, (4 + lay.placeholder) as u16);
        zero16(msg, lay.o_placeholder($k) + 4, lay.placeholder);
    } )* } }
    ph!(0, 1, 2, 3, 4, 5, 6, 7);
    let e = lay.o_enc();
    put_ef(msg, e, EF_ENCRYPTED, lay.enc_total() as u16);
    wr16(msg, e + 4, lay.nonce as u16);
    wr16(msg, e + 6, lay.ct_len() as u16);
    let ct = e + 8 + lay.nonce;
    if lay.inner == 1 {
        put_ef(msg, ct, EF_PLACEHOLDER, (4 + lay.placeholder) as u16);
        zero16(msg, ct + 4, lay.placeholder);
    } else if lay.inner == 2 {
        put_ef(msg, ct, 0x0ABC, 12);
    }
    if lay.trailing > 0 {
        put_ef(msg, lay.o_trailing(), EF_UID, lay.trailing as u16);
    }
    unsafe {
        EXP_AAD_PTR = msg.as_ptr();
        EXP_AAD_LEN = e;
        EXP_NONCE_PTR = msg.as_ptr().add(e + 8);
        EXP_NONCE_LEN = lay.nonce;
        EXP_CT_PTR = msg.as_ptr().add(ct);
        EXP_CT_LEN = lay.ct_len();
        EXP_COOKIE_PTR = msg.as_ptr().add(lay.o_cookie() + 4);
        EXP_COOKIE_LEN = lay.cookie;
    }
}

// ------------------------------------------------------------------------------------------
/// `srv_harness! { #[kani::unwind(n)] fn name() { .. } }` = `harness!` + the KeySet cookie models.
/// Every harness of this crate uses them: without them symex walks into the real AES-SIV code
/// behind `KeySet::decode_cookie` on every path on which it cannot rule out an NTS field
/// (measured: > 6 GB for a 52-byte request). With the ghosts at their defaults the decode model
/// fails for every cookie, which is exactly what the real function does for the empty key set
/// that the plain (non-NTS) harnesses give the server.
#[macro_export]
macro_rules! srv_harness {
    ( $(#[$m:meta])* fn $name:ident() $body:block ) => {
        harness! {
            #[kani::stub(ntp_proto::KeySet::decode_cookie, crate::common::model_decode_cookie)]
            #[kani::stub(ntp_proto::KeySet::encode_cookie, crate::common::model_encode_cookie)]
            #[kani::stub(<ntp_proto::KeySet as ntp_proto::CipherProvider>::get, crate::common::model_keyset_get)]
            #[kani::stub(<ntp_proto::verif::packet::crypto::AesSivCmac256 as ntp_proto::verif::packet::crypto::Cipher>::decrypt, crate::common::aes256_decrypt_unreachable)]
            #[kani::stub(<ntp_proto::verif::packet::crypto::AesSivCmac512 as ntp_proto::verif::packet::crypto::Cipher>::decrypt, crate::common::aes512_decrypt_unreachable)]
            #[kani::stub(<ntp_proto::verif::packet::crypto::AesSivCmac256 as ntp_proto::verif::packet::crypto::Cipher>::encrypt, crate::common::aes256_encrypt_unreachable)]
            #[kani::stub(<ntp_proto::verif::packet::crypto::AesSivCmac512 as ntp_proto::verif::packet::crypto::Cipher>::encrypt, crate::common::aes512_encrypt_unreachable)]
            #[kani::stub(ntp_proto::TimeSnapshot::root_dispersion, crate::common::root_dispersion_stub)]
            #[kani::stub(core::str::from_utf8, crate::common::from_utf8_stub)]
            #[kani::stub(core::slice::ascii::is_ascii, crate::common::is_ascii_stub)]
            $(#[$m])*
            fn $name() $body
        }
    };
}

// ------------------------------------------------------------------------------------------
// std stubs (trusted base; same models as np_packet_h/src/common.rs)

/// Loop-free ASCII test for up to 32 bytes (longer inputs: plain loop, needs a matching unwind).
pub fn all_ascii(v: &[u8]) -> bool {
    let n = v.len();
    macro_rules! chk { ($($i:expr),*) => { $( if n > $i && v[$i] >= 0x80 { return false; } )* } }
    chk!(0, 1, 2, 3, 4, 5, 6, 7, 8, 9, 10, 11, 12, 13, 14, 15, 16, 17, 18, 19, 20, 21, 22, 23, 24, 25, 26, 27, 28, 29, 30, 31);
    let mut i = 32;
    while i < n {
        if v[i] >= 0x80 {
            return false;
        }
        i += 1;
    }
    true
}
/// Model of `core::str::from_utf8`: Ok iff every byte is ASCII. The only caller in the code under
/// test (NTPv5 draft identification) rejects non-ASCII strings anyway (`Ok(di) if di.is_ascii()`),
/// so reporting non-ASCII UTF-8 as invalid is observationally equivalent there. The real
/// validation loop (word-at-a-time + SIMD) does not finish symbolic execution.
pub fn from_utf8_stub(v: &[u8]) -> Result<&str, std::str::Utf8Error> {
    if all_ascii(v) {
        Ok(unsafe { std::str::from_utf8_unchecked(v) })
    } else {
        const _: () = assert!(std::mem::size_of::<std::str::Utf8Error>() == 16);
        // all-zero = { valid_up_to: 0, error_len: None } whatever the field order; never inspected
        Err(unsafe { std::mem::transmute::<[u8; 16], std::str::Utf8Error>([0u8; 16]) })
    }
}
/// Model of `<[u8]>::is_ascii` (the real one takes a SIMD path Kani models with nested loops).
pub fn is_ascii_stub(v: &[u8]) -> bool {
    all_ascii(v)
}
