//! Kani harnesses (external crate, path dependency on /repo).
#![feature(allocator_api)]
#![allow(unused, static_mut_refs)]
#[path = "../../common/stubs.rs"]
pub mod stubs;
#[path = "../../common/util.rs"]
#[macro_use]
pub mod util;
#[cfg(kani)]
mod common;
#[cfg(kani)]
mod c41;
#[cfg(kani)]
mod c42;
#[cfg(kani)]
mod c43;
#[cfg(kani)]
mod c44;
#[cfg(kani)]
mod c45;
