ND = "ntpd_h"
PROP = dict(
    functions=[
        "ntpd::daemon::sockets::read_json (framing only)",
        "ntp_proto::NtpDuration as serde::Serialize / Deserialize (to_seconds / from_seconds through an in-memory f64)",
    ],
    bounds="c38_cap: every announced length in (2^20, 2^64); c38_small: announced lengths 1..=4 with the payload delivered in reads of <= 4 bytes; c38_dur_sign: every i64 duration",
    outside="announced lengths 5..=2^20 (Vec::resize loops once per byte: the boundary value 2^20 itself is not decided, only everything above it); the JSON text layer (serde_json / ryu: stubbed by 'always a syntax error', trusted to round-trip f64 exactly); whole ObservableState values; write_json; "
            "the numeric round-trip bound |back - d| <= 1e-9|d| + 1 unit: the f64 division by 2^32-1 in to_seconds followed by floor/multiply in from_seconds does not finish in CBMC (c38_dur: >330 s, c38_dur_small restricted to |d| < 2^52: >400 s, both cut off), so only the sign / finiteness / acceptance clauses are claimed (c38_dur_sign)",
    assumptions=["readers are always ready (futures polled once with a no-op waker)"],
    stub_notes=["serde_json::from_slice -> always Err (text parsing outside the claim)"],
    harnesses=[
        H(ND, "c38", "c38_cap", "length > 1 MiB => Err after exactly 8 bytes, no payload read, no buffer allocated", timeout=600),
        H(ND, "c38", "c38_small", "lengths 1..=4 are read in full (not rejected at the prefix)", timeout=600),
        H(ND, "c38", "c38_dur_sign", "a published duration is a finite f64 with the right sign, is accepted on the way back and keeps its sign", timeout=600),
    ],
)
