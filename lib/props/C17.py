NP = "np_srvnts_h"
PROP = dict(
    functions=[
        "ntp_proto::server::Server<FixedClock>::handle (two identically configured servers, 1024-byte buffer vs request-sized buffer)",
        "ntp_proto::packet::NtpPacket::{deserialize, timestamp_response, deny_response, nts_timestamp_response, serialize}",
        "ntp_proto::packet::extension_fields::ExtensionFieldData::serialize (RFC 7822 minimum sizes 16/28 on re-encode), ExtensionField::encode_encrypted",
    ],
    bounds=("NTPv3/NTPv4 requests of 48 and 52 bytes (all content bytes symbolic, first byte constant) under serve/deny policy; "
            "NTPv4 templates header|uid(L1)|uid(L2)|trailer for (L1,L2,trailer) = (16,28,0) [holds] and (4,4,24) [known finding]; "
            "symbolic reception time, clock reading and synchronisation state, identical for both servers"),
    outside=("NTPv5 and NTS requests (the answer-size argument for NTS is part of C19's cover goal 'answer exactly as long as the request'; see report: an authenticated unique identifier shorter than 16 bytes, "
             "or a request nonce shorter than 16 bytes, also makes the answer longer than the request); other extension-field layouts; requests above 92 bytes"),
    assumptions=[
        "defect predicate P_uid (assumed away in c17_fit_*, assumed in c17_fit_kf_short_uids): the NTPv4 request carries at least two unique-identifier fields and one of them is shorter than the RFC 7822 minimum it is re-encoded with (16 bytes; 28 bytes for the last field of the answer)",
        "server state and policy as in C18",
    ],
    stub_notes=["as C18"],
    harnesses=[
        H(NP, "c17", "c17_fit_v3", "NTPv3 48/52-byte requests: answered with 1024-byte buffer => answered identically with a request-sized buffer", timeout=900),
        H(NP, "c17", "c17_fit_v4", "NTPv4 48/52-byte requests: same", timeout=900),
        H(NP, "c17", "c17_fit_v4_uids", "NTPv4 request with two unique identifiers at their minimum sizes (16, 28): answer = request length, fits", tier="thorough", timeout=1800),
        H(NP, "c17", "c17_fit_kf_short_uids", "EXPECTED TO FAIL: two 4-byte unique identifiers + 24-byte MAC (80 bytes) are answered with 92 bytes; with a request-sized buffer the request is dropped (InternalError)", tier="thorough", timeout=1800),
    ],
)
