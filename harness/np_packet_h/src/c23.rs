//! Harnesses for property C23 (see /verif/properties.jsonl).
use crate::stubs;
