//! Kani harnesses (external crate, path dependency on /repo).
#![feature(allocator_api)]
#![recursion_limit = "512"]
#![allow(unused, static_mut_refs)]
#[path = "../../common/stubs.rs"]
pub mod stubs;
#[path = "../../common/util.rs"]
#[macro_use]
pub mod util;
#[macro_use]
pub mod common;
#[cfg(kani)]
mod c15;
#[cfg(kani)]
pub mod c16;
#[cfg(kani)]
mod c20;
#[cfg(kani)]
mod c21;
#[cfg(kani)]
mod c22;
