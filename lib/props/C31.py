NM = "np_misc_h"
PROP = dict(
    functions=[
        "ntp_proto::ipfilter::IpFilter::is_in / is_in4 / is_in6, BitTree::lookup (symbolically executed for every address)",
        "ntp_proto::ipfilter::IpFilter::new / BitTree::create / fill_node (executed natively by np_misc_h/build.rs on /repo's working tree for each concrete subnet list; the resulting tries are the constants the harnesses load)",
    ],
    bounds="every IPv4 address (plain and IPv4-mapped) and every IPv6 address against each subnet list of the generated tables (list index symbolic). "
           "IPv4 quick: empty list, 192.168.1.165/m for every m, 108 nested pairs (both orders), 63 sibling pairs (m,m)/(m+1,m) for every m, duplicates/extremes, 64 pseudo-random pairs with shared prefixes; "
           "thorough: all 33x33 mask pairs of the nested pair in both orders and 1024 pseudo-random pairs. IPv6 quick: 17 masks incl. 0/1/127/128, sibling pairs at the top, around /64 and at /120../128, nested pairs, 24 pseudo-random pairs; "
           "thorough: every mask 0..=128, every sibling pair, 162 nested pairs, 96 pseudo-random pairs. Lists have at most 2 subnets.",
    outside="subnet lists that are not in the generated tables (the construction is not executed symbolically: fill_node recurses from 16 guarded call sites per level over heap data, symbolic execution instantiates 16^depth copies even for one concrete /0 subnet - no result in 10 min, out of memory at 8 GB with two subnets); more than two subnets per list; "
            "IpSubnet::from_str (the second clause of the property) is NOT decided: std's IpAddr parser on the template d.d.d.d/mm with symbolic digits did not finish within the 5-minute probe cap (cut off at 391 s / 4.2 GB); IPv4-mapped IPv6 subnets handed to IpFilter::new directly (from_str canonicalises them to IPv4 first)",
    assumptions=["subnets are canonical as produced by IpSubnet::from_str (IPv6 subnets are not IPv4-mapped, mask within the family width)"],
    stub_notes=["trusted: the harness crate's build script (runs /repo's IpFilter::new natively and writes the node tables) and the raw-node hooks filter_nodes / filter_from_nodes"],
    harnesses=[
        H(NM, "c31", "c31_v4_plain", "IPv4 lists (quick table, 272 lists) x every IPv4 address: is_in <=> exists subnet with equal masked prefix", timeout=600),
        H(NM, "c31", "c31_v4_mapped", "same lists x every IPv4-mapped IPv6 address: matched as its IPv4 address", timeout=600),
        H(NM, "c31", "c31_v4_proper_v6", "same lists x every proper IPv6 address: never listed", timeout=600),
        H(NM, "c31", "c31_v6_quick", "IPv6 lists (first 24 of the quick table: empty, 17 masks incl. 0/1/127/128, sibling pairs /1../3) x every proper IPv6 address", timeout=600),
        H(NM, "c31", "c31_v6", "IPv6 lists (quick table, 149 lists) x every proper IPv6 address", tier="thorough"),
        H(NM, "c31", "c31_v6_v4_query", "IPv6 lists x every IPv4 / IPv4-mapped address: never listed", tier="thorough"),
    ] + [H(NM, "c31", "c31_v4_full_plain_%d" % k, "IPv4 thorough table chunk %d (<= 1101 lists) x every IPv4 address" % k, tier="thorough") for k in range(3)]
      + [H(NM, "c31", "c31_v4_full_mapped_%d" % k, "IPv4 thorough table chunk %d x every IPv4-mapped address" % k, tier="thorough") for k in range(3)]
      + [H(NM, "c31", "c31_v6_full_%d" % k, "IPv6 thorough table chunk %d (<= 130 lists) x every proper IPv6 address" % k, tier="thorough") for k in range(5)],
)
