//! C39 Configuration thresholds: the numeric layer of `StepThreshold` / `NtpDuration` deserialisation.
//!
//! The values are fed through serde's own in-memory deserializers (`serde::de::value::*`), i.e. the
//! visitor entry points a TOML document reaches (`forward = 1.5` -> `visit_f64`, `= 3` ->
//! `visit_i64`, `= "inf"` -> `visit_str`, `= nan` -> `visit_f64(NaN)`). TOML text parsing itself
//! is outside the claim.
//!
//! Oracle (property text): an accepted threshold is, per direction, either absent (`None` =
//! unlimited) or a non-negative duration, and was not produced from a NaN.
use crate::stubs;
use ntp_proto::verif::config as ch;
use ntp_proto::verif::time_types as th;
use ntp_proto::{NtpDuration, StepThreshold};
use serde::de::value::{F64Deserializer, I64Deserializer, MapDeserializer, StrDeserializer, U64Deserializer};
use serde::de::{self, Deserialize, Deserializer, IntoDeserializer, Visitor};

/// Error type without message formatting (serde's `value::Error` renders every message into a
/// `String`; the message text is irrelevant here).
#[derive(Debug)]
pub struct E0;
impl std::fmt::Display for E0 {
    fn fmt(&self, f: &mut std::fmt::Formatter<'_>) -> std::fmt::Result {
        f.write_str("E0")
    }
}
impl std::error::Error for E0 {}
impl de::Error for E0 {
    fn custom<T: std::fmt::Display>(_msg: T) -> Self {
        E0
    }
}

/// One TOML scalar as the `toml` deserializer presents it to a visitor.
#[derive(Clone, Copy)]
pub enum Val {
    F(f64),
    I(i64),
    U(u64),
    S([u8; 3]),
}
pub struct ValDe(Val);
impl<'de> IntoDeserializer<'de, E0> for Val {
    type Deserializer = ValDe;
    fn into_deserializer(self) -> ValDe {
        ValDe(self)
    }
}
impl<'de> Deserializer<'de> for ValDe {
    type Error = E0;
    fn deserialize_any<V: Visitor<'de>>(self, v: V) -> Result<V::Value, E0> {
        match self.0 {
            Val::F(x) => v.visit_f64(x),
            Val::I(x) => v.visit_i64(x),
            Val::U(x) => v.visit_u64(x),
            Val::S(b) => match std::str::from_utf8(&b) {
                Ok(s) => v.visit_str(s),
                Err(_) => Err(E0),
            },
        }
    }
    serde::forward_to_deserialize_any! {
        bool i8 i16 i32 i64 i128 u8 u16 u32 u64 u128 f32 f64 char str string bytes byte_buf option
        unit unit_struct newtype_struct seq tuple tuple_struct map struct enum identifier ignored_any
    }
}

fn any_val() -> Val {
    let kind: u8 = kani::any();
    let f: f64 = kani::any();
    let i: i64 = kani::any();
    let u: u64 = kani::any();
    let s: [u8; 3] = kani::any();
    kani::assume(kind <= 3);
    kani::assume(s[0] < 0x80 && s[1] < 0x80 && s[2] < 0x80);
    match kind {
        0 => Val::F(f),
        1 => Val::I(i),
        2 => Val::U(u),
        _ => Val::S(s),
    }
}

/// The value is one the per-direction form must reject according to the property
/// (NaN or negative, including -inf).
fn val_unsafe(v: Val) -> bool {
    match v {
        Val::F(x) => x.is_nan() || x < 0.0,
        Val::I(x) => x < 0,
        _ => false,
    }
}
/// +inf reaches `NtpDuration::from_seconds`' `debug_assert!` (dev profile only; in release it
/// saturates to `NtpDuration::MAX`, i.e. an unlimited threshold).
fn val_posinf(v: Val) -> bool {
    matches!(v, Val::F(x) if x == f64::INFINITY)
}

fn nonneg(d: Option<NtpDuration>) -> bool {
    match d {
        None => true,
        Some(d) => th::dur_raw(d) >= 0,
    }
}

/// What one direction must look like after an accepted map, given the value supplied for it.
fn part_ok(got: Option<NtpDuration>, supplied: Option<Val>) {
    assert!(nonneg(got), "accepted threshold part is negative");
    match supplied {
        None => assert!(got.is_none(), "absent direction must be unlimited"),
        Some(Val::S(s)) => assert!(s == *b"inf" && got.is_none(), "only the string \"inf\" is accepted and means unlimited"),
        Some(Val::F(x)) => {
            assert!(!x.is_nan(), "accepted a NaN threshold part");
            assert!(x >= 0.0, "accepted a negative threshold part");
            assert!(x != f64::INFINITY, "accepted an infinite threshold part (only the string \"inf\" means unlimited)");
            assert!(got.is_some(), "numeric part yields a limit");
            if x >= 1.0 {
                assert!(th::dur_raw(got.unwrap()) >= 1 << 32, "limit not smaller than one second for inputs >= 1.0");
            }
        }
        Some(Val::I(x)) => {
            assert!(x >= 0, "accepted a negative integer threshold part");
            assert!(got.is_some());
            if x >= 1 {
                assert!(th::dur_raw(got.unwrap()) >= 1 << 32);
            }
        }
        Some(Val::U(x)) => {
            assert!(got.is_some());
            if x >= 1 {
                assert!(th::dur_raw(got.unwrap()) >= 1 << 32);
            }
        }
    }
}

// ------------------------------------------------------------------------------ single number
/// `single-step-panic-threshold = <scalar>` for every f64 / i64 / u64 / 3-byte ASCII string.
#[kani::proof]
#[kani::unwind(6)]
fn c39_single() {
    let v = any_val();
    let res: Result<StepThreshold, E0> = match v {
        Val::F(x) => StepThreshold::deserialize(F64Deserializer::<E0>::new(x)),
        Val::I(x) => StepThreshold::deserialize(I64Deserializer::<E0>::new(x)),
        Val::U(x) => StepThreshold::deserialize(U64Deserializer::<E0>::new(x)),
        Val::S(s) => {
            let st = std::str::from_utf8(&s).unwrap();
            StepThreshold::deserialize(StrDeserializer::<E0>::new(st))
        }
    };
    match res {
        Ok(t) => {
            assert!(nonneg(t.forward) && nonneg(t.backward), "accepted threshold is negative");
            match v {
                Val::F(x) => {
                    assert!(!x.is_nan(), "accepted NaN");
                    assert!(x >= 0.0 && x != f64::INFINITY, "accepted a negative or infinite number");
                    assert!(t.forward.is_some() && t.forward == t.backward, "single number limits both directions equally");
                    if x >= 1.0 {
                        assert!(th::dur_raw(t.forward.unwrap()) >= 1 << 32);
                    }
                    kani::cover!(x > 1e300, "huge finite value accepted (saturates)");
                    kani::cover!(x == 0.0 && x.is_sign_negative(), "negative zero accepted as zero");
                }
                Val::I(x) => assert!(x >= 0 && t.forward.is_some() && t.forward == t.backward),
                Val::U(_) => assert!(t.forward.is_some() && t.forward == t.backward),
                Val::S(s) => assert!(s == *b"inf" && t.forward.is_none() && t.backward.is_none()),
            }
        }
        Err(_) => {
            // completeness: safe values are not rejected
            match v {
                Val::F(x) => assert!(x.is_nan() || x < 0.0 || x == f64::INFINITY, "rejected a valid threshold"),
                Val::I(x) => assert!(x < 0),
                Val::U(_) => assert!(false, "rejected an unsigned integer"),
                Val::S(s) => assert!(s != *b"inf"),
            }
            kani::cover!(matches!(v, Val::F(x) if x.is_nan()), "NaN rejected");
            kani::cover!(matches!(v, Val::F(x) if x == f64::NEG_INFINITY), "-inf rejected");
            kani::cover!(matches!(v, Val::F(x) if x < 0.0 && x > -1e-300), "tiny negative rejected");
        }
    }
}

// ------------------------------------------------------------------------------ per direction
const KEYS: [&str; 3] = ["forward", "backward", "sideways"];

/// Keys are concrete per harness (symbolic keys made `String` comparison plus two float
/// conversions exceed 12 GB in CBMC); values are symbolic.
fn run_map<const N: usize>(k: [u8; N], v: [Val; N]) -> Result<StepThreshold, E0> {
    let entries: [(&'static str, Val); N] = std::array::from_fn(|i| (KEYS[k[i] as usize], v[i]));
    let md = MapDeserializer::<_, E0>::new(entries.into_iter());
    StepThreshold::deserialize(md)
}

fn check_map<const N: usize>(k: [u8; N], v: [Val; N]) -> Option<StepThreshold> {
    let n = N;
    let res = run_map(k, v);
    match res {
        Ok(t) => {
            let mut fwd = None;
            let mut bwd = None;
            let mut i = 0;
            while i < n {
                assert!(k[i] <= 1, "unknown key accepted");
                if k[i] == 0 {
                    assert!(fwd.is_none(), "duplicate forward accepted");
                    fwd = Some(v[i]);
                } else {
                    assert!(bwd.is_none(), "duplicate backward accepted");
                    bwd = Some(v[i]);
                }
                i += 1;
            }
            part_ok(t.forward, fwd);
            part_ok(t.backward, bwd);
            Some(t)
        }
        Err(_) => {
            // completeness: distinct known keys with safe values are accepted
            let shape_ok = (n == 0 || k[0] <= 1) && (n < 2 || (k[1] <= 1 && k[1] != k[0]));
            let mut vals_ok = true;
            let mut i = 0;
            while i < n {
                vals_ok = vals_ok
                    && match v[i] {
                        Val::S(s) => s == *b"inf",
                        other => !val_unsafe(other) && !val_posinf(other),
                    };
                i += 1;
            }
            assert!(!(shape_ok && vals_ok), "well-formed per-direction threshold rejected");
            None
        }
    }
}

/// Every scalar, including NaN, negatives and infinities (which must be rejected; the
/// per-direction form accepted them before /repo cf1802a).
fn any_scalar() -> Val {
    any_val()
}

/// `{ forward = v }` for every scalar v.
#[kani::proof]
#[kani::unwind(10)]
fn c39_map_forward() {
    let v = any_scalar();
    let r = check_map([0], [v]);
    kani::cover!(matches!(r, Some(t) if t.forward.is_some() && t.backward.is_none()), "forward limited, backward unlimited");
    kani::cover!(matches!(r, Some(t) if t.forward.is_none()), "forward = \"inf\"");
    kani::cover!(r.is_none(), "rejected (bad string or unsafe number)");
}

/// `{ backward = v }` for every scalar v.
#[kani::proof]
#[kani::unwind(10)]
fn c39_map_backward() {
    let v = any_scalar();
    let r = check_map([1], [v]);
    kani::cover!(matches!(r, Some(t) if t.backward.is_some() && t.forward.is_none()), "backward limited, forward unlimited");
    kani::cover!(r.is_none(), "rejected (bad string or unsafe number)");
}

/// `{ sideways = v }` is rejected; `{}` is accepted as unlimited.
#[kani::proof]
#[kani::unwind(10)]
fn c39_map_unknown_empty() {
    let v = any_scalar();
    let r = check_map([2], [v]);
    assert!(r.is_none(), "unknown key accepted");
    let e = check_map([], []);
    assert!(matches!(e, Some(t) if t.forward.is_none() && t.backward.is_none()), "empty map = unlimited");
}

/// Float or string value (the integer kinds go through the same `visit_f64` and are covered by the
/// one-entry harnesses; two full scalars per harness cost > 200 s).
fn any_float_or_str() -> Val {
    let f: f64 = kani::any();
    let s: [u8; 3] = kani::any();
    kani::assume(s[0] < 0x80 && s[1] < 0x80 && s[2] < 0x80);
    if kani::any() { Val::F(f) } else { Val::S(s) }
}

/// `{ forward = a, backward = b }`.
#[kani::proof]
#[kani::unwind(10)]
fn c39_map_two_fb() {
    let v = [any_float_or_str(), any_float_or_str()];
    let r = check_map([0, 1], v);
    kani::cover!(matches!(r, Some(t) if t.forward.is_some() && t.backward.is_some()), "both limited");
    kani::cover!(matches!(r, Some(t) if t.forward.is_none() && t.backward.is_some()), "forward unlimited, backward limited");
}
/// `{ backward = a, forward = b }`.
#[kani::proof]
#[kani::unwind(10)]
fn c39_map_two_bf() {
    let v = [any_float_or_str(), any_float_or_str()];
    let r = check_map([1, 0], v);
    kani::cover!(matches!(r, Some(t) if t.forward.is_some() && t.backward.is_some()), "both limited");
}

/// Duplicate keys are rejected whatever the values.
#[kani::proof]
#[kani::unwind(10)]
fn c39_map_dup_forward() {
    let v = [any_float_or_str(), any_float_or_str()];
    let r = check_map([0, 0], v);
    assert!(r.is_none(), "duplicate key accepted");
}
#[kani::proof]
#[kani::unwind(10)]
fn c39_map_dup_backward() {
    let v = [any_float_or_str(), any_float_or_str()];
    let r = check_map([1, 1], v);
    assert!(r.is_none(), "duplicate key accepted");
}

/// Formerly the known-finding twin (fixed by /repo cf1802a): a per-direction value that is NaN,
/// negative or infinite (f64 or integer) must be rejected.
#[kani::proof]
#[kani::unwind(10)]
fn c39_map_unvalidated_part() {
    let f: f64 = kani::any();
    let i: i64 = kani::any();
    let v = if kani::any() { Val::F(f) } else { Val::I(i) };
    kani::assume(val_unsafe(v) || val_posinf(v));
    let r = if kani::any() { check_map([0], [v]) } else { check_map([1], [v]) };
    assert!(r.is_none(), "unsafe per-direction threshold accepted");
    kani::cover!(matches!(v, Val::F(x) if x.is_nan()), "NaN rejected");
    kani::cover!(matches!(v, Val::F(x) if x == f64::INFINITY), "+inf rejected");
    kani::cover!(matches!(v, Val::I(x) if x == -1), "-1 rejected");
}

// ------------------------------------------------------------------------------ plain durations
/// `NtpDuration` fields (accumulated-step-panic-threshold, meddling-threshold): every f64.
#[kani::proof]
#[kani::unwind(6)]
fn c39_duration() {
    let x: f64 = kani::any();
    let which: bool = kani::any();
    if which {
        match NtpDuration::deserialize(F64Deserializer::<E0>::new(x)) {
            Ok(d) => {
                assert!(x.is_finite(), "accepted a non-finite duration");
                assert!((th::dur_raw(d) < 0) == (x < 0.0) || th::dur_raw(d) == 0, "sign preserved");
                kani::cover!(x < 0.0, "negative duration accepted (plain durations are signed)");
            }
            Err(_) => assert!(!x.is_finite(), "rejected a finite duration"),
        }
    } else {
        match ch::accumulated_step_panic_threshold(F64Deserializer::<E0>::new(x)) {
            Ok(None) => assert!(x.is_finite() && x.abs() < 1.0, "only (near-)zero disables the accumulated threshold"),
            Ok(Some(d)) => {
                assert!(x.is_finite() && x != 0.0, "zero means disabled; non-finite rejected");
                assert!(th::dur_raw(d) != 0);
                kani::cover!(th::dur_raw(d) < 0, "negative accumulated threshold accepted (fails closed: every step exceeds it)");
                kani::cover!(th::dur_raw(d) == i64::MAX, "saturated");
            }
            Err(_) => assert!(!x.is_finite()),
        }
    }
}
