#!/bin/bash
# Run every registered check once (tier from $1, default quick) on the current tree; summary in /verif/.cache/run_all.<tier>.log
# The thorough tier writes its evidence to /verif/evidence/thorough/ so that /verif/evidence/<id>.json stays the quick-tier evidence.
tier=${1:-quick}
cd /verif
out=/verif/.cache/run_all.$tier.log
: > $out
if [ "$tier" = thorough ]; then mkdir -p /verif/evidence/thorough; export VERIF_EVIDENCE_DIR=/verif/evidence/thorough; fi
for id in ${2:-$(python3 -c "import sys; sys.path.insert(0,'lib'); import registry; print(' '.join(sorted(registry.PROPS)))")}; do
  s=$(date +%s)
  ./check $id --tier $tier > /verif/.cache/run_all.$id.$tier.txt 2>&1
  rc=$?
  echo "$id rc=$rc $(( $(date +%s) - s ))s" | tee -a $out
done
