//! Kani harnesses (external crate, path dependency on /repo).
#![feature(allocator_api)]
#![allow(unused, static_mut_refs)]
#[path = "/verif/harness/common/stubs.rs"]
pub mod stubs;
#[path = "/verif/harness/common/util.rs"]
#[macro_use]
pub mod util;
pub mod common;
#[cfg(kani)]
mod c26;
#[cfg(kani)]
mod c27;
