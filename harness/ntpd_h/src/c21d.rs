//! Harnesses for property C21 (see /verif/properties.jsonl).
use crate::stubs;
