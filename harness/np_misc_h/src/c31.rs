//! C31 IP filters match exactly the configured subnets.
//!
//! Oracle (from the property text): an address is listed iff there is a configured subnet of the
//! same (canonical) family whose first `mask` bits equal the first `mask` bits of the address.
//! IPv4-mapped IPv6 query addresses (`::ffff:a.b.c.d`) count as the IPv4 address `a.b.c.d`.
//! Subnets are in the canonical form `IpSubnet::from_str` produces (an IPv4-mapped IPv6 subnet is
//! stored as IPv4; `c31_parse_*` checks the mask rule), masks within the family's width.
//!
//! Tractability: `BitTree::fill_node` is recursive with 16 guarded call sites per level. Any
//! symbolic bit in a subnet address or mask makes the guards symbolic, and symbolic execution
//! then instantiates 16^depth copies (measured: two concrete addresses with symbolic masks ran
//! out of 8 GB). The subnet lists are therefore *concrete* (enumerated systematically inside each
//! harness: every mask, nested pairs, sibling blocks that tile their parent, pseudo-random pairs),
//! and "listed iff in some subnet" is proved for **every** query address (all 2^32 IPv4 addresses
//! in plain and IPv4-mapped form, all 2^128 IPv6 addresses) against each list.
use crate::stubs;
use ntp_proto::IpSubnet;
use ntp_proto::verif::ipfilter as h;
use std::net::{IpAddr, Ipv4Addr, Ipv6Addr};

fn in4(net: u32, mask: u8, a: u32) -> bool {
    // first `mask` bits equal; mask 0 matches everything
    if mask == 0 { true } else { ((net ^ a) >> (32 - mask as u32)) == 0 }
}
fn in6(net: u128, mask: u8, a: u128) -> bool {
    if mask == 0 { true } else { ((net ^ a) >> (128 - mask as u32)) == 0 }
}
fn v4(a: u32) -> IpAddr {
    IpAddr::V4(Ipv4Addr::from(a))
}
fn v6(a: u128) -> IpAddr {
    IpAddr::V6(Ipv6Addr::from(a))
}
const MAPPED: u128 = 0xffff_0000_0000;
fn is_mapped(a: u128) -> bool {
    (a >> 32) == 0xffff
}
fn mask4(m: u8) -> u32 {
    if m == 0 { 0 } else { u32::MAX << (32 - m as u32) }
}
fn mask6(m: u8) -> u128 {
    if m == 0 { 0 } else { u128::MAX << (128 - m as u32) }
}

/// One concrete list of n <= 2 IPv4 subnets against every query address.
fn case4(n: usize, nets: [u32; 2], masks: [u8; 2]) {
    let q: u32 = kani::any();
    let q6: u128 = kani::any();
    let subnets = [IpSubnet { addr: v4(nets[0]), mask: masks[0] }, IpSubnet { addr: v4(nets[1]), mask: masks[1] }];
    let f = h::filter_new(&subnets[..n]);
    let want = (n >= 1 && in4(nets[0], masks[0], q)) || (n >= 2 && in4(nets[1], masks[1], q));
    let got = h::filter_is_in(&f, v4(q));
    assert!(got == want, "IPv4 address listed iff in some configured IPv4 subnet");
    let got_mapped = h::filter_is_in(&f, v6(MAPPED | q as u128));
    assert!(got_mapped == want, "IPv4-mapped IPv6 address is matched as its IPv4 address");
    if !is_mapped(q6) {
        assert!(!h::filter_is_in(&f, v6(q6)), "a proper IPv6 address is never listed by IPv4 subnets");
    }
    kani::cover!(got && n == 2 && !in4(nets[0], masks[0], q), "listed through the second subnet only");
    kani::cover!(!got && n >= 1, "not listed");
    kani::cover!(got, "listed");
}

/// One concrete list of n <= 2 (proper) IPv6 subnets against every query address.
fn case6(n: usize, nets: [u128; 2], masks: [u8; 2]) {
    let q: u128 = kani::any();
    let q4: u32 = kani::any();
    let subnets = [IpSubnet { addr: v6(nets[0]), mask: masks[0] }, IpSubnet { addr: v6(nets[1]), mask: masks[1] }];
    let f = h::filter_new(&subnets[..n]);
    if !is_mapped(q) {
        let want = (n >= 1 && in6(nets[0], masks[0], q)) || (n >= 2 && in6(nets[1], masks[1], q));
        let got = h::filter_is_in(&f, v6(q));
        assert!(got == want, "IPv6 address listed iff in some configured IPv6 subnet");
        kani::cover!(got && n == 2 && !in6(nets[0], masks[0], q), "listed through the second subnet only");
        kani::cover!(!got && n >= 1, "not listed");
        kani::cover!(got, "listed");
    }
    // IPv4 (plain or mapped) query addresses are canonically IPv4: never in an IPv6 subnet.
    assert!(!h::filter_is_in(&f, v4(q4)), "IPv4 address never listed by IPv6 subnets");
    assert!(!h::filter_is_in(&f, v6(MAPPED | q4 as u128)), "IPv4-mapped address never listed by IPv6 subnets");
}

/// Deterministic pseudo-random generator for concrete configurations (xorshift64*).
fn next_rand(s: &mut u64) -> u64 {
    *s ^= *s >> 12;
    *s ^= *s << 25;
    *s ^= *s >> 27;
    s.wrapping_mul(0x2545_F491_4F6C_DD1D)
}

// ------------------------------------------------------------------------------------- IPv4
fn v4_single(lo: u8, hi: u8) {
    let mut m = lo;
    while m <= hi {
        case4(1, [0xc0a8_01a5, 0], [m, 0]);
        m += 1;
    }
}
/// Empty list and one subnet 192.168.1.165/m for every m in 0..=32.
#[kani::proof]
#[kani::unwind(40)]
fn c31_v4_single() {
    case4(0, [0, 0], [0, 0]);
    v4_single(0, 32);
}

fn v4_nested(m1s: &[u8], m2s: &[u8]) {
    let mut i = 0;
    while i < m1s.len() {
        let mut j = 0;
        while j < m2s.len() {
            // both list orders
            case4(2, [0xc0a8_0100, 0xc0a8_01a5], [m1s[i], m2s[j]]);
            case4(2, [0xc0a8_01a5, 0xc0a8_0100], [m2s[j], m1s[i]]);
            j += 1;
        }
        i += 1;
    }
}
/// Nested / overlapping pairs 192.168.1.0/m1 and 192.168.1.165/m2.
#[kani::proof]
#[kani::unwind(40)]
fn c31_v4_nested() {
    v4_nested(&[0, 16, 23, 24], &[24, 25, 27, 28, 29, 32]);
}

/// Two sibling blocks of size /m tile their /(m-1) parent; a /m block next to a /(m+1) block
/// leaves a quarter uncovered (coverage merging and child indexing in the trie).
fn v4_siblings(lo: u8, hi: u8) {
    let base = 0x0a5a_c3f0u32;
    let mut m = lo;
    while m <= hi {
        let n1 = base & mask4(m);
        let n2 = n1 ^ (1u32 << (32 - m as u32));
        case4(2, [n1, n2], [m, m]);
        if m < 32 {
            case4(2, [n2, n1], [m + 1, m]);
        }
        m += 1;
    }
}
#[kani::proof]
#[kani::unwind(40)]
fn c31_v4_siblings() {
    v4_siblings(1, 32);
}

fn v4_random(seed: u64, count: usize) {
    let mut s = seed;
    let mut i = 0;
    while i < count {
        let a = next_rand(&mut s);
        let b = next_rand(&mut s);
        let n1 = a as u32;
        // the second subnet shares a pseudo-random-length prefix with the first
        let share = ((b >> 40) % 33) as u8;
        let n2 = (n1 & mask4(share)) | (b as u32 & !mask4(share));
        let m1 = ((a >> 32) % 33) as u8;
        let m2 = ((b >> 32) % 33) as u8;
        case4(2, [n1, n2], [m1, m2]);
        i += 1;
    }
}
#[kani::proof]
#[kani::unwind(40)]
fn c31_v4_random() {
    v4_random(0x9E37_79B9_7F4A_7C15, 24);
}
/// Thorough: every pair of masks for the nested pair (33 x 33 x 2 orders).
#[kani::proof]
#[kani::unwind(40)]
fn c31_v4_nested_all() {
    let all: [u8; 33] = std::array::from_fn(|i| i as u8);
    v4_nested(&all, &all);
}
#[kani::proof]
#[kani::unwind(300)]
fn c31_v4_random_more() {
    v4_random(0xD1B5_4A32_D192_ED03, 256);
}

// ------------------------------------------------------------------------------------- IPv6
const V6_A: u128 = 0x2001_0db8_85a3_08d3_1319_8a2e_0370_7344;

fn v6_single(ms: &[u8]) {
    let mut i = 0;
    while i < ms.len() {
        case6(1, [V6_A, 0], [ms[i], 0]);
        i += 1;
    }
}
/// Empty list and one subnet 2001:db8:85a3:8d3:1319:8a2e:370:7344/m for selected m.
#[kani::proof]
#[kani::unwind(40)]
fn c31_v6_single() {
    case6(0, [0, 0], [0, 0]);
    v6_single(&[0, 1, 3, 4, 5, 8, 16, 31, 32, 33, 64, 96, 124, 127, 128]);
}

fn v6_siblings(lo: u8, hi: u8) {
    let mut m = lo;
    while m <= hi {
        let n1 = V6_A & mask6(m);
        let n2 = n1 ^ (1u128 << (128 - m as u32));
        case6(2, [n1, n2], [m, m]);
        if m < 128 {
            case6(2, [n2, n1], [m + 1, m]);
        }
        m += 1;
    }
}
#[kani::proof]
#[kani::unwind(40)]
fn c31_v6_siblings_low() {
    v6_siblings(1, 16);
}
#[kani::proof]
#[kani::unwind(40)]
fn c31_v6_siblings_high() {
    v6_siblings(120, 128);
}

fn v6_random(seed: u64, count: usize, mlo: u8, mspan: u64) {
    let mut s = seed;
    let mut i = 0;
    while i < count {
        let a = next_rand(&mut s);
        let b = next_rand(&mut s);
        let c = next_rand(&mut s);
        let d = next_rand(&mut s);
        let n1 = ((a as u128) << 64) | b as u128 | (0x2000u128 << 112);
        let m1 = mlo + ((c >> 32) % mspan) as u8;
        let m2 = mlo + ((d >> 32) % mspan) as u8;
        let share = ((c >> 8) % 129) as u8;
        let n2 = (n1 & mask6(share)) | ((((d as u128) << 64) | c as u128) & !mask6(share));
        case6(2, [n1, n2], [m1, m2]);
        i += 1;
    }
}
#[kani::proof]
#[kani::unwind(40)]
fn c31_v6_random() {
    v6_random(0x2545_F491_4F6C_DD1D, 8, 0, 129);
}
/// Thorough: every mask 0..=128 for one subnet, all sibling pairs, more pseudo-random pairs.
#[kani::proof]
#[kani::unwind(140)]
fn c31_v6_single_all() {
    let all: [u8; 129] = std::array::from_fn(|i| i as u8);
    v6_single(&all);
}
#[kani::proof]
#[kani::unwind(140)]
fn c31_v6_siblings_all() {
    v6_siblings(1, 128);
}
#[kani::proof]
#[kani::unwind(140)]
fn c31_v6_random_more() {
    v6_random(0x9E37_79B9_7F4A_7C15, 64, 0, 129);
}

// ------------------------------------------------------------------------------------- parsing
/// `IpSubnet::from_str("a.b.c.d/mm")` with symbolic decimal digits.
#[kani::proof]
#[kani::unwind(14)]
#[kani::stub(alloc::fmt::format, crate::stubs::fmt_format_stub)]
fn c31_parse_v4() {
    let d: [u8; 6] = kani::any();
    let mut i = 0;
    while i < 6 {
        kani::assume(d[i] >= b'0' && d[i] <= b'9');
        i += 1;
    }
    let text = [d[0], b'.', d[1], b'.', d[2], b'.', d[3], b'/', d[4], d[5]];
    let s = std::str::from_utf8(&text).unwrap();
    let mask = (d[4] - b'0') * 10 + (d[5] - b'0');
    let want_addr = (((d[0] - b'0') as u32) << 24) | (((d[1] - b'0') as u32) << 16) | (((d[2] - b'0') as u32) << 8) | ((d[3] - b'0') as u32);
    match s.parse::<IpSubnet>() {
        Ok(sub) => {
            assert!(mask <= 32, "accepted an IPv4 mask above 32");
            assert!(sub.mask == mask && sub.addr == v4(want_addr), "parsed value");
            kani::cover!(mask == 32, "accepted /32");
            kani::cover!(mask == 0, "accepted /0");
        }
        Err(_) => {
            assert!(mask > 32, "rejected a well-formed IPv4 subnet");
            kani::cover!(mask == 33, "rejected /33");
        }
    }
}
