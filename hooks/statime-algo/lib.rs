//! Verification hooks (guard: cargo feature `pendulum_project_ntpd_rs_verif`). Re-export plumbing only.
#![allow(missing_docs, unused_imports)]
pub use crate::estimator::vh_estimator as estimator;
pub use crate::filter::vh_filter as filter;
pub use crate::link_noise::vh_link_noise as link_noise;
pub use crate::matrix::vh_matrix as matrix;
pub use crate::storage::vh_storage as storage;
