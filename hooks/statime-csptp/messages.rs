//! Safe-Rust verification hooks for this module (accessors/wrappers only; no logic).
#![allow(missing_docs, unused_imports, dead_code)]
use super::*;
pub use super::tlvs::vh_messages_tlvs as tlvs;

// ---- statime_h (C44/C45): the CSPTP message classifier as the server/client see it
pub fn csptp_parse_kind(buffer: &[u8]) -> Option<(bool, bool)> {
    CsptpMessage::deserialize(buffer).ok().map(|m| (m.is_request(), m.is_response()))
}

// ---- statime_h (C45): the crate-private CsptpMessage behind an opaque wrapper, one thin wrapper per method
pub struct Msg<'a>(CsptpMessage<'a>);
pub fn msg_deserialize(buffer: &[u8]) -> Option<Msg<'_>> {
    CsptpMessage::deserialize(buffer).ok().map(Msg)
}
pub fn msg_is_request(m: &Msg<'_>) -> bool {
    m.0.is_request()
}
pub fn msg_is_response(m: &Msg<'_>) -> bool {
    m.0.is_response()
}
pub fn msg_new_response<'a>(
    buffer: &'a mut [u8],
    request: &Msg<'_>,
    recv_timestamp: Timestamp,
    send_timestamp: Option<Timestamp>,
    time_snapshot: &TimeSnapshot,
    csptp_state: &CsptpState,
) -> Option<Msg<'a>> {
    CsptpMessage::new_response(buffer, &request.0, recv_timestamp, send_timestamp, time_snapshot, csptp_state).ok().map(Msg)
}
pub fn msg_new_follow_up(response: &Msg<'_>, send_timestamp: Timestamp) -> Option<Msg<'static>> {
    CsptpMessage::new_follow_up(&response.0, send_timestamp).ok().map(Msg)
}
pub fn msg_new_request(buffer: &mut [u8], domain_number: u8, sequence_id: u16) -> Option<Msg<'_>> {
    CsptpMessage::new_request(buffer, domain_number, sequence_id).ok().map(Msg)
}
pub fn msg_serialize(m: &Msg<'_>, out: &mut [u8]) -> Option<usize> {
    m.0.serialize(out).ok()
}
pub fn msg_message<'a, 'b>(m: &'b Msg<'a>) -> &'b Message<'a> {
    &m.0.message
}
