KS = "np_keyset_h"
_model = ("ideal AEAD (INT-CTXT) for the cookie keys: encrypt writes nonce||plaintext||tag with arbitrary 16-byte nonce and tag and logs "
          "(key bytes, nonce, plaintext||tag); decrypt succeeds iff (key bytes, nonce, ciphertext) is exactly the logged triple and aad is empty. "
          "One logged encryption per run. The stub does not branch on that outcome: each harness states the expected outcome "
          "(expect-ok / expect-err) and the stub ASSERTS the log agrees before returning it, so a wrong expectation is a failed check. "
          "Confidentiality is not modelled (ciphertext = plaintext).")
PROP = dict(
    functions=[
        "ntp_proto::keyset::KeySet::{encode_cookie, decode_cookie}",
        "ntp_proto::keyset::KeySetProvider::{new, rotate, get}",
        "ntp_proto::keyset::DecodedServerCookie::plaintext",
        "ntp_proto::packet::crypto::{AesSivCmac256::try_from, AesSivCmac512::try_from, key_size, new, key_bytes}",
    ],
    bounds="rotation of over-full providers (n keys, history h < n-1, as produced by load with a lowered stale-key count): (n,h) in {(4,1),(3,0)} quick, {(4,2),(4,0),(3,1),(2,0)} thorough, issuing key p symbolic, arbitrary id offset; history h in 0..=3; up to 5 rotations from a one-key set with ARBITRARY u32 id offset (wrap-around included); h in 0..=2: issuing snapshot i and decoding "
           "snapshot j both symbolic in 0..=5 (thorough); h in 0..=3: straight-line life of one cookie issued after 1 rotation, presented after each of the next h+1 rotations "
           "and to the previous key set (h=1 quick, others thorough); all session key bytes, cookie key bytes, "
           "nonces and tags symbolic; both AEAD algorithms for the round trip; tampering: any single byte position inside the declared length XOR any non-zero mask, "
           "key set with two valid keys; unknown ids: all 2^32-2 ids outside a two-key window; unframed input: every byte string of length <= 40",
    outside="confidentiality of the cookie contents (not expressible; the AES-SIV primitive itself, crate aes-siv, is not analysed); multi-byte modifications "
            "(follow from the model the same way but are not enumerated); h > 3 and more than 5 rotations; fully symbolic (i, j) for h = 3 (c26_rotate_h3 exists in c26.rs but is not registered: 543 s symex, > 6 GB in the solver); history = usize::MAX (history + 1 overflows: dev-profile panic, release wraps harmlessly); "
            "bytes after the declared length are ignored by decode_cookie by design (test can_decode_cookie_with_padding); CipherProvider::get (more than one cookie field) belongs to C19",
    assumptions=[
        "freshly generated cookie keys are pairwise different (they differ in their first 8 bytes) - used by the tamper/foreign-key/rotation harnesses",
        _model,
        "rotation/window harnesses use the try_from SPECIFICATION (Ok with exactly these key bytes iff length == key size) in place of AesSivCmac256/512::try_from; "
        "c26_key_try_from_256/512 prove the real functions equal to it for every input length <= 40 / <= 72 and for the [u8; 64] instantiation",
    ],
    stub_notes=[
        "<AesSivCmac512 as Cipher>::{encrypt,decrypt}: " + _model,
        "<AesSivCmac256 as Cipher>::{encrypt,decrypt}: panic (only reachable through the vtable of Box<dyn Cipher>; key-set code only calls key_bytes on session keys)",
        "AesSivCmac512::new_random: n-th call returns the n-th ghost key (arbitrary, pairwise different)",
        "zeroize::barrier::optimization_barrier: no-op (inline asm compiler barrier); zeroize::volatile_set: plain memset (volatile per-byte loop)",
        "Cargo.toml of the harness crate: no-assertion-reach-checks (JSON traces of reach checks exhaust memory), cbmc --max-field-sensitivity-array-size 200",
    ],
    harnesses=[
        H(KS, "c26", "c26_roundtrip_256", "decode(encode(x)) == x, AES-SIV-CMAC-256 session keys, arbitrary id offset (real try_from)", timeout=600),
        H(KS, "c26", "c26_tamper", "any one-byte modification inside the declared length is rejected (256 cookie, two valid keys)", timeout=600),
        H(KS, "c26", "c26_unknown_id", "a cookie with any key id outside the window is rejected without trying a key", timeout=600),
        H(KS, "c26", "c26_foreign_key", "a cookie made with other key material under the same id is rejected", timeout=600),
        H(KS, "c26", "c26_short", "every input of <= 40 bytes is rejected without panic", timeout=600),
        H(KS, "c26", "c26_new", "KeySetProvider::new(h): one fresh key, id offset 0, primary 0, any history", timeout=600),
        H(KS, "c26", "c26_window_h1", "h=1: cookie issued after 1 rotation decodes for 1 more rotation, rejected after 2; newest key used; id = offset+i", timeout=600),
        H(KS, "c26", "c26_rotate_shrunk", "provider with 4 keys and history 1 (loaded with a lowered stale-key count): one rotation drops 3 keys; cookie of key p decodes iff retained, ids stable, new id = old primary id + 1", timeout=600),
        H(KS, "c26", "c26_rotate_shrunk_n3h0", "3 keys, history 0: rotation drops all old keys, every old cookie rejected, new id = old primary id + 1", timeout=600),
        H(KS, "c26", "c26_key_try_from_256", "AesSivCmac256::try_from == specification for all lengths <= 40", timeout=600),
        H(KS, "c26", "c26_roundtrip_512", "decode(encode(x)) == x, AES-SIV-CMAC-512 session keys", tier="thorough"),
        H(KS, "c26", "c26_tamper_512", "one-byte tampering rejected (512 cookie)", tier="thorough"),
        H(KS, "c26", "c26_key_try_from_512", "AesSivCmac512::try_from == specification for all slice lengths <= 72 and for [u8; 64]", tier="thorough"),
        H(KS, "c26", "c26_rotate_shrunk_n4h2", "4 keys, history 2: rotation drops 2", tier="thorough"),
        H(KS, "c26", "c26_rotate_shrunk_n4h0", "4 keys, history 0: rotation drops 4", tier="thorough"),
        H(KS, "c26", "c26_rotate_shrunk_n3h1", "3 keys, history 1: rotation drops 2", tier="thorough"),
        H(KS, "c26", "c26_rotate_shrunk_n2h0", "2 keys, history 0: rotation drops 2", tier="thorough"),
        H(KS, "c26", "c26_window_h0", "h=0 straight-line window", tier="thorough"),
        H(KS, "c26", "c26_window_h2", "h=2 straight-line window", tier="thorough"),
        H(KS, "c26", "c26_window_h3", "h=3 straight-line window (5 rotations)", tier="thorough"),
        H(KS, "c26", "c26_rotate_h0", "h=0, 5 rotations, symbolic issue/decode snapshots: decodes iff i <= j <= i+h", tier="thorough"),
        H(KS, "c26", "c26_rotate_h1", "h=1, 5 rotations, symbolic issue/decode snapshots", tier="thorough"),
        H(KS, "c26", "c26_rotate_h2", "h=2, 5 rotations, symbolic issue/decode snapshots", tier="thorough"),
    ],
)
