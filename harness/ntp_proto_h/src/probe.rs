//! Probes for the shared stubs (not registered for any property).
use crate::stubs;
use ntp_proto::verif::source as sh;
use ntp_proto::*;
use std::net::{IpAddr, Ipv4Addr, SocketAddr};
use std::sync::Arc;

pub struct RecCtl {
    pub desired: PollInterval,
    pub n_meas: u8,
    pub usable: Option<bool>,
}
impl SourceController for RecCtl {
    fn handle_measurement(&mut self, _m: Measurement) {
        self.n_meas += 1;
    }
    fn set_usable(&mut self, usable: bool) {
        self.usable = Some(usable);
    }
    fn desired_poll_interval(&self) -> PollInterval {
        self.desired
    }
    fn observe(&self) -> ObservableSourceTimedata {
        ObservableSourceTimedata::default()
    }
}

harness! {
    #[kani::unwind(12)]
    #[kani::stub(std::collections::HashMap::insert, crate::stubs::hashmap_insert_noop)]
    fn probe_handle_timer() {
        stubs::symbolic_clock();
        stubs::symbolic_rng();
        let cfg = SourceConfig::default();
        let mut src = sh::new_source(
            SocketAddr::new(IpAddr::V4(Ipv4Addr::new(10, 0, 0, 1)), 123),
            cfg,
            ProtocolVersion::V4,
            RecCtl { desired: PollInterval::default(), n_meas: 0, usable: None },
            None,
            sh::clock_id(7),
            Arc::from(Vec::<IpAddr>::new()),
            ntp_proto::verif::packet::v5::server_reference_id::server_id_from_raw([1,2,3,4,5,6,7,8,9,10]),
            16,
        );
        let mut it = src.handle_timer();
        let first = it.next();
        match first {
            Some(NtpSourceAction::Send(p)) => {
                assert!(p.len() == 48);
                assert!(p[0] == 0x23);
                kani::cover!(p[40] == 0xAB, "random origin byte reachable");
            }
            _ => assert!(false, "expected send"),
        }
    }
}
