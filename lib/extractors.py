"""Source extractors: syntactic side conditions regenerated from /repo's text on every run.
Each returns dict(name, state in pass|fail|inconclusive, detail)."""
import os
import re

REPO = "/repo"
