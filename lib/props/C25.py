NP = "np_packet_h"
_REQ = [("header", "0..48"), ("uid_hdr", "48..52"), ("uid_body", "52..84"), ("cookie_hdr", "84..88"), ("cookie_body", "88..104"),
        ("auth_words", "104..112"), ("auth_body", "112..144"), ("trailer", "144..148")]
_RESP = [("header", "0..48"), ("uid_hdr", "48..52"), ("uid_body", "52..84"), ("auth_words", "84..92"), ("auth_body", "92..144"), ("trailer", "144..148")]
PROP = dict(
    functions=[
        "ntp_proto::packet::NtpPacket::{nts_poll_message, serialize<ModelCipher>, deserialize<ModelCipher>}",
        "ntp_proto::packet::extension_fields::{ExtensionFieldData::{serialize,deserialize}, ExtensionField::encode_encrypted, RawEncryptedField::{from_message_bytes,decrypt}}",
    ],
    bounds="NTPv4. Request = NtpPacket::nts_poll_message(16-byte cookie, 1 cookie) with arbitrary unique id / transmit timestamp / cookie bytes; response = arbitrary v4 server header + 32-byte unique id (authenticated) + 16-byte new cookie (encrypted); both encoded by the real serializer with the ideal-AEAD ModelCipher (arbitrary nonce and tag), followed by 4 arbitrary trailer bytes (148 bytes). Tampering: XOR of an arbitrary non-zero mask (all 255, i.e. every single-bit and single-byte change) into the byte at an arbitrary position, one harness per region.",
    outside="real AES-SIV (idealised, DESIGN 2.6); NTPv5 NTS packets; requests with placeholders; server-side cookie recovery through KeySet (the returned cookie is observed to be None with client keys; KeySet::get/decode_cookie are exercised by C23/C26); changes of more than one byte",
    assumptions=["ideal AEAD: decrypt succeeds iff key, associated data, nonce and ciphertext||tag are exactly what encrypt recorded"],
    stub_notes=[
        "common::ModelCipher implements the public Cipher trait (no #[kani::stub]); ghost log of the one encryption per key",
        "rand::thread_rng via the standard ghost tape (symbolic): unique id and transmit timestamp of the request are arbitrary",
        "hooks: packet_from_parts (response), packet_authenticated/encrypted/untrusted getters",
    ],
    harnesses=[H(NP, "c25", "c25_req_" + n, "request, tampered byte in %s" % r, tier=("quick" if n in ("uid_body", "auth_body", "trailer") else "thorough"), timeout=400) for n, r in _REQ]
    + [H(NP, "c25", "c25_resp_" + n, "response, tampered byte in %s" % r, tier=("quick" if n in ("auth_body",) else "thorough"), timeout=400) for n, r in _RESP],
)
