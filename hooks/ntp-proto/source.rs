//! Safe-Rust verification hooks for `source` (accessors/wrappers only; no logic).
#![allow(unused_imports, dead_code, clippy::too_many_arguments)]
use super::*;

/// Plain copy of the private scalar state of an `NtpSource`.
#[derive(Debug, Clone, Copy, PartialEq, Eq)]
pub struct SourceState {
    pub last_poll_interval: PollInterval,
    pub remote_min_poll_interval: PollInterval,
    pub pending: bool,
    pub have_deny_rstr_response: bool,
    pub stratum: u8,
    pub reference_id: ReferenceId,
    pub source_id: ReferenceId,
    pub reach: u8,
    pub tries: usize,
    pub protocol_version: ProtocolVersion,
    pub cookies: Option<usize>,
}

pub fn state<C: SourceController>(s: &NtpSource<C>) -> SourceState {
    SourceState {
        last_poll_interval: s.last_poll_interval,
        remote_min_poll_interval: s.remote_min_poll_interval,
        pending: s.current_request_identifier.is_some(),
        have_deny_rstr_response: s.have_deny_rstr_response,
        stratum: s.stratum,
        reference_id: s.reference_id,
        source_id: s.source_id,
        reach: s.reach.0,
        tries: s.tries,
        protocol_version: s.protocol_version,
        cookies: s.nts.as_ref().map(|n| n.cookies.len()),
    }
}

pub fn set_last_poll_interval<C: SourceController>(s: &mut NtpSource<C>, v: PollInterval) {
    s.last_poll_interval = v;
}
pub fn set_remote_min_poll_interval<C: SourceController>(s: &mut NtpSource<C>, v: PollInterval) {
    s.remote_min_poll_interval = v;
}
pub fn set_have_deny<C: SourceController>(s: &mut NtpSource<C>, v: bool) {
    s.have_deny_rstr_response = v;
}
pub fn set_stratum<C: SourceController>(s: &mut NtpSource<C>, v: u8) {
    s.stratum = v;
}
pub fn set_reference_id<C: SourceController>(s: &mut NtpSource<C>, v: ReferenceId) {
    s.reference_id = v;
}
pub fn set_reach<C: SourceController>(s: &mut NtpSource<C>, v: u8) {
    s.reach = Reach(v);
}
pub fn set_tries<C: SourceController>(s: &mut NtpSource<C>, v: usize) {
    s.tries = v;
}
pub fn set_protocol_version<C: SourceController>(s: &mut NtpSource<C>, v: ProtocolVersion) {
    s.protocol_version = v;
}
/// pending request: expected origin timestamp (V3/V4) or client cookie (V5, same field), uid, deadline
pub fn set_pending<C: SourceController>(
    s: &mut NtpSource<C>,
    v: Option<(NtpTimestamp, Option<[u8; 32]>, tokio::time::Instant)>,
) {
    s.current_request_identifier = v.map(|(t, uid, deadline)| (crate::packet::verif_hooks::request_identifier(t, uid), deadline));
}
pub fn pending<C: SourceController>(s: &NtpSource<C>) -> Option<(NtpTimestamp, Option<[u8; 32]>, tokio::time::Instant)> {
    s.current_request_identifier.map(|(id, d)| {
        let (t, uid) = crate::packet::verif_hooks::request_identifier_parts(id);
        (t, uid, d)
    })
}
pub fn controller<C: SourceController>(s: &NtpSource<C>) -> &C {
    &s.controller
}
pub fn controller_mut<C: SourceController>(s: &mut NtpSource<C>) -> &mut C {
    &mut s.controller
}
pub fn nts_mut<C: SourceController>(s: &mut NtpSource<C>) -> Option<&mut SourceNtsData> {
    s.nts.as_deref_mut()
}
pub fn bloom_filter<C: SourceController>(s: &NtpSource<C>) -> &RemoteBloomFilter {
    &s.bloom_filter
}
pub fn bloom_filter_mut<C: SourceController>(s: &mut NtpSource<C>) -> &mut RemoteBloomFilter {
    &mut s.bloom_filter
}
pub fn published_snapshot<C: SourceController>(s: &NtpSource<C>) -> Option<NtpSourceSnapshot> {
    s.source_snapshots.lock().unwrap().get(&s.id).copied()
}

/// Direct constructor (same as `NtpManager::new_source`, with explicit shared state).
pub fn new_source<C: SourceController>(
    source_addr: SocketAddr,
    source_config: SourceConfig,
    protocol_version: ProtocolVersion,
    controller: C,
    nts: Option<Box<SourceNtsData>>,
    id: ClockId,
    local_ips: Arc<[IpAddr]>,
    server_id: ServerId,
    local_stratum: u8,
) -> NtpSource<C> {
    let info = NtpSourceInfo { ip_list: local_ips, server_id, local_stratum };
    NtpSource::new(
        source_addr,
        source_config,
        protocol_version,
        controller,
        nts,
        id,
        Arc::new(RwLock::new(info)),
        Arc::new(Mutex::new(HashMap::new())),
    )
    .0
}

pub fn nts_data(cookies: Vec<Vec<u8>>, c2s: Box<dyn Cipher>, s2c: Box<dyn Cipher>) -> Box<SourceNtsData> {
    let mut stash = CookieStash::default();
    for c in cookies {
        stash.store(c);
    }
    Box::new(SourceNtsData { cookies: stash, c2s, s2c })
}
/// Build NTS data around an explicitly constructed stash (arbitrary read/valid positions).
pub fn nts_data_with_stash(stash: crate::cookiestash::verif_hooks::StashH, c2s: Box<dyn Cipher>, s2c: Box<dyn Cipher>) -> Box<SourceNtsData> {
    Box::new(SourceNtsData { cookies: stash.0, c2s, s2c })
}
pub fn nts_cookie_count(n: &SourceNtsData) -> usize {
    n.cookies.len()
}
pub fn nts_cookie_gap(n: &SourceNtsData) -> u8 {
    n.cookies.gap()
}
/// read-only view of the i-th oldest stored cookie
pub fn nts_peek_cookie(n: &SourceNtsData, i: usize) -> Option<&Vec<u8>> {
    if i < n.cookies.len() { Some(crate::cookiestash::verif_hooks::peek(&n.cookies, i)) } else { None }
}

pub fn reach_from_raw(v: u8) -> Reach {
    Reach(v)
}
pub fn reach_raw(r: Reach) -> u8 {
    r.0
}
pub fn reach_poll(r: &mut Reach) {
    r.poll();
}
pub fn reach_received(r: &mut Reach) {
    r.received_packet();
}
pub fn measurements_from_packet_hook(
    message: &NtpPacket,
    id: ClockId,
    send_time: NtpTimestamp,
    recv_time: NtpTimestamp,
) -> (Measurement, Measurement) {
    measurements_from_packet(message, id, send_time, recv_time)
}
pub fn clock_id(v: u64) -> ClockId {
    ClockId(v)
}
pub const POLL_WINDOW_SECS: u64 = POLL_WINDOW.as_secs();
pub const STARTUP_TRIES: usize = STARTUP_TRIES_THRESHOLD;

// ---- C33 (np_nts_h): name the (public, but not re-exported) used-source enum from outside.
pub use super::SourceSnapshot;
