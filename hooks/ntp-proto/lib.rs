//! Verification hooks (guard: cargo feature `pendulum_project_ntpd_rs_verif`).
//! Re-export plumbing only; no behaviour.
pub use crate::time_types::verif_hooks as time_types;
