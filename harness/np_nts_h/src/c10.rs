//! Harnesses for property C10 (see /verif/properties.jsonl):
//! poll exponents stay within configured and requested bounds, the next poll is scheduled between
//! 1.01 and 1.05 times the interval, the clock filter's desire stays within the configured limits.
use crate::common::*;
use crate::stubs;
use ntp_proto::verif::algorithm::kalman::source as kh;
use ntp_proto::verif::source as sh;
use ntp_proto::verif::time_types as th;
use ntp_proto::*;
use std::time::Duration;

fn cfg(min: i8, max: i8) -> SourceConfig {
    SourceConfig {
        poll_interval_limits: PollIntervalLimits { min: poll(min), max: poll(max) },
        initial_poll_interval: poll(min),
    }
}

/// Oracle for the timer: 1.01 * 2^e s - slack <= d <= 1.05 * 2^e s + slack (integer nanoseconds)
fn timer_in_window(d: Duration, e: u32, slack_ns: u128) -> bool {
    let ns = d.as_nanos();
    let lo = (1_010_000_000u128 << e) - slack_ns;
    let hi = (1_050_000_000u128 << e) + slack_ns;
    lo <= ns && ns <= hi
}

/// One `handle_timer` from an arbitrary state of the poll-related fields.
/// `remote_lo..=remote_hi`: range of the server-requested minimum (0..=17 = what RATE answers can
/// produce within the configured limits; 18..=127 = what an NTPv5 server may ask for).
fn c10_timer_body(version_sel: u8, remote_lo: i8, remote_hi: i8) -> Option<TimerObs> {
    stubs::symbolic_clock();
    sym_rng();
    let min: i8 = kani::any();
    let max: i8 = kani::any();
    kani::assume(0 <= min && min <= max && max <= 17);
    let desire: i8 = kani::any();
    kani::assume(min <= desire && desire <= max);
    let remote_min: i8 = kani::any();
    kani::assume(remote_lo <= remote_min && remote_min <= remote_hi);
    let last: i8 = kani::any();
    let reach: u8 = kani::any();
    let tries: usize = kani::any();
    kani::assume(tries <= 4);
    let tries_left: u8 = kani::any();

    let version = version_from(version_sel, tries_left);
    let mut src = new_source(version, cfg(min, max), poll(desire), None);
    sh::set_remote_min_poll_interval(&mut src, poll(remote_min));
    sh::set_last_poll_interval(&mut src, poll(last));
    sh::set_reach(&mut src, reach);
    sh::set_tries(&mut src, tries);

    let (acts, n) = collect_actions(src.handle_timer());
    let r = check_timer(&src, &acts, n, min, max, desire, remote_min, reach, tries);
    core::mem::forget(src);
    core::mem::forget(acts);
    r
}

/// what was observed, for the per-harness vacuity guards
struct TimerObs {
    sent: i8,
    desire: i8,
    remote_min: i8,
    nanos: u128,
}

fn low_covers(o: &Option<TimerObs>) {
    if let Some(o) = o {
        kani::cover!(o.sent == o.remote_min && o.remote_min > o.desire, "server request dominates");
        kani::cover!(o.sent == o.desire && o.desire > o.remote_min, "filter desire dominates");
        kani::cover!(o.nanos == (1_010_000_000u128 << (o.sent as u32)), "lower jitter bound reachable");
        kani::cover!(o.nanos > (1_049_000_000u128 << (o.sent as u32)), "upper jitter range reachable");
    }
}

fn check_timer(src: &NtpSource<RecCtl>, acts: &[Option<NtpSourceAction>; 3], n: usize, min: i8, max: i8, desire: i8, remote_min: i8, reach: u8, tries: usize) -> Option<TimerObs> {
    if reach == 0 && tries >= 3 {
        assert!(n == 1 && matches!(acts[0], Some(NtpSourceAction::Reset)), "gives up: no poll is sent");
        return None;
    }
    assert!(n == 2, "send + timer");
    let p = match &acts[0] {
        Some(NtpSourceAction::Send(p)) => p,
        _ => {
            assert!(false, "first action is Send");
            return None;
        }
    };
    let d = match &acts[1] {
        Some(NtpSourceAction::SetTimer(d)) => *d,
        _ => {
            assert!(false, "second action is SetTimer");
            return None;
        }
    };
    // poll exponent on the wire
    let sent = p[2] as i8;
    let want = core::cmp::max(desire, remote_min);
    assert!(sent == want, "poll exponent = max(filter desire, server-requested minimum)");
    assert!(sent >= min, "poll exponent not below the configured minimum");
    assert!(sent <= core::cmp::max(max, remote_min), "poll exponent not above max(configured maximum, server request)");
    assert!(th::poll_raw(sh::state(src).last_poll_interval) == sent, "the exponent used is remembered");
    // schedule
    if sent <= 17 {
        assert!(timer_in_window(d, sent as u32, 1), "next poll between 1.01 and 1.05 intervals (+-1 ns)");
    } else {
        // beyond the configurable range the implementation saturates the *timer* at 2^31 s
        // (68 years); stated outside the claim, only the lower bound is checked here
        let e = core::cmp::min(sent as u32, 31);
        assert!(d.as_nanos() >= (1_010_000_000u128 << e) - 1024, "next poll not earlier than 1.01 * min(interval, 2^31 s)");
    }
    Some(TimerObs { sent, desire, remote_min, nanos: d.as_nanos() })
}

nharness! {
    #[kani::unwind(6)]
    fn c10_timer_v4() {
        let o = c10_timer_body(0, 0, 17);
        low_covers(&o);
    }
}

// NOT registered: the NTPv5 request path needs > 8 GB in the solver (875 k steps)
nharness! {
    #[kani::unwind(6)]
    fn c10_timer_v5() {
        let o = c10_timer_body(3, 0, 17);
        low_covers(&o);
    }
}

nharness! {
    #[kani::unwind(6)]
    fn c10_timer_upgrade() {
        let o = c10_timer_body(1, 0, 17);
        low_covers(&o);
    }
}

nharness! {
    #[kani::unwind(6)]
    fn c10_timer_server_requested() {
        let o = c10_timer_body(0, 18, 127);
        if let Some(o) = &o {
            assert!(o.sent == o.remote_min, "a server request beyond the configurable range always dominates");
            kani::cover!(o.sent == 127, "server asked for the longest interval");
            kani::cover!(o.sent == 20 && o.nanos > (1_048_576u128 * 1_000_000_000), "2^20 s interval");
        }
    }
}

// ------------------------------------------------------------------------------------------
// c10_filter: one update of the clock filter's desired interval.
harness! {
    fn c10_filter() {
        let min: i8 = kani::any();
        let max: i8 = kani::any();
        kani::assume(0 <= min && min <= max && max <= 17);
        let desire: i8 = kani::any();
        kani::assume(min <= desire && desire <= max);
        let score: i32 = kani::any();
        let p: f64 = kani::any();
        let weight: f64 = kani::any();
        let period: f64 = kani::any();
        let hysteresis: i32 = kani::any();
        let low_w: f64 = kani::any();
        let high_w: f64 = kani::any();
        let step_thr: f64 = kani::any();
        // poll_score stays within the hysteresis band between calls (it is reset to 0 whenever it
        // reaches it); this keeps `poll_score +- 1` away from the i32 limits (dev-profile overflow)
        kani::assume(hysteresis >= 1 && hysteresis < i32::MAX);
        kani::assume(-hysteresis < score && score < hysteresis);

        let mut algo = ntp_proto::AlgorithmConfig::default();
        algo.poll_interval_hysteresis = hysteresis;
        algo.poll_interval_low_weight = low_w;
        algo.poll_interval_high_weight = high_w;
        algo.poll_interval_step_threshold = step_thr;
        let sc = cfg(min, max);

        let (d2, s2) = kh::update_desired_poll_hook(poll(desire), score, &sc, &algo, p, weight, period);
        let d2 = th::poll_raw(d2);

        assert!(min <= d2 && d2 <= max, "the filter's desired interval stays within the configured limits");
        assert!((d2 as i16 - desire as i16).abs() <= 1 || d2 == min, "one step at a time, or back to the minimum");
        assert!(-hysteresis < s2 && s2 < hysteresis, "poll score stays inside the hysteresis band (invariant)");
        kani::cover!(d2 == desire + 1, "interval increased");
        kani::cover!(d2 == desire - 1, "interval decreased");
        kani::cover!(d2 == min && desire > min + 1, "reset to the minimum after a step");
        kani::cover!(d2 == max && desire == max && s2 == 0 && score != 0, "clamped at the maximum");
        kani::cover!(d2 == min && desire == min && s2 == 0 && score > 0, "clamped at the minimum");
        kani::cover!(p.is_nan() || weight.is_nan() || period.is_nan(), "NaN inputs covered");
    }
}

// ------------------------------------------------------------------------------------------
// c10_server_req: what one datagram can do to the server-requested minimum (NTPv5 source without
// NTS, a request in flight). Template: header48 + draft-identification field; all header bytes
// symbolic.
nharness! {
    #[kani::unwind(6)]
    #[kani::stub(core::str::from_utf8, crate::common::from_utf8_ascii_model)]
    #[kani::stub(core::slice::ascii::is_ascii, crate::common::is_ascii_model)]
    fn c10_server_req() {
        stubs::symbolic_clock();
        let mut buf: [u8; 80] = kani::any();
        let min: i8 = kani::any();
        let max: i8 = kani::any();
        kani::assume(0 <= min && min <= max && max <= 17);
        let desire: i8 = kani::any();
        kani::assume(min <= desire && desire <= max);
        let old: i8 = kani::any();
        kani::assume(min <= old && old <= 17);
        let reach: u8 = kani::any();
        let req_origin: u64 = kani::any();
        let dl = any_deadline();
        let origin_match: bool = kani::any();
        let send_raw: u64 = kani::any();
        let recv_raw: u64 = kani::any();

        let mut src = new_source(ProtocolVersion::V5, cfg(min, max), poll(desire), None);
        sh::set_remote_min_poll_interval(&mut src, poll(old));
        // what the last poll left behind: the interval used was max(desire, server minimum)
        let last = core::cmp::max(desire, old);
        sh::set_last_poll_interval(&mut src, poll(last));
        sh::set_reach(&mut src, reach);
        let deadline = deadline_from_now(&dl);
        sh::set_pending(&mut src, Some((th::ts_from_raw(req_origin), None, deadline)));

        // leap bits 0, version 5, mode response; timescale UTC, flags = synchronized (concrete: a
        // symbolic byte here makes the header parse result, and every offset behind it, symbolic)
        buf[0] = 0x2C;
        buf[12] = 0;
        buf[14] = 0;
        buf[15] = 0x01;
        buf[48] = 0xF5;
        buf[49] = 0xFF;
        buf[50] = 0;
        buf[51] = 27;
        put_bytes(&mut buf, 52, b"draft-ietf-ntp-ntpv5-09");
        buf[75] = 0;
        if origin_match {
            put_bytes(&mut buf, 24, &req_origin.to_be_bytes());
        }
        let requested = buf[2] as i8;

        let (_acts, _n) = collect_actions(src.handle_incoming(&buf[..76], th::ts_from_raw(send_raw), th::ts_from_raw(recv_raw)));

        let new = th::poll_raw(sh::state(&src).remote_min_poll_interval);
        let n_meas = sh::controller(&src).n_meas;
        core::mem::forget(src);
        let processed = n_meas > 0;
        if processed {
            assert!(new == core::cmp::max(old, requested), "time response: server minimum becomes max(old, requested)");
        }
        assert!(new >= old, "no datagram lowers the server-requested minimum");
        assert!(new <= core::cmp::max(core::cmp::max(old, max), requested), "never above max(old, configured maximum, requested)");
        kani::cover!(processed && new > old && new == 127, "server asks for the longest interval");
        kani::cover!(processed && requested < 0 && new == old, "negative request ignored");
        kani::cover!(!processed && new > old, "kiss-o'-death RATE raises the minimum");
        kani::cover!(!processed && new == old && origin_match, "response to the pending request without effect on the minimum");
    }
}

// ------------------------------------------------------------------------------------------
// c10_incoming_v4: what one NTPv4 datagram (48-byte header, all bytes symbolic except byte 0) can do
// to the server-requested minimum of a plain NTPv4 source with a request in flight. NTPv4 has no
// field through which a server can ask for an interval, so the minimum may only move within the
// configured limits (RATE kiss: one step up, clamped at the configured maximum).
nharness! {
    #[kani::unwind(6)]
    fn c10_incoming_v4() {
        stubs::symbolic_clock();
        let mut buf: [u8; 49] = kani::any();
        let min: i8 = kani::any();
        let max: i8 = kani::any();
        kani::assume(0 <= min && min <= max && max <= 17);
        let desire: i8 = kani::any();
        kani::assume(min <= desire && desire <= max);
        let old: i8 = kani::any();
        kani::assume(min <= old && old <= max);
        let reach: u8 = kani::any();
        let req_origin: u64 = kani::any();
        let dl = any_deadline();
        let origin_match: bool = kani::any();
        let send_raw: u64 = kani::any();
        let recv_raw: u64 = kani::any();

        let mut src = new_source(ProtocolVersion::V4, cfg(min, max), poll(desire), None);
        sh::set_remote_min_poll_interval(&mut src, poll(old));
        // what the last poll left behind: the interval used was max(desire, server minimum)
        let last = core::cmp::max(desire, old);
        sh::set_last_poll_interval(&mut src, poll(last));
        sh::set_reach(&mut src, reach);
        let deadline = deadline_from_now(&dl);
        sh::set_pending(&mut src, Some((th::ts_from_raw(req_origin), None, deadline)));

        // leap 0, version 4, mode server
        buf[0] = 0x24;
        if origin_match {
            put_bytes(&mut buf, 24, &req_origin.to_be_bytes());
        }
        let in_time = ghost_in_time(deadline);

        let (_acts, _n) = collect_actions(src.handle_incoming(&buf[..48], th::ts_from_raw(send_raw), th::ts_from_raw(recv_raw)));

        let new = th::poll_raw(sh::state(&src).remote_min_poll_interval);
        let n_meas = sh::controller(&src).n_meas;
        core::mem::forget(src);
        assert!(new >= old, "no datagram lowers the server-requested minimum");
        assert!(new <= max, "an NTPv4 server cannot push the minimum beyond the configured maximum");
        assert!(new <= core::cmp::max(old + 1, last), "at most one step above the old minimum, or up to the interval of the last poll");
        if n_meas > 0 {
            assert!(new == old, "a time response does not change the minimum (NTPv4)");
        }
        kani::cover!(new == old + 1 && in_time, "RATE kiss raises the minimum by one step");
        kani::cover!(new == old && old == max && buf[1] == 0 && buf[12] == b'R' && buf[13] == b'A' && origin_match && in_time, "RATE kiss at the configured maximum is clamped");
        kani::cover!(n_meas == 2, "time response processed");
    }
}
