NS = "np_source_h"
import importlib.util, os
_spec = importlib.util.spec_from_file_location("c08", os.path.join(os.path.dirname(__file__), "C08.py"))
_m = importlib.util.module_from_spec(_spec); _m.H = H; _spec.loader.exec_module(_m)
PROP = dict(
    functions=[
        "ntp_proto::source::Reach::{poll, received_packet, unanswered_polls, is_reachable}",
        "ntp_proto::source::NtpSource::<RecCtl>::handle_timer (reset / demobilise decision, tries, reach shift)",
        "ntp_proto::source::NtpSource::<RecCtl>::handle_incoming -> process_message (reach bit, deny memory)",
        "ntp_proto::source::NtpSource::<RecCtl>::observe",
    ],
    bounds="c11_reach: every 8-poll history as start value, then 10 arbitrary events (poll / usable answer); c11_timer: one handle_timer from " + _m._bounds48.split("pre-state: ")[1].split("; clock")[0] + " (version state pinned per arm); c11_answer: one handle_incoming as in C08; c11_observe: all 256 register values",
    outside="handle_timer from UpgradedToV5 / V5 with a reachable source (the NTPv5 request serialiser does not finish symbolic execution; the reset decision precedes the version-dependent code and is exercised from UpgradedToV5 by c12_fallback); NTS sources (cookie exhaustion resets: C13); timer duration / poll interval (C10)",
    assumptions=["usable answer = C08 acceptance criteria on the raw bytes (matching, fresh after the call, expected version, decodable, server mode, stratum 1..=16)"],
    stub_notes=_m._stubs + ["alloc::fmt::format = empty string (c11_observe only)"],
    harnesses=[
        H(NS, "c11", "c11_reach", "reach register == explicit 8-poll history: unanswered_polls = min(8, polls since last answer), reachable iff an answer in the last 8 polls"),
        H(NS, "c11", "c11_timer", "unreachable and tries >= 3 => exactly [Reset] or [Demobilize] (by deny flag), nothing sent, state unchanged; else [Send, SetTimer], tries+1 (saturating), reach << 1 (v4 family)", timeout=600),
        H(NS, "c11", "c11_answer", "a usable answer is measured, sets reach bit 0 and clears the deny memory; nothing else touches reach/tries (48-byte packets)", timeout=600),
        H(NS, "c09", "c09_rate", "(shared with C09) a valid RATE answer leaves the deny memory as it was", timeout=600),
        H(NS, "c09", "c09_other", "(shared with C09) NTSN / unknown KISS answers leave the deny memory as it was", timeout=600),
        H(NS, "c09", "c09_deny", "(shared with C09) after DENY/RSTR the next timer demobilises iff unreachable and tries >= 3", timeout=600),
        H(NS, "c11", "c11_observe", "observe().unanswered_polls = polls since the last usable answer (<= 8)"),
        H(NS, "c11", "c11_answer_v5", "c11_answer for NTPv5 answers", tier="thorough"),
    ],
)
