//! C31 table generator. Runs the *real* `IpFilter::new` from /repo's current working tree (this
//! build script links /repo/ntp-proto natively) on a systematic set of concrete subnet lists and
//! dumps the resulting tries as constants. The Kani harnesses in `src/c31.rs` then prove, for every
//! list, that the trie classifies **every** address exactly like the reference predicate.
//!
//! Why not build the trie under Kani: `BitTree::fill_node` recurses from 16 guarded call sites
//! per level and all its data lives on the heap, which CBMC's constant propagation does not see
//! through; symbolic execution instantiates 16^depth copies even for concrete inputs (measured:
//! one /0 subnet did not finish in 10 min; two subnets ran out of 8 GB).
use ntp_proto::IpSubnet;
use ntp_proto::verif::ipfilter as h;
use std::fmt::Write as _;
use std::net::{IpAddr, Ipv4Addr, Ipv6Addr};

fn mask4(m: u8) -> u32 {
    if m == 0 { 0 } else { u32::MAX << (32 - m as u32) }
}
fn mask6(m: u8) -> u128 {
    if m == 0 { 0 } else { u128::MAX << (128 - m as u32) }
}
fn next_rand(s: &mut u64) -> u64 {
    *s ^= *s >> 12;
    *s ^= *s << 25;
    *s ^= *s >> 27;
    s.wrapping_mul(0x2545_F491_4F6C_DD1D)
}

type Cfg4 = (usize, [u32; 2], [u8; 2]);
type Cfg6 = (usize, [u128; 2], [u8; 2]);

fn v4_configs(full: bool) -> Vec<Cfg4> {
    let mut v: Vec<Cfg4> = vec![(0, [0, 0], [0, 0])];
    // one subnet, every mask
    for m in 0..=32u8 {
        v.push((1, [0xc0a8_01a5, 0], [m, 0]));
    }
    // nested / overlapping pairs, both list orders
    let (m1s, m2s): (Vec<u8>, Vec<u8>) = if full { ((0..=32).collect(), (0..=32).collect()) } else { (vec![0, 8, 16, 20, 23, 24], (24..=32).collect()) };
    for &m1 in &m1s {
        for &m2 in &m2s {
            v.push((2, [0xc0a8_0100, 0xc0a8_01a5], [m1, m2]));
            v.push((2, [0xc0a8_01a5, 0xc0a8_0100], [m2, m1]));
        }
    }
    // sibling blocks that tile their parent, and a block next to half of its sibling
    let base = 0x0a5a_c3f0u32;
    for m in 1..=32u8 {
        let n1 = base & mask4(m);
        let n2 = n1 ^ (1u32 << (32 - m as u32));
        v.push((2, [n1, n2], [m, m]));
        if m < 32 {
            v.push((2, [n2, n1], [m + 1, m]));
        }
    }
    // duplicates and extremes
    v.push((2, [0x0a00_0000, 0x0a00_0000], [8, 8]));
    v.push((2, [0, u32::MAX], [1, 1]));
    v.push((2, [0, u32::MAX], [32, 32]));
    // pseudo-random pairs sharing a pseudo-random-length prefix
    let mut s = 0x9E37_79B9_7F4A_7C15u64;
    for _ in 0..(if full { 1024 } else { 64 }) {
        let a = next_rand(&mut s);
        let b = next_rand(&mut s);
        let n1 = a as u32;
        let share = ((b >> 40) % 33) as u8;
        let n2 = (n1 & mask4(share)) | (b as u32 & !mask4(share));
        v.push((2, [n1, n2], [((a >> 32) % 33) as u8, ((b >> 32) % 33) as u8]));
    }
    v
}

const V6_A: u128 = 0x2001_0db8_85a3_08d3_1319_8a2e_0370_7344;

fn v6_configs(full: bool) -> Vec<Cfg6> {
    let mut v: Vec<Cfg6> = vec![(0, [0, 0], [0, 0])];
    let singles: Vec<u8> = if full { (0..=128).collect() } else { vec![0, 1, 3, 4, 5, 8, 16, 31, 32, 33, 48, 64, 96, 124, 125, 127, 128] };
    for &m in &singles {
        v.push((1, [V6_A, 0], [m, 0]));
    }
    let sib: Vec<u8> = if full { (1..=128).collect() } else { (1..=16).chain(60..=68).chain(120..=128).collect() };
    for &m in &sib {
        let n1 = V6_A & mask6(m);
        let n2 = n1 ^ (1u128 << (128 - m as u32));
        v.push((2, [n1, n2], [m, m]));
        if m < 128 {
            v.push((2, [n2, n1], [m + 1, m]));
        }
    }
    // nested pair 2001:db8:85a3::/m1 and the full address /m2
    let (m1s, m2s): (Vec<u8>, Vec<u8>) = if full { ((0..=48).step_by(6).collect(), (48..=128).step_by(10).collect()) } else { (vec![0, 32, 47, 48], vec![48, 49, 64, 127, 128]) };
    for &m1 in &m1s {
        for &m2 in &m2s {
            v.push((2, [V6_A & mask6(48), V6_A], [m1, m2]));
            v.push((2, [V6_A, V6_A & mask6(48)], [m2, m1]));
        }
    }
    let mut s = 0x2545_F491_4F6C_DD1Du64;
    for _ in 0..(if full { 96 } else { 24 }) {
        let a = next_rand(&mut s);
        let b = next_rand(&mut s);
        let c = next_rand(&mut s);
        let d = next_rand(&mut s);
        // proper (not IPv4-mapped) addresses: force the top 16 bits to 0x2000
        let n1 = ((((a as u128) << 64) | b as u128) & !(0xffffu128 << 112)) | (0x2000u128 << 112);
        let share = ((c >> 8) % 129) as u8;
        let other = ((((d as u128) << 64) | c as u128) & !(0xffffu128 << 112)) | (0x2000u128 << 112);
        let n2 = (n1 & mask6(share)) | (other & !mask6(share));
        v.push((2, [n1, n2], [((c >> 32) % 129) as u8, ((d >> 32) % 129) as u8]));
    }
    v
}

fn build4(c: &Cfg4) -> (Vec<(u32, u16, u16)>, Vec<(u32, u16, u16)>) {
    let subs: Vec<IpSubnet> = (0..c.0).map(|i| IpSubnet { addr: IpAddr::V4(Ipv4Addr::from(c.1[i])), mask: c.2[i] }).collect();
    h::filter_nodes(&h::filter_new(&subs))
}
fn build6(c: &Cfg6) -> (Vec<(u32, u16, u16)>, Vec<(u32, u16, u16)>) {
    let subs: Vec<IpSubnet> = (0..c.0).map(|i| IpSubnet { addr: IpAddr::V6(Ipv6Addr::from(c.1[i])), mask: c.2[i] }).collect();
    h::filter_nodes(&h::filter_new(&subs))
}

fn nodes_lit(nodes: &[(u32, u16, u16)], pad: usize) -> String {
    let mut s = String::from("[");
    for i in 0..pad {
        let (a, b, c) = if i < nodes.len() { nodes[i] } else { (0, 0, 0) };
        write!(s, "({a},{b},{c}),").unwrap();
    }
    s.push(']');
    s
}

fn emit4(out: &mut String, name: &str, cfgs: &[Cfg4]) {
    let built: Vec<_> = cfgs.iter().map(build4).collect();
    let (max4, max6) = (16, 1);
    assert!(built.iter().all(|b| b.0.len() <= max4 && b.1.len() <= max6), "trie larger than the table width");
    writeln!(out, "pub static {name}: [Case<u32, 16, 1>; {}] = [", cfgs.len()).unwrap();
    for (c, b) in cfgs.iter().zip(&built) {
        writeln!(
            out,
            "Case {{ n: {}, nets: [{}, {}], masks: [{}, {}], len4: {}, len6: {}, v4: {}, v6: {} }},",
            c.0, c.1[0], c.1[1], c.2[0], c.2[1], b.0.len(), b.1.len(), nodes_lit(&b.0, max4), nodes_lit(&b.1, max6)
        )
        .unwrap();
    }
    writeln!(out, "];").unwrap();
}
fn emit6(out: &mut String, name: &str, cfgs: &[Cfg6]) {
    let built: Vec<_> = cfgs.iter().map(build6).collect();
    let (max4, max6) = (1, 64);
    assert!(built.iter().all(|b| b.0.len() <= max4 && b.1.len() <= max6), "trie larger than the table width");
    writeln!(out, "pub static {name}: [Case<u128, 1, 64>; {}] = [", cfgs.len()).unwrap();
    for (c, b) in cfgs.iter().zip(&built) {
        writeln!(
            out,
            "Case {{ n: {}, nets: [{}, {}], masks: [{}, {}], len4: {}, len6: {}, v4: {}, v6: {} }},",
            c.0, c.1[0], c.1[1], c.2[0], c.2[1], b.0.len(), b.1.len(), nodes_lit(&b.0, max4), nodes_lit(&b.1, max6)
        )
        .unwrap();
    }
    writeln!(out, "];").unwrap();
}

fn main() {
    println!("cargo:rerun-if-changed=build.rs");
    println!("cargo:rerun-if-changed=/repo/ntp-proto/src/ipfilter.rs");
    println!("cargo:rerun-if-changed=/repo/ntp-proto/src/server.rs");
    let mut out = String::new();
    out.push_str("// @generated by build.rs from /repo/ntp-proto's IpFilter::new (current working tree)\n");
    emit4(&mut out, "V4_QUICK", &v4_configs(false));
    let full4 = v4_configs(true);
    for (k, chunk) in full4.chunks(1101).enumerate() {
        emit4(&mut out, &format!("V4_FULL_{k}"), chunk);
    }
    emit6(&mut out, "V6_QUICK", &v6_configs(false));
    emit6(&mut out, "V6_MINI", &v6_configs(false)[..24]);
    let full6 = v6_configs(true);
    for (k, chunk) in full6.chunks(130).enumerate() {
        emit6(&mut out, &format!("V6_FULL_{k}"), chunk);
    }
    writeln!(out, "pub const V4_FULL_CHUNKS: usize = {};\npub const V6_FULL_CHUNKS: usize = {};", full4.chunks(1101).count(), full6.chunks(130).count()).unwrap();
    let dir = std::env::var("OUT_DIR").unwrap();
    std::fs::write(std::path::Path::new(&dir).join("c31_tables.rs"), out).unwrap();
}
