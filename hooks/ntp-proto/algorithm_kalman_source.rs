//! Safe-Rust verification hooks for this module (accessors/wrappers only; no logic).
#![allow(unused_imports, dead_code)]
use super::*;

// ---- C10 (np_nts_h): call the private `SourceFilter::update_desired_poll` on a filter whose
// poll-related fields are given and whose other fields are neutral constants (the function
// reads/writes only `poll_score` and `desired_poll_interval`). Returns the new pair.
pub fn update_desired_poll_hook(
    desired_poll_interval: PollInterval,
    poll_score: i32,
    source_config: &SourceConfig,
    algo_config: &AlgorithmConfig,
    p: f64,
    weight: f64,
    measurement_period: f64,
) -> (PollInterval, i32) {
    let m = InternalMeasurement {
        delay: (),
        offset: NtpDuration::ZERO,
        localtime: NtpTimestamp::default(),
        root_delay: NtpDuration::ZERO,
        root_dispersion: NtpDuration::ZERO,
        leap: crate::packet::NtpLeapIndicator::NoWarning,
        precision: 0,
    };
    let mut f: SourceFilter<(), FixedMeasurementNoise> = SourceFilter {
        state: KalmanState {
            state: Vector::new_vector([0.0, 0.0]),
            uncertainty: Matrix::new([[0.0, 0.0], [0.0, 0.0]]),
            time: NtpTimestamp::default(),
        },
        clock_wander: 0.0,
        noise_estimator: FixedMeasurementNoise { precision: 0.0, accuracy: 0.0 },
        precision_score: 0,
        poll_score,
        desired_poll_interval,
        last_measurement: m,
        last_monotime: tokio::time::Instant::now(),
        prev_was_outlier: false,
        last_iter: NtpTimestamp::default(),
    };
    f.update_desired_poll(source_config, algo_config, p, weight, measurement_period);
    (f.desired_poll_interval, f.poll_score)
}
