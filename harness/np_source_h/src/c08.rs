//! Harnesses for property C08 (see /verif/properties.jsonl): a plain source uses a packet for
//! synchronisation only if it is a fresh answer to the pending request, and at most once.
use crate::common::*;
use crate::stubs;
use ntp_proto::*;

/// One `handle_incoming` from an arbitrary state with an arbitrary packet; oracle on raw bytes.
#[cfg(kani)]
fn accept_body(src: &mut Src, pre: &Pre, pkt: &[u8], send: u64, recv: u64) {
    let before = sh::state(src);
    let acts = collect(src.handle_incoming(pkt, th::ts_from_raw(send), th::ts_from_raw(recv)));
    let after_t = tokio::time::Instant::now();
    let post = sh::state(src);
    let ctl = sh::controller(src);
    let n = ctl.n_meas;

    let v = version_bits(pkt);
    let stratum = stratum_byte(pkt);

    // handle_incoming never asks for anything (plain source): no send / reset / demobilise
    assert!(acts.n == 0, "C08: a received packet produces no actions on a plain source");
    assert!(n == 0 || n == 2, "C08: measurements come as exactly one outgoing+incoming pair");

    if n != 0 {
        assert!(ctl.kinds[0] == 1 && ctl.kinds[1] == 2, "C08: pair is (system->source, source->system)");
        assert!(pre.has_pending, "C08: accepted without a pending request");
        assert!(pre.deadline >= pre.base, "C08: accepted after the poll window closed");
        assert!(origin_field(pkt) == pre.pending_id, "C08: accepted with a foreign origin timestamp / client cookie");
        assert!(version_expected(pre.pv, v), "C08: accepted an unexpected protocol version");
        assert!(mode_bits(pkt) == 4, "C08: accepted a packet that is not in server mode");
        assert!(stratum != 0, "C08: a KISS packet was used as a measurement");
        assert!(stratum <= 16, "C08: accepted stratum above 16");
        assert!(!post.pending, "C08: pending request not cleared after acceptance (replayable)");
        // the measurement is taken from this packet and these local timestamps
        assert!(ctl.sender_ts[0] == send && ctl.receiver_ts[0] == be64(pkt, 32), "C08: outgoing = (send time, packet receive ts)");
        assert!(ctl.sender_ts[1] == be64(pkt, 40) && ctl.receiver_ts[1] == recv, "C08: incoming = (packet transmit ts, recv time)");
    }

    // a packet that cannot be an answer to the pending request has no effect whatsoever
    // (in particular KISS codes are not looked at before the request matching)
    if !may_match(pre, pkt) {
        assert!(n == 0, "C08: unsolicited packet measured");
        assert!(post == before, "C08: unsolicited / stale / forged packet changed the source state");
        assert!(pending_unchanged(src, pre), "C08: unsolicited packet touched the pending request");
    }
    // anything that is not accepted leaves the pending request as it was
    if n == 0 {
        assert!(pending_unchanged(src, pre), "C08: rejected packet touched the pending request");
        assert!(post.reach == before.reach, "C08: rejected packet changed reachability");
    }

    // acceptance is reachable, and so are the individual reasons for rejection
    kani::cover!(n == 2, "a fresh matching answer is accepted");
    kani::cover!(n == 2 && stratum == 16, "stratum 16 accepted");
    kani::cover!(n == 2 && pre.deadline < pre.base + std::time::Duration::from_secs(2), "accepted less than two seconds before the deadline");
    kani::cover!(n == 0 && must_match(pre, pkt, after_t) && stratum == 0, "matching KISS packet not measured");
    kani::cover!(n == 0 && must_match(pre, pkt, after_t) && stratum == 17, "matching packet with stratum 17 rejected");
    kani::cover!(n == 0 && must_match(pre, pkt, after_t) && stratum == 1 && mode_bits(pkt) != 4, "matching packet in a non-server mode rejected");
    kani::cover!(n == 0 && pre.has_pending && origin_field(pkt) == pre.pending_id && pre.deadline < pre.base, "late answer rejected");
    kani::cover!(n == 0 && pre.has_pending && pre.deadline >= after_t && origin_field(pkt) != pre.pending_id && decodable(pkt), "foreign origin rejected");
    kani::cover!(n == 0 && !pre.has_pending && decodable(pkt), "no request pending: rejected");
}

sharness! {
    #[kani::unwind(12)]
    fn c08_accept() {
        frozen_clock();
        let (mut src, pre) = any_source(PvClass::Any);
        let mut p = any_pkt4();
        let b0: u8 = kani::any();
        let send: u64 = kani::any();
        let recv: u64 = kani::any();
        let mut run = |v: u8| {
            p.set_b0(v);
            accept_body(&mut src, &pre, p.bytes(), send, recv);
        };
        for_b0!(quick_a, b0, run);
        kani::cover!(sh::controller(&src).n_meas == 2 && matches!(pre.pv, ProtocolVersion::V4UpgradingToV5 { .. }), "answer accepted while upgrading");
    }
}

sharness! {
    #[kani::unwind(12)]
    fn c08_accept_b() {
        frozen_clock();
        let (mut src, pre) = any_source(PvClass::Any);
        let mut p = any_pkt4();
        let b0: u8 = kani::any();
        let send: u64 = kani::any();
        let recv: u64 = kani::any();
        let mut run = |v: u8| {
            p.set_b0(v);
            accept_body(&mut src, &pre, p.bytes(), send, recv);
        };
        for_b0!(quick_b, b0, run);
        kani::cover!(sh::controller(&src).n_meas == 2 && b0 == 0x1C, "v3 answer accepted by a V4 association");
        kani::cover!(sh::controller(&src).n_meas == 0 && b0 == 0x1C && matches!(pre.pv, ProtocolVersion::V4UpgradingToV5 { .. }) && pre.has_pending && origin_field(p.bytes()) == pre.pending_id && pre.deadline >= pre.base && stratum_byte(p.bytes()) == 1, "v3 answer rejected while upgrading");
    }
}

sharness! {
    #[kani::unwind(12)]
    fn c08_accept_full() {
        frozen_clock();
        let (mut src, pre) = any_source(PvClass::Any);
        let mut p = any_pkt4();
        let b0: u8 = kani::any();
        let send: u64 = kani::any();
        let recv: u64 = kani::any();
        let mut run = |v: u8| {
            p.set_b0(v);
            accept_body(&mut src, &pre, p.bytes(), send, recv);
        };
        for_b0!(full, b0, run);
    }
}

sharness! {
    #[kani::unwind(30)]
    fn c08_accept_v5() {
        frozen_clock();
        let (mut src, pre) = any_source(PvClass::Any);
        let mut p = any_pkt5();
        let sel: u8 = kani::any();
        let send: u64 = kani::any();
        let recv: u64 = kani::any();
        let mut run = |b0: u8, b12: u8, b14: u8, b15: u8, last: u8| {
            p.set_hdr(b0, b12, b14, b15, last);
            accept_body(&mut src, &pre, p.bytes(), send, recv);
        };
        for_v5hdr!(quick, sel, run);
        kani::cover!(sh::controller(&src).n_meas == 2 && matches!(pre.pv, ProtocolVersion::UpgradedToV5), "v5 answer accepted after upgrade");
        kani::cover!(sh::controller(&src).n_meas == 2 && matches!(pre.pv, ProtocolVersion::V5), "v5 answer accepted by a V5 association");
    }
}

// (A variant of `c08_accept_v5` with 7 / 10 / 15 header combinations (malformed mode, other
// timescales, reserved flag bits, LI=3, the template under versions 3 and 4) exceeds the 8 GB
// solver cap or the 30 min limit: 6.3 GB after 21 min with 7 combinations.)

/// Replay / duplicates. `c08_accept` shows, from ANY state, that a measurement needs a pending
/// request and clears it, and that a packet that is not measured leaves the pending request as it
/// was; so between two polls at most one packet is measured. This harness states the second half
/// directly: in the state an acceptance leaves behind (no pending request, whatever the rest),
/// no packet - the same one again, another answer carrying the old origin, anything - is
/// measured or changes the source. (Two consecutive calls in one harness, even with a concrete
/// first packet, do not finish symbolic execution: 8 GB after 8 min.)
#[cfg(kani)]
fn replay_body(src: &mut Src, pre: &Pre, pkt: &[u8], old_id: u64) {
    let before = sh::state(src);
    let acts = collect(src.handle_incoming(pkt, th::ts_from_raw(1), th::ts_from_raw(2)));
    let post = sh::state(src);
    assert!(acts.n == 0, "C08: no actions");
    assert!(sh::controller(src).n_meas == 0, "C08: a packet arriving after the request was answered (replay/duplicate) was measured");
    assert!(post == before && !post.pending, "C08: a replayed packet changed the source");
    kani::cover!(origin_field(pkt) == old_id && mode_bits(pkt) == 4 && stratum_byte(pkt) == 1 && version_expected(pre.pv, version_bits(pkt)), "well-formed answer carrying the already used origin is ignored");
}

sharness! {
    #[kani::unwind(12)]
    fn c08_replay() {
        frozen_clock();
        let (mut src, pre) = any_source(PvClass::Any);
        let mut p = any_pkt4();
        let b0: u8 = kani::any();
        let old_id: u64 = kani::any();
        kani::assume(!pre.has_pending);
        let mut run = |v: u8| {
            p.set_b0(v);
            replay_body(&mut src, &pre, p.bytes(), old_id);
        };
        for_b0!(quick, b0, run);
    }
}

sharness! {
    #[kani::unwind(30)]
    fn c08_replay_v5() {
        frozen_clock();
        let (mut src, pre) = any_source(PvClass::Any);
        let mut p = any_pkt5();
        let sel: u8 = kani::any();
        let old_id: u64 = kani::any();
        kani::assume(!pre.has_pending);
        let mut run = |b0: u8, b12: u8, b14: u8, b15: u8, last: u8| {
            p.set_hdr(b0, b12, b14, b15, last);
            replay_body(&mut src, &pre, p.bytes(), old_id);
        };
        for_v5hdr!(quick, sel, run);
    }
}

/// The request a timer sends is the one the source then waits for, for exactly the poll window.
#[cfg(kani)]
fn request_check(src: &Src, pre: &Pre, acts: &Acts, t0: tokio::time::Instant, t1: tokio::time::Instant) {
    let window = std::time::Duration::from_secs(sh::POLL_WINDOW_SECS);
    assert!(sh::POLL_WINDOW_SECS >= 1 && sh::POLL_WINDOW_SECS <= 8, "C08: poll window shorter than the shortest configured poll interval (2^4 s)");
    if let Some(p) = &acts.sent {
        assert!(p.len() >= 48, "C08: request has a full header");
        match pending_of(src) {
            None => assert!(false, "C08: a request was sent but none is pending"),
            Some((id, has_uid, deadline)) => {
                // v4: our transmit timestamp (octets 40..48) must come back as origin;
                // v5: the client cookie (octets 24..32)
                let sent_id = if version_bits(p) == 5 { be64(p, 24) } else { be64(p, 40) };
                assert!(id == sent_id, "C08: the pending identifier is not the one in the request just sent");
                assert!(!has_uid, "C08: plain source has no unique identifier");
                assert!(deadline >= t0 + window && deadline <= t1 + window, "C08: deadline = send time + poll window");
            }
        }
        kani::cover!((version_bits(p) == 5 && be64(p, 24) == 0x0123_4567_89AB_CDEF) || (version_bits(p) == 4 && be64(p, 40) == 0x0123_4567_89AB_CDEF), "the request identifier is random");
    } else {
        assert!(pending_unchanged(src, pre), "C08: nothing sent, pending request untouched");
    }
    kani::cover!(acts.sent.is_none(), "reset/demobilise path");
}

sharness! {
    #[kani::unwind(30)]
    fn c08_request() {
        frozen_clock();
        stubs::symbolic_rng();
        let (mut src, pre) = any_source(PvClass::V4Family);
        let t0 = tokio::time::Instant::now();
        let acts = timer_step!(v4fam, src, pre);
        let t1 = tokio::time::Instant::now();
        request_check(&src, &pre, &acts, t0, t1);
    }
}

// (`c08_request` for NTPv5 requests needs the NTPv5 request serialiser, which does not finish
// symbolic execution even from a concrete state: see c12.rs.)
