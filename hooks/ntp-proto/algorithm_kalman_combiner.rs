//! Safe-Rust verification hooks for this module (accessors/wrappers only; no logic).
#![allow(unused_imports, dead_code)]
use super::*;
