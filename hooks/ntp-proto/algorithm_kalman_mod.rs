//! Safe-Rust verification hooks for this module (accessors/wrappers only; no logic).
#![allow(unused_imports, dead_code)]
use super::*;
pub use super::combiner::verif_hooks as combiner;
pub use super::config::verif_hooks as config;
pub use super::matrix::verif_hooks as matrix;
pub use super::select::verif_hooks as select;
pub use super::source::verif_hooks as source;

// ---------------------------------------------------------------- C01..C04 (np_algo_h)
/// Public wrapper so that an external crate can hold the crate-private `SourceSnapshot`.
#[derive(Debug, Clone, Copy)]
pub struct SnapH(pub(in crate::algorithm::kalman) SourceSnapshot);

/// Constructor from raw fields (state vector, covariance matrix, filter time, ...).
#[allow(clippy::too_many_arguments)]
pub fn snapshot_from_raw(
    index: u64,
    state: [f64; 2],
    uncertainty: [[f64; 2]; 2],
    time: NtpTimestamp,
    wander: f64,
    delay: f64,
    period: Option<f64>,
    source_uncertainty: NtpDuration,
    source_delay: NtpDuration,
    leap_indicator: NtpLeapIndicator,
    last_update: NtpTimestamp,
) -> SnapH {
    SnapH(SourceSnapshot {
        index: ClockId(index),
        state: KalmanState {
            state: super::matrix::Vector::new_vector(state),
            uncertainty: super::matrix::Matrix::new(uncertainty),
            time,
        },
        wander,
        delay,
        period,
        source_uncertainty,
        source_delay,
        leap_indicator,
        last_update,
    })
}

impl SnapH {
    pub fn index(&self) -> u64 {
        self.0.index.0
    }
    pub fn offset(&self) -> f64 {
        self.0.offset()
    }
    pub fn offset_uncertainty(&self) -> f64 {
        self.0.offset_uncertainty()
    }
    pub fn delay(&self) -> f64 {
        self.0.delay
    }
    pub fn period(&self) -> Option<f64> {
        self.0.period
    }
    pub fn leap_indicator(&self) -> NtpLeapIndicator {
        self.0.leap_indicator
    }
}

/// Public wrapper around a list of crate-private snapshots (candidates / selection).
#[derive(Debug, Clone)]
pub struct SnapVecH(pub(in crate::algorithm::kalman) Vec<SourceSnapshot>);

impl SnapVecH {
    pub fn with_capacity(n: usize) -> Self {
        SnapVecH(Vec::with_capacity(n))
    }
    pub fn push(&mut self, s: SnapH) {
        self.0.push(s.0);
    }
    pub fn len(&self) -> usize {
        self.0.len()
    }
    pub fn is_empty(&self) -> bool {
        self.0.is_empty()
    }
    pub fn get(&self, i: usize) -> SnapH {
        SnapH(self.0[i])
    }
    pub fn index_at(&self, i: usize) -> u64 {
        self.0[i].index.0
    }
    pub fn truncate(&mut self, n: usize) {
        self.0.truncate(n);
    }
}

/// Constructor of the clock controller from raw fields; the source map starts empty.
pub fn controller_from_raw<C: NtpClock>(
    clock: C,
    synchronization_config: SynchronizationConfig,
    algo_config: AlgorithmConfig,
    freq_offset: f64,
    timedata: TimeSnapshot,
    desired_freq: f64,
    in_startup: bool,
) -> KalmanClockController<C> {
    KalmanClockController {
        sources: HashMap::new(),
        clock,
        synchronization_config,
        algo_config,
        freq_offset,
        timedata,
        desired_freq,
        in_startup,
    }
}
/// Put a source entry (snapshot, usable flag) into the controller's source map.
pub fn controller_insert_source<C: NtpClock>(c: &mut KalmanClockController<C>, id: u64, snapshot: Option<SnapH>, usable: bool) {
    c.sources.insert(ClockId(id), (snapshot.map(|s| s.0), usable));
}
pub fn controller_source<C: NtpClock>(c: &KalmanClockController<C>, id: u64) -> Option<(Option<SnapH>, bool)> {
    c.sources.get(&ClockId(id)).map(|(s, u)| (s.map(SnapH), *u))
}
pub fn controller_source_count<C: NtpClock>(c: &KalmanClockController<C>) -> usize {
    c.sources.len()
}
pub fn controller_clock<C: NtpClock>(c: &KalmanClockController<C>) -> &C {
    &c.clock
}
pub fn controller_freq_offset<C: NtpClock>(c: &KalmanClockController<C>) -> f64 {
    c.freq_offset
}
pub fn controller_desired_freq<C: NtpClock>(c: &KalmanClockController<C>) -> f64 {
    c.desired_freq
}
pub fn controller_in_startup<C: NtpClock>(c: &KalmanClockController<C>) -> bool {
    c.in_startup
}
pub fn controller_timedata<C: NtpClock>(c: &KalmanClockController<C>) -> TimeSnapshot {
    c.timedata
}
pub fn controller_synchronization_config<C: NtpClock>(c: &KalmanClockController<C>) -> SynchronizationConfig {
    c.synchronization_config
}

pub fn steer_offset<C: NtpClock>(c: &mut KalmanClockController<C>, change: f64, freq_delta: f64) -> InternalStateUpdate<KalmanControllerMessage> {
    c.steer_offset(change, freq_delta)
}
pub fn check_offset_steer<C: NtpClock>(c: &mut KalmanClockController<C>, change: f64) {
    c.check_offset_steer(change);
}
pub fn steer_frequency<C: NtpClock>(c: &mut KalmanClockController<C>, change: f64) -> InternalStateUpdate<KalmanControllerMessage> {
    c.steer_frequency(change)
}
pub fn change_desired_frequency<C: NtpClock>(c: &mut KalmanClockController<C>, new_freq: f64, freq_delta: f64) -> InternalStateUpdate<KalmanControllerMessage> {
    c.change_desired_frequency(new_freq, freq_delta)
}
pub fn update_clock<C: NtpClock>(c: &mut KalmanClockController<C>, time: NtpTimestamp) -> InternalStateUpdate<KalmanControllerMessage> {
    c.update_clock(time)
}
pub fn source_message_from_snapshot(s: SnapH) -> KalmanSourceMessage {
    KalmanSourceMessage { inner: s.0 }
}

/// Plain view of a controller message: `Step { steer }`.
pub fn message_step(m: &KalmanControllerMessage) -> Option<f64> {
    match m.inner {
        KalmanControllerMessageInner::Step { steer } => Some(steer),
        KalmanControllerMessageInner::FreqChange { .. } => None,
    }
}
/// Plain view of a controller message: `FreqChange { steer, time }`.
pub fn message_freq_change(m: &KalmanControllerMessage) -> Option<(f64, NtpTimestamp)> {
    match m.inner {
        KalmanControllerMessageInner::FreqChange { steer, time } => Some((steer, time)),
        KalmanControllerMessageInner::Step { .. } => None,
    }
}
pub use super::super::InternalStateUpdate;

// ---------------------------------------------------------------- update_clock control-logic harnesses (lead)
pub fn controller_set_leap<C: NtpClock>(c: &mut KalmanClockController<C>, leap: NtpLeapIndicator) {
    c.timedata.leap_indicator = leap;
}
