#!/bin/bash
# Evaluate checks against a seeded change WITHOUT touching /repo: a patched worktree is bind-mounted
# over /repo inside a private mount namespace (used while other work is going on in /repo; the
# official procedure - git apply in /repo, run, git checkout - gives the same result).
# usage: seed_eval.sh <patch.diff> <name> <Cxx> [more check args...]
set -u
patch="$1"; name="$2"; shift 2
wt=/tmp/seedrepo/$name
if [ ! -d "$wt" ]; then
  mkdir -p /tmp/seedrepo
  git -C /repo worktree add -q --detach "$wt" HEAD || exit 3
  git -C "$wt" apply "$patch" || { echo "patch does not apply"; exit 3; }
fi
# cargo freshness is mtime based: make sure every source of this tree is newer than any artefact
# built from a previously evaluated tree
find "$wt" -name target -prune -o \( -name "*.rs" -o -name Cargo.toml \) -print0 | xargs -0 touch
export VERIF_CACHE_TAG=_seed
export VERIF_EVIDENCE_DIR=/verif/.cache/evidence_seed
export VERIF_REPLAY_TAG=_$name
# seed slots start as copies of the real slots (saves the dependency build)
for c in /verif/.cache/slots/*; do
  cn=$(basename $c)
  if [ ! -d /verif/.cache/slots_seed/$cn/0 ] && [ -d $c/0 ]; then
    mkdir -p /verif/.cache/slots_seed/$cn
    cp -a $c/0 /verif/.cache/slots_seed/$cn/0
    for k in 1 2 3; do cp -a $c/0 /verif/.cache/slots_seed/$cn/$k; done
  fi
done
unshare --mount bash -c "mount --bind $wt /repo && cd /verif && VERIF_SLOTS=4 ./check $*"
rc=$?
echo "seed_eval: $name -> exit $rc"
exit $rc
