NP = "np_algo_h"
PROP = dict(
    functions=[
        "ntp_proto::algorithm::TwoWaySourceControllerWrapper::<RecTwoWay>::handle_measurement, OneWaySourceControllerWrapper::<RecOneWay>::handle_measurement (real wrappers, built through a hook with a real tokio unbounded channel; the inner controller records the InternalMeasurement and returns None)",
        "ntp_proto::source::measurements_from_packet (through a hook), NtpPacket::{receive_timestamp, transmit_timestamp, root_delay, root_dispersion, leap, precision}",
        "ntp_proto::time_types: NtpTimestamp - NtpTimestamp, NtpDuration +, -, / 2",
    ],
    bounds="all 64-bit NTP timestamp quadruples (T1..T4) and pairs, all 64-bit root delay/dispersion values, all leap/precision values; V3 and V4 packets built from arbitrary raw header fields",
    outside="the wire decoding of the header (C23/C24; NtpPacket::deserialize of 48 symbolic bytes did not finish symbolic execution in 10 min in this crate); V5 packets in c05_map; sending the resulting message over the tokio channel (inner controller returns None; dropping the wrapper sends on the channel, so the harness leaks it)",
    assumptions=["source id != ClockId::SYSTEM (0) for the two-way wrapper (0 marks the outgoing direction)"],
    harnesses=[
        H(NP, "c05", "c05_twoway", "offset == ((T2-T1)+(T3-T4))/2 (truncating) and delay == (T4-T1)-(T3-T2) with shortest wrapped differences, i128 reference; saturation when not representable", timeout=300),
        H(NP, "c05", "c05_twoway_needs_outgoing", "no sample without a stored outgoing measurement"),
        H(NP, "c05", "c05_oneway", "one-way offset == sender_ts - receiver_ts (remote minus local)"),
        H(NP, "c05", "c05_map", "measurements_from_packet: send_time->T1, packet receive ts->T2, packet transmit ts->T3, recv_time->T4, remote data passed through"),
        H(NP, "c05", "c05_packet_to_sample", "packet + local times -> measurements -> two-way wrapper: formulas hold end to end"),
    ],
)
