//! Harnesses for property C10 (see /verif/properties.jsonl).
use crate::stubs;
