//! Harness helpers shared by all harness crates.
#![allow(dead_code, unused_macros)]

/// `harness! { fn name() { .. } }` = `#[kani::proof]` + the standard environment stubs
/// (tracing without subscriber, panic=abort catch_unwind, empty `format!`, ghost clock,
/// ghost hash keys, ghost rng tape). Extra attributes (e.g. `#[kani::unwind(9)]`) go first.
#[macro_export]
macro_rules! harness {
    ( $(#[$m:meta])* fn $name:ident() $body:block ) => {
        #[kani::proof]
        #[kani::stub(tracing::dispatcher::get_default, crate::stubs::tracing_get_default)]
        #[kani::stub(tracing::callsite::DefaultCallsite::register, crate::stubs::tracing_register)]
        #[kani::stub(crate::util::cu_real, crate::stubs::catch_unwind_stub)]
        #[kani::stub(std::time::Instant::now, crate::stubs::instant_now_stub)]
        #[kani::stub(tokio::time::Instant::now, crate::stubs::tokio_instant_now_stub)]
        #[kani::stub(std::collections::hash_map::RandomState::new, crate::stubs::random_state_new_stub)]
        #[kani::stub(rand::thread_rng, crate::stubs::thread_rng_stub)]
        #[kani::stub(<rand::rngs::ThreadRng as rand::RngCore>::next_u32, crate::stubs::thread_rng_next_u32)]
        #[kani::stub(<rand::rngs::ThreadRng as rand::RngCore>::next_u64, crate::stubs::thread_rng_next_u64)]
        #[kani::stub(<rand::rngs::ThreadRng as rand::RngCore>::fill_bytes, crate::stubs::thread_rng_fill_bytes)]
        #[kani::stub(<rand::rngs::ThreadRng as rand::RngCore>::try_fill_bytes, crate::stubs::thread_rng_try_fill_bytes)]
        $(#[$m])*
        fn $name() $body
    };
}

pub use std::panic::catch_unwind as cu_real;
