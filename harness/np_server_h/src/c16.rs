//! Harnesses for property C16 (see /verif/properties.jsonl): responses never larger than the request.
//!
//! Call shape mirrored from /repo/ntpd/src/daemon/server.rs (ServerTask::serve):
//!     let mut send_buf = [0u8; MAX_PACKET_SIZE];
//!     self.server.handle(source_addr.ip(), convert_net_timestamp(timestamp),
//!                        &buf[..length], &mut send_buf[..length], &mut self.stats)
//! i.e. request = the first `length` bytes of the receive buffer, send buffer = the first `length`
//! bytes of a zeroed array that is longer than any datagram. (The lead's source extractor ties
//! this to the daemon's text; the arrays here are 160 bytes instead of 1024 because CBMC keeps
//! per-element constants only for small arrays; `length` never reaches the end of either array,
//! exactly as in the daemon.)
//!
//! These are the end-to-end (`Server::handle`) harnesses of the crate, shared with C15 (response
//! classification from raw bytes), C21 (exactly one registration, matching kind) and C22 (no
//! panic). The policy is concrete per harness (one response kind each: symbolic policy outcomes
//! are the subject of the `c15_policy_*` harnesses on the policy half), everything else symbolic:
//! datagram contents, extension-field contents, synchronisation state, clock readings.
use crate::common::*;
use crate::stubs;
use ntp_proto::verif::{server as sh, time_types as tt};
use ntp_proto::*;
use std::net::{IpAddr, Ipv4Addr, Ipv6Addr};
use std::time::Duration;

pub const BUF: usize = 160;

/// Concrete policies, one per response kind.
#[derive(Clone, Copy, PartialEq, Eq)]
pub enum Class {
    /// everybody allowed, NTS not required
    Time,
    /// client on the deny list, action deny
    DenyList,
    /// client not on the allow list, action deny
    DenyAllow,
    /// everybody allowed, NTS required with action deny
    DenyNts,
}

pub fn class_cfg(c: Class, versions: [NtpVersion; 3]) -> Cfg {
    let all = Nets { v4_top: 0xffff, v6_top: 0xffff };
    let none = Nets { v4_top: 0, v6_top: 0 };
    let (deny, allow, require_nts) = match c {
        Class::Time => (none, all, None),
        Class::DenyList => (all, all, None),
        Class::DenyAllow => (none, none, None),
        Class::DenyNts => (none, all, Some(FilterAction::Deny)),
    };
    Cfg {
        deny,
        deny_action: FilterAction::Deny,
        allow,
        allow_action: FilterAction::Deny,
        cache_size: 0,
        cutoff: Duration::new(1, 0),
        require_nts,
        versions,
        n_versions: 3,
    }
}

pub const ALL_VERSIONS: [NtpVersion; 3] = [NtpVersion::V3, NtpVersion::V4, NtpVersion::V5];

/// One end-to-end call in the daemon's shape. `expect`: the response kind the concrete policy
/// prescribes for a request that is answered at all; `must_answer`: the request is well-formed,
/// client mode, accepted version and its answer fits (so silence would be a C15 violation).
macro_rules! wire_call {
    ($class:expr, $buf:expr, $length:expr, $expect:expr, $must_answer:expr, $nts:expr) => {{
        any_dispersion();
        let stratum: u8 = kani::any();
        kani::assume(stratum != 0);
        let info = any_server_info_with(stratum);
        let now: u64 = kani::any();
        let recv: u64 = kani::any();
        let client = IpAddr::V4(Ipv4Addr::new(192, 0, 2, 1));
        let cfg = class_cfg($class, ALL_VERSIONS);
        let mut server = build_server(&cfg, SymClock { now: tt::ts_from_raw(now) }, info, zero_keyset());
        let mut stats = RecStats::new();
        // longer than --max-field-sensitivity-array-size: the serialiser writes at positions symex cannot fold
        let mut send_buf = [0u8; 256];
        let act = server.handle(client, tt::ts_from_raw(recv), &$buf[..$length], &mut send_buf[..$length], &mut stats);
        let out = outcome(&act);
        let vn = ($buf[0] >> 3) & 7;
        check_stats!(stats, out);
        assert!(stats.version == vn, "C21: recorded version is the datagram's version field");
        match out.kind {
            Some(k) => {
                assert!(out.resp_len <= $length, "C16: response not longer than the request");
                assert!(out.resp_len >= 48, "a response is at least a header");
                assert!(k == $expect, "C15: response kind is the one the policy prescribes");
                assert!(out.resp_version == vn, "answer has the version of the request");
                assert!(stats.nts == $nts, "C21: NTS flag");
                if k == Kind::Time {
                    assert!(out.resp_tx == now && out.resp_rx == recv, "time answer carries the clock reading and the receive timestamp");
                    assert!(send_buf[1] == stratum, "time answer carries the server's stratum");
                    assert!(stats.reason == ServerReason::Policy, "C21: reason recorded for a time answer");
                }
            }
            None => {
                assert!(!$must_answer, "C15: this request must be answered");
            }
        }
        std::mem::forget(server);
        (out, stats)
    }};
}

/// Plain NTPv3/NTPv4 request without extension fields: 48-byte header + `mac` trailing bytes.
#[cfg(kani)]
fn wire_plain(b0: u8, mac: usize, class: Class) {
    let mut buf: [u8; BUF] = kani::any();
    buf[0] = b0;
    let length = 48 + mac;
    let expect = if class == Class::Time { Kind::Time } else { Kind::DenyKiss };
    let (out, stats) = wire_call!(class, buf, length, expect, true, false);
    assert!(out.resp_len == 48, "no extension fields and no MAC in the answer");
    kani::cover!(out.kind == Some(expect) && stats.response != ServerResponse::Ignore, "answered");
}

srv_harness! { #[kani::unwind(4)] fn c16_wire_v4_time() { wire_plain(0x23, 0, Class::Time); } }
srv_harness! { #[kani::unwind(4)] fn c16_wire_v4_deny() { wire_plain(0x23, 0, Class::DenyList); } }
srv_harness! { #[kani::unwind(4)] fn c16_wire_v4_deny_allow() { wire_plain(0x63, 0, Class::DenyAllow); } }
srv_harness! { #[kani::unwind(4)] fn c16_wire_v4_deny_nts() { wire_plain(0xA3, 0, Class::DenyNts); } }
srv_harness! { #[kani::unwind(4)] fn c16_wire_v3_time() { wire_plain(0x1B, 0, Class::Time); } }
srv_harness! { #[kani::unwind(4)] fn c16_wire_v3_deny() { wire_plain(0x1B, 0, Class::DenyList); } }
srv_harness! { #[kani::unwind(4)] fn c16_wire_v4_mac4_time() { wire_plain(0x23, 4, Class::Time); } }
srv_harness! { #[kani::unwind(4)] fn c16_wire_v3_mac20_time() { wire_plain(0x1B, 20, Class::Time); } }
srv_harness! { #[kani::unwind(4)] fn c16_wire_v4_mac24_deny() { wire_plain(0x23, 24, Class::DenyList); } }

// ------------------------------------------------------------------ NTPv4 extension fields
/// NTPv4 template: header | EF1 (type t1, length l1) | EF2 (type t2, length l2; l2 = 0: absent) |
/// `trailer` bytes (0, or 4..=24 = MAC-sized). Type/length words constant, contents symbolic.
/// `echo`: number of bytes of unique-identifier fields the answer must carry back (0 = none).
#[cfg(kani)]
fn wire_v4_ef(t1: u16, l1: usize, t2: u16, l2: usize, trailer: usize, class: Class, answer_fits: bool) -> Outcome {
    let mut buf: [u8; BUF] = kani::any();
    buf[0] = 0x23;
    put_ef_header(&mut buf, 48, t1, l1 as u16);
    if l2 > 0 {
        put_ef_header(&mut buf, 48 + l1, t2, l2 as u16);
    }
    let length = 48 + l1 + l2 + trailer;
    let expect = if class == Class::Time { Kind::Time } else { Kind::DenyKiss };
    let (out, stats) = wire_call!(class, buf, length, expect, answer_fits, false);
    if !answer_fits {
        assert!(out.kind.is_none() && stats.reason == ServerReason::InternalError, "an answer that does not fit the request-sized buffer is not sent and recorded as internal error");
    }
    out
}

#[cfg(kani)]
fn covers_answered(out: &Outcome, with_field: bool) {
    kani::cover!(out.kind.is_some() && (out.resp_len > 48) == with_field, "answered, extension field echoed iff it is a unique identifier");
}
#[cfg(kani)]
fn covers_not_sent(out: &Outcome) {
    kani::cover!(out.kind.is_none(), "answer did not fit: nothing sent");
}

// unique identifier of 32 bytes (what NTS clients send), alone and followed by a MAC
srv_harness! { #[kani::unwind(4)] fn c16_wire_v4_uid36_time() { let o = wire_v4_ef(0x0104, 36, 0, 0, 0, Class::Time, true); covers_answered(&o, true); } }
srv_harness! { #[kani::unwind(4)] fn c16_wire_v4_uid36_deny() { let o = wire_v4_ef(0x0104, 36, 0, 0, 0, Class::DenyList, true); covers_answered(&o, true); } }
srv_harness! { #[kani::unwind(4)] fn c16_wire_v4_uid36_mac20_time() { let o = wire_v4_ef(0x0104, 36, 0, 0, 20, Class::Time, true); covers_answered(&o, true); } }
// two unique identifiers: both echoed
srv_harness! { #[kani::unwind(5)] fn c16_wire_v4_uid36x2_time() { let o = wire_v4_ef(0x0104, 36, 0x0104, 36, 0, Class::Time, true); covers_answered(&o, true); } }
// unknown field + unique identifier: only the identifier is echoed
srv_harness! { #[kani::unwind(5)] fn c16_wire_v4_unknown_uid_time() { let o = wire_v4_ef(0x0BAD, 28, 0x0104, 36, 0, Class::Time, true); covers_answered(&o, true); } }
// cookie / unknown fields outside NTS are not echoed (a placeholder with non-zero contents is a parse error)
srv_harness! { #[kani::unwind(5)] fn c16_wire_v4_cookie_ph_time() { let o = wire_v4_ef(0x0204, 40, 0x0BAD, 28, 0, Class::Time, true); covers_answered(&o, false); } }
// short unique identifier (12 bytes, 16-byte field) + 12-byte MAC: re-encoded with the RFC 7822
// minimum of 28 bytes for a last field; 48+28 = 76 = request length: fits exactly
srv_harness! { #[kani::unwind(4)] fn c16_wire_v4_uid16_mac12_time() { let o = wire_v4_ef(0x0104, 16, 0, 0, 12, Class::Time, true); covers_answered(&o, true); } }
// the same with a 9-byte trailer (73-byte request): the 76-byte answer does not fit => nothing sent
srv_harness! { #[kani::unwind(4)] fn c16_wire_v4_uid16_mac9_time() { let o = wire_v4_ef(0x0104, 16, 0, 0, 9, Class::Time, false); covers_not_sent(&o); } }

// ------------------------------------------------------------------ NTPv5
pub const DRAFT: &[u8; 23] = b"draft-ietf-ntp-ntpv5-09";

/// NTPv5 template: header (timescale/flags words well-formed) | draft identification EF (27 on
/// the wire, 28 with padding) | EF2 (type t2, wire length w2, padded to l2 = w2 rounded up) |
/// `trailer` symbolic bytes that do not form a field.
#[cfg(kani)]
fn wire_v5(t2: u16, w2: usize, class: Class) {
    any_rng();
    let mut buf: [u8; BUF] = kani::any();
    buf[0] = 0x2B;
    // timescale 0..=3, flags: high byte 0, only the 3 low bits of the low byte
    buf[12] = 0;
    buf[14] = 0;
    let fl: u8 = kani::any();
    kani::assume(fl < 8);
    buf[15] = fl;
    put_ef_header(&mut buf, 48, 0xF5FF, 27);
    put_draft_id(&mut buf, 52);
    let l2 = (w2 + 3) & !3;
    if w2 > 0 {
        put_ef_header(&mut buf, 76, t2, w2 as u16);
    }
    let length = 76 + l2;
    let expect = if class == Class::Time { Kind::Time } else { Kind::DenyKiss };
    let (out, _stats) = wire_call!(class, buf, length, expect, true, false);
    if class == Class::Time {
        assert!(out.resp_len == length, "NTPv5 time answer is padded to exactly the request size");
    }
    kani::cover!(out.kind == Some(expect), "answered");
}

srv_harness! { #[kani::unwind(5)] fn c16_wire_v5_time() { wire_v5(0, 0, Class::Time); } }
srv_harness! { #[kani::unwind(5)] fn c16_wire_v5_deny() { wire_v5(0, 0, Class::DenyList); } }
srv_harness! { #[kani::unwind(5)] fn c16_wire_v5_uid_time() { wire_v5(0x0104, 36, Class::Time); } }
srv_harness! { #[kani::unwind(5)] fn c16_wire_v5_uid_deny() { wire_v5(0x0104, 36, Class::DenyList); } }
srv_harness! { #[kani::unwind(5)] fn c16_wire_v5_refid_time() { wire_v5(0xF503, 40, Class::Time); } }
srv_harness! { #[kani::unwind(5)] fn c16_wire_v5_padding_time() { wire_v5(0xF501, 30, Class::Time); } }
srv_harness! { #[kani::unwind(5)] fn c16_wire_v5_unknown_time() { wire_v5(0x0BAD, 17, Class::Time); } }
