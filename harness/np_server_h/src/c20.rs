//! Harnesses for property C20 (see /verif/properties.jsonl).
use crate::stubs;
