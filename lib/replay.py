"""Native replay of a solver counterexample against the real build of /repo.

The unit test that Kani prints (`--concrete-playback=print`) feeds the solver's
concrete values back into the same harness function, compiled natively (no
solver, no stubs: `#[kani::stub]` is inert in a native build) against /repo's
working tree. A failing test means the violation reproduces on the real code.
We run it in the release profile (what users run) and in the dev profile (what
Kani models: overflow checks and debug assertions on).
"""
import fcntl
import os
import re
import shutil
import subprocess
import time

from kani_run import CACHE, ENV, crate_dir
from kani_run import TAG as _TAG
# per-seed replay directories: cargo freshness is mtime based, two patched trees must never share a native target dir
TAG = _TAG + os.environ.get("VERIF_REPLAY_TAG", "")

KANI_HOME = os.path.expanduser("~/.kani/kani-0.68.0")
REPLAY_TIMEOUT = int(os.environ.get("VERIF_REPLAY_TIMEOUT", "900"))


def _prepare(crate):
    dst = os.path.join(CACHE, "replay" + TAG, crate)
    os.makedirs(dst, exist_ok=True)
    src = crate_dir(crate)
    # refresh sources, keep target/
    for name in os.listdir(src):
        if name in ("target",):
            continue
        s, d = os.path.join(src, name), os.path.join(dst, name)
        if os.path.isdir(s):
            if os.path.exists(d):
                shutil.rmtree(d)
            shutil.copytree(s, d)
        else:
            shutil.copy2(s, d)
    # harness crates include ../../common/*.rs by relative #[path]
    common_dst = os.path.join(CACHE, "replay" + TAG, "common")
    if os.path.exists(common_dst):
        shutil.rmtree(common_dst)
    shutil.copytree(os.path.join(os.path.dirname(src), "common"), common_dst)
    return dst


def test_name(test_src):
    m = re.search(r"fn (kani_concrete_playback_\w+)\(", test_src)
    return m.group(1) if m else None


def replay(crate, module, test_src, log_path=None, test=None):
    """Returns dict(release=..., dev=...) with values 'reproduced' | 'not_reproduced' | 'error'."""
    os.makedirs(os.path.join(CACHE, "replay" + TAG), exist_ok=True)
    lock = os.open(os.path.join(CACHE, "replay" + TAG, crate + ".lock"), os.O_CREAT | os.O_RDWR)
    fcntl.flock(lock, fcntl.LOCK_EX)
    out_all = ""
    result = {}
    try:
        dst = _prepare(crate)
        if test is None:
            modfile = os.path.join(dst, "src", module.replace("::", "/") + ".rs")
            with open(modfile, "a") as f:
                f.write("\n" + test_src + "\n")
            name = test_name(test_src)
        else:
            name = test  # an ordinary #[test] already present in the harness module (path relative to module)
        for profile in ("release", "dev"):
            # Same invocation `cargo kani playback` performs, except that for the release
            # replay Kani's forced `-Coverflow-checks=on` is dropped and cargo's release
            # profile is used (opt-level 3, no overflow checks, no debug assertions).
            flags = [
                "-Zunstable-options", "-Ztrim-diagnostic-paths=no", "-Zhuman_readable_cgu_names",
                "-Zalways-encode-mir", "--cfg=kani", "-Zcrate-attr=feature(register_tool)",
                "-Zcrate-attr=register_tool(kanitool)", "--sysroot", KANI_HOME + "/playback",
                "-L", KANI_HOME + "/playback/lib", "--extern", "force:kani",
                "--extern", "noprelude,nounused:std=" + KANI_HOME + "/playback/lib/libstd.rlib",
            ]
            if profile == "dev":
                flags = ["-Coverflow-checks=on"] + flags
            env = dict(ENV)
            env["CARGO_ENCODED_RUSTFLAGS"] = "\x1f".join(flags)
            env["RUSTC"] = KANI_HOME + "/bin/kani-compiler"
            cmd = [KANI_HOME + "/toolchain/bin/cargo", "test", "--lib", "--target", "x86_64-unknown-linux-gnu",
                   "-Zhost-config", "-Ztarget-applies-to-host", '--config=host.rustflags=["--cfg=kani_host"]']
            if profile == "release":
                cmd.append("--release")
            cmd += ["--", "%s::%s" % (module, name), "--exact", "--nocapture"]
            t0 = time.time()
            try:
                p = subprocess.run(cmd, cwd=dst, env=env, stdout=subprocess.PIPE, stderr=subprocess.STDOUT,
                                   text=True, errors="replace", timeout=REPLAY_TIMEOUT)
                out = p.stdout
            except subprocess.TimeoutExpired as e:
                out = "TIMEOUT"
            out_all += "\n===== %s (%.1fs) =====\n%s" % (profile, time.time() - t0, out)
            if re.search(r"test result: FAILED|panicked at|\(signal: 6|SIGABRT|process abort", out) and "running 1 test" in out:
                result[profile] = "reproduced"
            elif re.search(r"test result: ok\. 1 passed", out):
                result[profile] = "not_reproduced"
            else:
                result[profile] = "error"
            m = re.search(r"panicked at ([^\n]*)\n([^\n]*)", out)
            if m:
                result[profile + "_panic"] = (m.group(1) + " " + m.group(2)).strip()[:300]
    finally:
        fcntl.flock(lock, fcntl.LOCK_UN)
        os.close(lock)
    if log_path:
        with open(log_path, "w") as f:
            f.write(out_all)
    return result
