//! Harnesses for property C04 (see /verif/properties.jsonl).
use crate::stubs;
