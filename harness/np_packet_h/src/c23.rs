//! Harnesses for property C23 (see /verif/properties.jsonl): the NTP packet decoder is total.
//!
//! Every harness calls the public `NtpPacket::deserialize` on a byte image and requires only
//! that it returns (Kani's built-in checks flag every panic, failed slice index, arithmetic
//! overflow and `unwrap` on the way). Key contexts: `NoCipher`, a client session cipher
//! (`OracleCipher`, see common.rs) and the server's real `KeySet` with the AES-SIV primitives
//! stubbed by the oracle model (the real `KeySet::get`/`decode_cookie` run).
use crate::common::*;
use crate::stubs;
use ntp_proto::{CipherProvider, NoCipher, NtpPacket};

/// Unstructured input: 52 symbolic bytes, symbolic length 0..=52 (backing array 56 bytes: see
/// common.rs on one-past-the-end pointers).
fn unstructured<C: CipherProvider + ?Sized>(cipher: &C) {
    let buf: [u8; 56] = kani::any();
    let len: usize = kani::any();
    kani::assume(len <= 52);
    let version = (buf[0] >> 3) & 7;
    let r = decode(&buf[..len], cipher);
    match &r {
        Outcome::Accepted(p, cookie) => {
            // oracle from the wire format: nothing shorter than a header is a packet, only
            // versions 3..5 exist, a v5 packet needs a draft identification field (28 bytes)
            assert!(len >= 48, "accepted packets have a full header");
            assert!(version == 3 || version == 4, "no NTPv5 packet fits into 52 bytes");
            assert!(!*cookie, "no cookie without an NTS field");
        }
        Outcome::DecryptFailed(_) => assert!(false, "an NTS field needs more than 4 bytes"),
        Outcome::Rejected => {}
    }
    let code = r.code();
    kani::cover!(code == ACC && len == 48 && version == 3, "v3 header accepted");
    kani::cover!(code == ACC && len == 52 && version == 4, "v4 header + crypto-NAK accepted");
    kani::cover!(code == REJ && version == 5 && len == 52, "v5 rejected");
    kani::cover!(code == REJ && len == 0, "empty rejected");
    kani::cover!(code == REJ && len == 47, "short header rejected");
    kani::cover!(code == REJ && version == 5 && len == 48 && buf[12] > 3, "v5 header: bad timescale");
}

// Unwind bounds of the unstructured harnesses: 52 bytes hold at most one 4-byte NTPv5 field (field
// loop: 2 head visits; NTPv4 parses no field at all below 73 bytes); the 4 draws of the oracle tape
// need 5. Every further iteration of the field loop is explored on infeasible paths at ~1 min each.
pharness! {
    #[kani::unwind(3)]
    fn c23_u_nocipher() {
        unstructured(&NoCipher);
    }
}
pharness! {
    #[kani::unwind(5)]
    fn c23_u_client() {
        symbolic_oracle();
        unstructured(&OracleCipher);
    }
}
pharness! {
    #[kani::unwind(5)]
    #[kani::stub(ntp_proto::verif::packet::crypto::AesSivCmac256::try_from, crate::common::aes256_try_from_stub)]
    #[kani::stub(ntp_proto::verif::packet::crypto::AesSivCmac512::try_from, crate::common::aes512_try_from_stub)]
    fn c23_u_keyset() {
        symbolic_oracle();
        symbolic_cookie_plaintext();
        let id_offset: u32 = kani::any();
        let ks = real_keyset(id_offset);
        unstructured(&ks);
    }
}

// ------------------------------------------------------------------ layout templates
/// Decode one template image; returns the outcome code. The decoded packet is not dropped
/// (dropping three `Vec<ExtensionField>` is the most expensive part of symbolic execution and is
/// not part of the decoder).
fn run<const N: usize, const K: usize, C: CipherProvider + ?Sized>(img: &Img<N, K>, cipher: &C) -> u8 {
    let r = decode(&img.buf[..img.len], cipher);
    let code = r.code();
    if let Outcome::Accepted(p, _) = &r {
        // wire format: an accepted packet carries at most as many fields as fit
        let n = ntp_proto::verif::packet::packet_untrusted(p).len()
            + ntp_proto::verif::packet::packet_authenticated(p).len();
        assert!(n * 4 <= img.len - 48, "every field occupies at least 4 bytes");
    }
    std::mem::forget(r);
    code
}

const V4C: u8 = 0x23; // leap 0, version 4, mode 3 (client)
const V4S: u8 = 0xE4; // leap 3, version 4, mode 4 (server)
const V5Q: u8 = 0x2B; // version 5 request
const V5R: u8 = 0x6C; // leap 1, version 5 response
const T_OTHER: u16 = 0x1234;

/// Build one concrete layout (see common::layout), optionally overwrite the length word of field
/// `relen.0` with `relen.1` (impossible lengths) and the nonce/ciphertext length words of the NTS
/// field `words.0`, and decode it. Field types are concrete per image: a symbolic type merges
/// nine enum variants and costs ~50 s of symbolic execution per image instead of ~4 s (measured).
/// Images that make the decoder fail cost ~600k SSA steps each (error values are niche-encoded
/// unions whose discriminant CBMC cannot constant-fold after a variant was written through another
/// member), so harnesses hold at most two of them.
fn one<const N: usize, const K: usize, C: CipherProvider + ?Sized>(
    b0: u8,
    v5ctl: Option<(u8, u8)>,
    fields: [F; K],
    trailer: usize,
    cut: usize,
    relen: Option<(usize, u16)>,
    words: Option<(usize, u16, u16)>,
    cipher: &C,
) -> u8 {
    let mut img: Img<N, K> = layout(b0, v5ctl, fields, trailer, cut);
    if let Some((k, l)) = relen {
        pin16(&mut img.buf, img.off[k] + 2, l);
    }
    if let Some((k, nl, cl)) = words {
        pin16(&mut img.buf, img.off[k] + 4, nl);
        pin16(&mut img.buf, img.off[k] + 6, cl);
    }
    run(&img, cipher)
}
const fn fld(ty: u16, l: u16) -> F {
    f(Ty::Is(ty), l, l)
}

/// Key contexts. `$body` is evaluated with `$c` bound to the provider.
macro_rules! with_nocipher {
    ($n:ident, $unw:expr, |$c:ident| $body:block) => {
        pharness! {
            #[kani::unwind($unw)]
            fn $n() {
                let $c = &NoCipher;
                $body
            }
        }
    };
}
macro_rules! with_client {
    ($n:ident, $unw:expr, |$c:ident| $body:block) => {
        pharness! {
            #[kani::unwind($unw)]
            fn $n() {
                symbolic_oracle();
                let $c = &OracleCipher;
                $body
            }
        }
    };
}
macro_rules! with_keyset {
    ($n:ident, $unw:expr, |$c:ident| $body:block) => {
        pharness! {
            #[kani::unwind($unw)]
            #[kani::stub(ntp_proto::verif::packet::crypto::AesSivCmac256::try_from, crate::common::aes256_try_from_stub)]
            #[kani::stub(ntp_proto::verif::packet::crypto::AesSivCmac512::try_from, crate::common::aes512_try_from_stub)]
            fn $n() {
                symbolic_oracle();
                symbolic_cookie_plaintext();
                let id_offset: u32 = kani::any();
                let ks = real_keyset(id_offset);
                let $c = &ks;
                $body
            }
        }
    };
}

// ================================================================== short inputs (0..=52 bytes)
// The fully unstructured harnesses c23_u_* (every byte and the length symbolic) are kept above but
// are NOT registered: with a symbolic version and length the three version paths, the NTPv5 header
// error merges and the field loop on symbolic offsets add up to 3.0M SSA steps (535 s of symbolic
// execution, solver out of memory at 12 GB; measured). The short inputs are covered by layouts
// instead: length and the first header byte concrete, NTPv5 control bytes concrete (valid and each
// kind of invalid), everything else symbolic.
fn short<const N: usize, C: CipherProvider + ?Sized>(b0: u8, v5ctl: Option<(u8, u8, u8)>, len: usize, c: &C) -> u8 {
    let mut buf: [u8; N] = kani::any();
    assert!(len < N);
    buf[0] = b0;
    if let Some((ts, f0, f1)) = v5ctl {
        buf[12] = ts;
        buf[14] = f0;
        buf[15] = f1;
    }
    let r = decode(&buf[..len], c);
    let code = r.code();
    std::mem::forget(r);
    code
}
with_nocipher!(c23_s_v3_n, 5, |c| {
    let a = short::<56, _>(0x1B, None, 48, c);
    let m = short::<56, _>(0xDC, None, 52, c);
    assert!(a == ACC && m == ACC, "v3 header (+ 4-byte MAC) accepted");
    kani::cover!(a == ACC, "reached");
});
with_nocipher!(c23_s_v4_n, 5, |c| {
    let a = short::<56, _>(V4C, None, 48, c);
    let m = short::<56, _>(V4S, None, 52, c);
    assert!(a == ACC && m == ACC, "v4 header (+ crypto-NAK sized MAC) accepted");
    kani::cover!(a == ACC, "reached");
});
with_nocipher!(c23_s_short_n, 5, |c| {
    let e = short::<56, _>(V4C, None, 0, c);
    let s3 = short::<56, _>(0x1B, None, 47, c);
    assert!(e == REJ && s3 == REJ, "empty input and a 47-byte v3 header are refused");
    kani::cover!(e == REJ, "reached");
});
with_nocipher!(c23_s_short45_n, 5, |c| {
    let s4 = short::<56, _>(V4C, None, 47, c);
    let s5 = short::<56, _>(V5Q, Some((0, 0, 1)), 47, c);
    assert!(s4 == REJ && s5 == REJ, "47-byte v4/v5 headers are refused");
    kani::cover!(s4 == REJ, "reached");
});
with_nocipher!(c23_s_mac_short_n, 5, |c| {
    let m1 = short::<56, _>(0x1B, None, 49, c);
    let m3 = short::<56, _>(V4C, None, 51, c);
    assert!(m1 == REJ && m3 == REJ, "1..3 byte MAC refused");
    kani::cover!(m1 == REJ, "reached");
});
with_nocipher!(c23_s_version_n, 5, |c| {
    let v0 = short::<56, _>(0x03, None, 48, c);
    let v2 = short::<56, _>(0x13, None, 52, c);
    let v7 = short::<56, _>(0x3B, None, 48, c);
    assert!(v0 == REJ && v2 == REJ && v7 == REJ, "versions other than 3, 4, 5 are refused");
    kani::cover!(v0 == REJ, "reached");
});
with_nocipher!(c23_s_v5_n, 5, |c| {
    let h = short::<56, _>(V5Q, Some((0, 0, 1)), 48, c);
    assert!(h == REJ, "a v5 header without draft identification is refused");
    kani::cover!(h == REJ, "reached");
});
// NTPv5 header validation errors, one image per harness: after an early `return Err` of the header
// parser the merged value hides the constant header size and the whole field parser is explored on
// symbolic offsets (infeasible paths), ~10 min of symbolic execution per image.
macro_rules! v5_bad_header {
    ($n:ident, $b0:expr, $ctl:expr, $len:expr) => {
        with_nocipher!($n, 5, |c| {
            let x = short::<56, _>($b0, Some($ctl), $len, c);
            assert!(x == REJ, "invalid NTPv5 header refused");
            kani::cover!(x == REJ, "reached");
        });
    };
}
v5_bad_header!(c23_s_v5_mode0_n, 0x28, (0, 0, 1), 48);
v5_bad_header!(c23_s_v5_mode7_n, 0x2F, (0, 0, 1), 52);
v5_bad_header!(c23_s_v5_timescale_n, V5Q, (4, 0, 1), 48);
v5_bad_header!(c23_s_v5_flags0_n, V5R, (0, 1, 0), 48);
v5_bad_header!(c23_s_v5_flags1_n, V5R, (3, 0, 8), 48);

// ================================================================== NTPv4, no keys
// RFC 7822: fields are parsed only while more than 24 bytes remain; the rest (4..=24 bytes) is a MAC.
with_nocipher!(c23_t_v4_ok_n, 5, |c| {
    let a = one::<80, 1, _>(V4C, None, [fld(T_UID, 28)], 0, 0, None, None, c);
    let d = one::<104, 1, _>(V4C, None, [fld(T_COOKIE, 28)], 24, 0, None, None, c);
    let e = one::<80, 1, _>(V4S, None, [fld(T_OTHER, 4)], 24, 0, None, None, c);
    let g = one::<80, 1, _>(V4C, None, [fld(T_DRAFT, 8)], 17, 0, None, None, c);
    let h = one::<80, 1, _>(V4C, None, [fld(T_REFID_REQ, 24)], 4, 0, None, None, c);
    let p = one::<80, 1, _>(V4S, None, [fld(T_PLACEHOLDER, 4)], 24, 0, None, None, c);
    assert!(a == ACC && d == ACC && e == ACC && g == ACC && h == ACC && p == ACC, "well-formed v4 packets with opaque fields (+ MAC of 4/17/24 bytes) are accepted");
    kani::cover!(a == ACC, "reached");
});
/// quick-tier representatives
with_nocipher!(c23_t_v4_q_n, 5, |c| {
    let a = one::<80, 1, _>(V4C, None, [fld(T_UID, 28)], 0, 0, None, None, c);
    let d = one::<104, 1, _>(V4S, None, [fld(T_COOKIE, 28)], 24, 0, None, None, c);
    assert!(a == ACC && d == ACC, "well-formed v4 packets are accepted");
    kani::cover!(a == ACC, "reached");
});
with_nocipher!(c23_t_v5_q_n, 5, |c| {
    let c5 = one::<100, 2, _>(V5Q, Some((1, 1)), [DRAFT_F, fld(T_COOKIE, 5)], 0, 0, None, None, c);
    let c17 = one::<100, 2, _>(V5R, Some((0, 1)), [fld(T_OTHER, 17), DRAFT_F], 0, 0, None, None, c);
    assert!(c5 == ACC && c17 == ACC, "well-formed v5 packets with odd field lengths are accepted");
    kani::cover!(c17 == ACC, "reached");
});
with_nocipher!(c23_t_v4_multi_n, 5, |c| {
    let a = one::<96, 2, _>(V4C, None, [fld(T_UID, 16), fld(T_COOKIE, 28)], 0, 0, None, None, c);
    let b = one::<116, 2, _>(V4S, None, [fld(T_OTHER, 16), fld(T_UID, 28)], 20, 0, None, None, c);
    let d = one::<112, 3, _>(V4C, None, [fld(T_UID, 16), fld(T_COOKIE, 16), fld(T_OTHER, 28)], 0, 0, None, None, c);
    assert!(a == ACC && b == ACC && d == ACC, "two/three well-formed fields (+ MAC) are accepted");
    kani::cover!(d == ACC, "reached");
});
with_nocipher!(c23_t_v4_placeholder_n, 7, |c| {
    // 4-byte body (the all-zero check is a loop over the body; the global bound is kept small)
    let a = one::<80, 1, _>(V4C, None, [fld(T_PLACEHOLDER, 8)], 17, 0, None, None, c);
    kani::cover!(a == ACC, "all-zero placeholder accepted");
    kani::cover!(a == REJ, "non-zero placeholder refused");
});
with_nocipher!(c23_t_v4_trunc_n, 5, |c| {
    let b = one::<80, 1, _>(V4C, None, [fld(T_UID, 28)], 0, 1, None, None, c);
    assert!(b == REJ, "a field one byte longer than the packet is refused");
    kani::cover!(b == REJ, "reached");
});
with_nocipher!(c23_t_v4_long_n, 5, |c| {
    let x = one::<88, 1, _>(V4S, None, [fld(T_COOKIE, 32)], 0, 4, None, None, c);
    assert!(x == REJ, "a field four bytes longer than the packet is refused");
    kani::cover!(x == REJ, "reached");
});
with_nocipher!(c23_t_v4_multi_trunc_n, 5, |c| {
    let x = one::<96, 2, _>(V4C, None, [fld(T_UID, 16), fld(T_UID, 28)], 0, 2, None, None, c);
    assert!(x == REJ, "truncated second field refused");
    kani::cover!(x == REJ, "reached");
});
macro_rules! v4_badlen {
    ($n:ident, $l:expr) => {
        with_nocipher!($n, 5, |c| {
            let x = one::<80, 1, _>(V4C, None, [fld(T_UID, 28)], 0, 0, Some((0, $l)), None, c);
            assert!(x == REJ, "impossible length word refused");
            kani::cover!(x == REJ, "reached");
        });
    };
}
v4_badlen!(c23_t_v4_len0_n, 0);
v4_badlen!(c23_t_v4_len3_n, 3);
v4_badlen!(c23_t_v4_len30_n, 30);
v4_badlen!(c23_t_v4_lenmax_n, 0xFFFF);

// ================================================================== NTPv5, no keys
with_nocipher!(c23_t_v5_ok_n, 5, |c| {
    let c4 = one::<100, 2, _>(V5Q, Some((0, 0)), [DRAFT_F, fld(T_UID, 4)], 0, 0, None, None, c);
    let c5 = one::<100, 2, _>(V5Q, Some((1, 1)), [DRAFT_F, fld(T_COOKIE, 5)], 0, 0, None, None, c);
    let c6 = one::<100, 2, _>(V5Q, Some((2, 2)), [DRAFT_F, fld(T_REFID_REQ, 6)], 0, 0, None, None, c);
    let c7 = one::<100, 2, _>(V5R, Some((3, 4)), [DRAFT_F, fld(T_REFID_RESP, 7)], 0, 0, None, None, c);
    let c8 = one::<100, 2, _>(V5R, Some((0, 7)), [fld(T_PADDING, 8), DRAFT_F], 0, 0, None, None, c);
    let c17 = one::<100, 2, _>(V5Q, Some((0, 1)), [fld(T_OTHER, 17), DRAFT_F], 0, 0, None, None, c);
    assert!(c4 == ACC && c5 == ACC && c6 == ACC && c7 == ACC && c8 == ACC && c17 == ACC, "well-formed v5 packets (odd field lengths, padded) are accepted");
    kani::cover!(c17 == ACC, "reached");
});
with_nocipher!(c23_t_v5_placeholder_n, 7, |c| {
    let a = one::<100, 2, _>(V5Q, Some((0, 1)), [DRAFT_F, fld(T_PLACEHOLDER, 7)], 0, 0, None, None, c);
    kani::cover!(a == ACC, "all-zero placeholder accepted");
    kani::cover!(a == REJ, "non-zero placeholder refused");
});
with_nocipher!(c23_t_v5_nopad5_n, 5, |c| {
    let x = one::<100, 2, _>(V5Q, Some((0, 1)), [DRAFT_F, fld(T_UID, 5)], 0, 1, None, None, c);
    assert!(x == REJ, "v5 field whose padding is missing is refused");
    kani::cover!(x == REJ, "reached");
});
with_nocipher!(c23_t_v5_nopad17_n, 5, |c| {
    let x = one::<100, 2, _>(V5Q, Some((0, 1)), [DRAFT_F, fld(T_OTHER, 17)], 0, 3, None, None, c);
    assert!(x == REJ, "v5 field whose padding is missing is refused");
    kani::cover!(x == REJ, "reached");
});
with_nocipher!(c23_t_v5_len3_n, 5, |c| {
    let x = one::<100, 2, _>(V5Q, Some((0, 1)), [DRAFT_F, fld(T_UID, 8)], 0, 0, Some((1, 3)), None, c);
    assert!(x == REJ, "length below the field header refused");
    kani::cover!(x == REJ, "reached");
});
with_nocipher!(c23_t_v5_lenmax_n, 5, |c| {
    let x = one::<100, 2, _>(V5Q, Some((0, 1)), [DRAFT_F, fld(T_UID, 8)], 0, 0, Some((1, 0xFFFF)), None, c);
    assert!(x == REJ, "length beyond the packet refused");
    kani::cover!(x == REJ, "reached");
});
with_nocipher!(c23_t_v5_refid_short_n, 5, |c| {
    let x = one::<100, 2, _>(V5Q, Some((0, 1)), [DRAFT_F, fld(T_REFID_REQ, 5)], 0, 0, None, None, c);
    assert!(x == REJ, "reference id request without room for its offset refused");
    kani::cover!(x == REJ, "reached");
});
with_nocipher!(c23_t_v5_nodraft_n, 5, |c| {
    let x = one::<76, 2, _>(V5Q, Some((0, 1)), [fld(T_UID, 13), fld(T_OTHER, 7)], 0, 0, None, None, c);
    assert!(x == REJ, "v5 packet without draft identification refused");
    kani::cover!(x == REJ, "reached");
});
/// draft identification field with symbolic content: accepted iff it is the expected string
with_nocipher!(c23_t_v5_draft_sym_n, 5, |c| {
    let img: Img<80, 1> = layout(V5Q, Some((0, 1)), [fld(T_DRAFT, 27)], 0, 0);
    let code = run(&img, c);
    let exact = {
        let mut same = true;
        macro_rules! cmp { ($($i:expr),*) => { $( if img.buf[52 + $i] != DRAFT[$i] { same = false; } )* } }
        cmp!(0, 1, 2, 3, 4, 5, 6, 7, 8, 9, 10, 11, 12, 13, 14, 15, 16, 17, 18, 19, 20, 21, 22);
        same
    };
    assert!((code == ACC) == exact, "accepted iff the draft string is the expected one");
    assert!(code != DEC, "no NTS field");
    kani::cover!(code == ACC, "expected draft string found by the solver");
    kani::cover!(code == REJ && img.buf[52] >= 0x80, "non-ASCII draft string");
});
with_nocipher!(c23_t_v5_draft_second_n, 5, |c| {
    let e = one::<92, 2, _>(V5Q, Some((0, 1)), [DRAFT_F, fld(T_DRAFT, 10)], 0, 0, None, None, c);
    kani::cover!(e == ACC, "second draft field with other ASCII content tolerated");
    kani::cover!(e == REJ, "second draft field with non-ASCII content refused");
});
with_nocipher!(c23_t_v5_draft_first_wrong_n, 5, |c| {
    let g = one::<92, 2, _>(V5Q, Some((0, 1)), [fld(T_DRAFT, 10), DRAFT_F], 0, 0, None, None, c);
    assert!(g == REJ, "the first draft identification field decides");
    kani::cover!(g == REJ, "reached");
});

// ================================================================== NTS fields
// RFC 8915 5.6: words nonce length / ciphertext length, nonce, ciphertext. NTPv4: preceded by a
// 28-byte cookie field (24 bytes of cookie); field length 52 = 8 + 16 + 28, so a 16-byte nonce and
// a 28-byte ciphertext (12 bytes of plaintext + tag under the oracle model) fit exactly. The two
// length words are concrete per image; nonce, ciphertext (= plaintext, parsed as a sequence of
// fields with symbolic type/length words) symbolic.
const NTS4: [F; 2] = [fld(T_COOKIE, 28), fld(T_NTS, 52)];
const NTS5: [F; 2] = [DRAFT_F, fld(T_NTS, 50)];
const NTS5C: [F; 3] = [DRAFT_F, fld(T_COOKIE, 28), fld(T_NTS, 50)];
macro_rules! nts4 { ($c:expr, $nl:expr, $cl:expr, $t:expr) => { one::<136, 2, _>(V4C, None, NTS4, $t, 0, None, Some((1, $nl, $cl)), $c) } }
macro_rules! nts5 { ($c:expr, $nl:expr, $cl:expr) => { one::<132, 2, _>(V5Q, Some((0, 1)), NTS5, 0, 0, None, Some((1, $nl, $cl)), $c) } }
macro_rules! nts5c { ($c:expr, $nl:expr, $cl:expr) => { one::<160, 3, _>(V5Q, Some((0, 1)), NTS5C, 0, 0, None, Some((2, $nl, $cl)), $c) } }

with_nocipher!(c23_t_nts_v4_n, 5, |c| {
    let ok = nts4!(c, 16, 28, 0);
    assert!(ok == DEC, "well-formed NTS field without keys: decrypt error, never accepted");
    kani::cover!(ok == DEC, "reached");
});
with_nocipher!(c23_t_nts_v4_long_n, 5, |c| {
    let long = nts4!(c, 16, 29, 0);
    assert!(long == REJ, "ciphertext length pointing outside the field refused");
    kani::cover!(long == REJ, "reached");
});
with_nocipher!(c23_t_nts_v4_short_n, 5, |c| {
    let e = one::<80, 1, _>(V4S, None, [fld(T_NTS, 4)], 24, 0, None, None, c);
    assert!(e == REJ, "NTS field without its length words refused");
    kani::cover!(e == REJ, "reached");
});
with_nocipher!(c23_t_nts_v5_n, 5, |c| {
    let ok = nts5!(c, 16, 26);
    assert!(ok == DEC, "well-formed NTS field without keys: decrypt error, never accepted");
    kani::cover!(ok == DEC, "reached");
});

// client session keys
with_client!(c23_t_nts_v4_c, 5, |c| {
    // 20-byte ciphertext = 4 bytes of plaintext (one empty field, or garbage) + tag. The decrypted
    // plaintext lives on the heap, where CBMC loses all constants, so its field loop runs to the
    // harness' global unwind bound and every iteration costs ~1 min of symbolic execution: the
    // bound is kept at 5 (>= the 4 draws of the oracle tape).
    let ok = nts4!(c, 16, 20, 0);
    kani::cover!(ok == ACC, "decrypted, plaintext parsed");
    kani::cover!(ok == REJ, "decrypted, malformed plaintext");
    kani::cover!(ok == DEC, "decryption refused");
});
with_client!(c23_t_nts_v4_mac_c, 5, |c| {
    let mac = nts4!(c, 16, 20, 4);
    kani::cover!(mac == ACC, "with trailing MAC");
});
/// Successful decryption of an empty plaintext (ciphertext = tag): the only accepting path whose
/// symbolic execution fits (a non-empty plaintext lives on the heap: 2.5M SSA steps, out of memory).
with_client!(c23_t_nts_v4_empty_c, 5, |c| {
    let empty = nts4!(c, 16, 16, 0);
    kani::cover!(empty == ACC, "decrypted, empty plaintext: accepted, preceding cookie field authenticated");
    kani::cover!(empty == DEC, "decryption refused");
});
with_client!(c23_t_nts_v5_empty_c, 5, |c| {
    let empty = nts5!(c, 16, 16);
    kani::cover!(empty == ACC, "decrypted, empty plaintext");
    kani::cover!(empty == DEC, "decryption refused");
});
with_client!(c23_t_nts_v4_notag_c, 5, |c| {
    let short = nts4!(c, 16, 15, 0);
    assert!(short == DEC, "ciphertext shorter than a tag: never accepted");
    kani::cover!(short == DEC, "reached");
});
with_client!(c23_t_nts_v4_nonce_c, 5, |c| {
    let odd = nts4!(c, 13, 20, 0);
    let nonce0 = nts4!(c, 0, 20, 0);
    assert!(odd == DEC && nonce0 == DEC, "no 16-byte nonce: refused by the cipher model (see assumptions)");
    kani::cover!(odd == DEC, "reached");
});
with_client!(c23_t_nts_v4_huge_c, 5, |c| {
    let huge = nts4!(c, 0xFFFF, 0xFFFF, 0);
    assert!(huge == REJ, "length words pointing outside the field refused");
    kani::cover!(huge == REJ, "reached");
});
with_client!(c23_t_nts_v5_c, 5, |c| {
    let ok = nts5!(c, 16, 20);
    kani::cover!(ok == ACC, "decrypted, plaintext parsed");
    kani::cover!(ok == DEC, "decryption refused");
});
with_client!(c23_t_nts_v5_odd_c, 5, |c| {
    let odd = nts5!(c, 16, 21);
    kani::cover!(odd == ACC, "odd ciphertext length (5 bytes of plaintext)");
});
with_client!(c23_t_nts_v5_long_c, 5, |c| {
    let long = nts5!(c, 16, 27);
    assert!(long == REJ, "ciphertext longer than the field refused");
    kani::cover!(long == REJ, "reached");
});

// server cookie keys (real KeySet::get / decode_cookie; AES-SIV stubbed by the oracle model)
/// Server keys, cookie present, every AEAD call refused (oracle tape all false): the real
/// `KeySet::get` / `KeySet::decode_cookie` run on arbitrary cookie bytes (too short, unknown key id,
/// ciphertext length beyond the cookie, refused by the cookie key) and the packet ends as a decrypt
/// error. The accepting path (cookie decrypted, session keys built, field decrypted) does not fit:
/// 3.1M SSA steps, 886 s of symbolic execution, solver out of memory at 12 GB (c23_t_nts_v4_k below,
/// not registered); what decode_cookie does with a decrypted cookie is C26's subject.
with_keyset!(c23_t_nts_v4_refused_k, 5, |c| {
    unsafe { ORACLE_ACCEPT = [false; TAPE]; }
    let x = nts4!(c, 16, 16, 0);
    assert!(x == DEC, "cookie not accepted by the server keys: decrypt error");
    kani::cover!(x == DEC, "reached");
});
with_keyset!(c23_t_nts_v5_refused_k, 5, |c| {
    unsafe { ORACLE_ACCEPT = [false; TAPE]; }
    let x = nts5c!(c, 16, 16);
    assert!(x == DEC, "cookie not accepted by the server keys: decrypt error");
    kani::cover!(x == DEC, "reached");
});
with_keyset!(c23_t_nts_v4_k, 5, |c| {
    // empty plaintext (ciphertext = tag): the key-size loops of decode_cookie need a large global
    // unwind bound, which the plaintext field parser would spend on infeasible iterations
    let ok = nts4!(c, 16, 16, 0);
    kani::cover!(ok == ACC, "cookie decoded (real decode_cookie), field decrypted");
    kani::cover!(ok == DEC, "cookie or field refused");
});
with_keyset!(c23_t_nts_v4_nocookie_k, 5, |c| {
    let x = one::<104, 1, _>(V4C, None, [fld(T_NTS, 52)], 0, 0, None, Some((0, 16, 16)), c);
    assert!(x == DEC, "NTS field without cookie: no key, decrypt error");
    kani::cover!(x == DEC, "reached");
});
with_keyset!(c23_t_nts_v4_twocookies_k, 5, |c| {
    let x = one::<160, 3, _>(V4C, None, [fld(T_COOKIE, 28), fld(T_COOKIE, 28), fld(T_NTS, 52)], 0, 0, None, Some((2, 16, 16)), c);
    assert!(x == DEC, "two cookies: no key, decrypt error");
    kani::cover!(x == DEC, "reached");
});
with_keyset!(c23_t_nts_v5_k, 5, |c| {
    let ok = nts5c!(c, 16, 16);
    kani::cover!(ok == ACC, "cookie decoded (real decode_cookie), field decrypted");
    kani::cover!(ok == DEC, "cookie or field refused");
});
