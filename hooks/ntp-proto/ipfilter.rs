//! Safe-Rust verification hooks for this module (accessors/wrappers only; no logic).
#![allow(unused_imports, dead_code)]
use super::*;

// --- C31 (np_misc_h): IpFilter is crate-private; wrapper + thin forwarding calls.
pub struct Filter(pub(crate) IpFilter);
pub fn filter_new(subnets: &[IpSubnet]) -> Filter {
    Filter(IpFilter::new(subnets))
}
pub fn filter_is_in(f: &Filter, addr: IpAddr) -> bool {
    f.0.is_in(addr)
}
pub fn filter_node_count(f: &Filter) -> (usize, usize) {
    (f.0.ipv4_filter.nodes.len(), f.0.ipv6_filter.nodes.len())
}

// --- C17/C18/C19 (np_srvnts_h): raw constructor for a one-node filter (no `IpFilter::new`, which is
// C31's subject and very expensive to execute symbolically). Bit i of `v4_top`/`v6_top` set <=> every
// address whose most significant nibble is i is in the set; all other addresses are outside.
pub fn filter_from_top_nibbles(v4_top: u16, v6_top: u16) -> Filter {
    Filter(IpFilter {
        ipv4_filter: BitTree { nodes: vec![TreeNode { child_offset: 1, inset: v4_top, outset: !v4_top }] },
        ipv6_filter: BitTree { nodes: vec![TreeNode { child_offset: 1, inset: v6_top, outset: !v6_top }] },
    })
}

// --- C31 (np_misc_h): raw node access. `filter_nodes` reads the two tries as
// (child_offset, inset, outset) triples; `filter_from_nodes` rebuilds a filter from such triples.
pub fn filter_nodes(f: &Filter) -> (Vec<(u32, u16, u16)>, Vec<(u32, u16, u16)>) {
    (
        f.0.ipv4_filter.nodes.iter().map(|n| (n.child_offset, n.inset, n.outset)).collect(),
        f.0.ipv6_filter.nodes.iter().map(|n| (n.child_offset, n.inset, n.outset)).collect(),
    )
}
pub fn filter_from_nodes(v4: &[(u32, u16, u16)], v6: &[(u32, u16, u16)]) -> Filter {
    Filter(IpFilter {
        ipv4_filter: BitTree { nodes: v4.iter().map(|&(child_offset, inset, outset)| TreeNode { child_offset, inset, outset }).collect() },
        ipv6_filter: BitTree { nodes: v6.iter().map(|&(child_offset, inset, outset)| TreeNode { child_offset, inset, outset }).collect() },
    })
}

// Loop-free variants for fixed table widths (a copy loop would force the harness' unwinding
// bound, and with it every `lookup` loop, up to the table width).
macro_rules! node_at {
    ($v:expr, $i:expr) => {
        TreeNode { child_offset: $v[$i].0, inset: $v[$i].1, outset: $v[$i].2 }
    };
}
pub fn filter_from_nodes_16_1(v4: &[(u32, u16, u16); 16], v6: &[(u32, u16, u16); 1]) -> Filter {
    Filter(IpFilter {
        ipv4_filter: BitTree { nodes: vec![node_at!(v4, 0), node_at!(v4, 1), node_at!(v4, 2), node_at!(v4, 3), node_at!(v4, 4), node_at!(v4, 5), node_at!(v4, 6), node_at!(v4, 7), node_at!(v4, 8), node_at!(v4, 9), node_at!(v4, 10), node_at!(v4, 11), node_at!(v4, 12), node_at!(v4, 13), node_at!(v4, 14), node_at!(v4, 15)] },
        ipv6_filter: BitTree { nodes: vec![node_at!(v6, 0)] },
    })
}
pub fn filter_from_nodes_1_64(v4: &[(u32, u16, u16); 1], v6: &[(u32, u16, u16); 64]) -> Filter {
    Filter(IpFilter {
        ipv4_filter: BitTree { nodes: vec![node_at!(v4, 0)] },
        ipv6_filter: BitTree { nodes: vec![node_at!(v6, 0), node_at!(v6, 1), node_at!(v6, 2), node_at!(v6, 3), node_at!(v6, 4), node_at!(v6, 5), node_at!(v6, 6), node_at!(v6, 7), node_at!(v6, 8), node_at!(v6, 9), node_at!(v6, 10), node_at!(v6, 11), node_at!(v6, 12), node_at!(v6, 13), node_at!(v6, 14), node_at!(v6, 15), node_at!(v6, 16), node_at!(v6, 17), node_at!(v6, 18), node_at!(v6, 19), node_at!(v6, 20), node_at!(v6, 21), node_at!(v6, 22), node_at!(v6, 23), node_at!(v6, 24), node_at!(v6, 25), node_at!(v6, 26), node_at!(v6, 27), node_at!(v6, 28), node_at!(v6, 29), node_at!(v6, 30), node_at!(v6, 31), node_at!(v6, 32), node_at!(v6, 33), node_at!(v6, 34), node_at!(v6, 35), node_at!(v6, 36), node_at!(v6, 37), node_at!(v6, 38), node_at!(v6, 39), node_at!(v6, 40), node_at!(v6, 41), node_at!(v6, 42), node_at!(v6, 43), node_at!(v6, 44), node_at!(v6, 45), node_at!(v6, 46), node_at!(v6, 47), node_at!(v6, 48), node_at!(v6, 49), node_at!(v6, 50), node_at!(v6, 51), node_at!(v6, 52), node_at!(v6, 53), node_at!(v6, 54), node_at!(v6, 55), node_at!(v6, 56), node_at!(v6, 57), node_at!(v6, 58), node_at!(v6, 59), node_at!(v6, 60), node_at!(v6, 61), node_at!(v6, 62), node_at!(v6, 63)] },
    })
}
