//! Safe-Rust verification hooks for this module (accessors/wrappers only; no logic).
#![allow(unused_imports, dead_code)]
use super::*;

// ---- C15/C16/C20/C21/C22 (np_server_h): the private rate-limit cache, and the server's cache slots.
/// Wrapper so that harnesses can drive the crate-private `TimestampedCache<IpAddr>` directly.
pub struct CacheH(pub(crate) TimestampedCache<IpAddr>);
impl CacheH {
    pub fn new(length: usize) -> Self {
        CacheH(TimestampedCache::new(length))
    }
    pub fn is_allowed(&mut self, item: IpAddr, timestamp: Instant, cutoff: Duration) -> bool {
        self.0.is_allowed(item, timestamp, cutoff)
    }
    /// Precondition (as in the code under test): `len() > 0`.
    pub fn index(&self, item: &IpAddr) -> usize {
        self.0.index(item)
    }
    pub fn len(&self) -> usize {
        self.0.elements.len()
    }
    pub fn slot(&self, i: usize) -> Option<(IpAddr, Instant)> {
        self.0.elements[i]
    }
    pub fn set_slot(&mut self, i: usize, v: Option<(IpAddr, Instant)>) {
        self.0.elements[i] = v;
    }
}
pub fn server_cache_len<C>(s: &Server<C>) -> usize {
    s.client_cache.elements.len()
}
pub fn server_cache_slot<C>(s: &Server<C>, i: usize) -> Option<(IpAddr, Instant)> {
    s.client_cache.elements[i]
}
pub fn server_cache_set_slot<C>(s: &mut Server<C>, i: usize, v: Option<(IpAddr, Instant)>) {
    s.client_cache.elements[i] = v;
}
pub fn server_cache_index<C>(s: &Server<C>, item: &IpAddr) -> usize {
    s.client_cache.index(item)
}

// ---- C17/C18/C19 (np_srvnts_h): `Server::new_internal` with the two address filters supplied
// ready-made (raw fields; everything else exactly as in `new_internal`).
pub fn server_from_parts<C>(
    config: ServerConfig,
    clock: C,
    denyfilter: crate::ipfilter::verif_hooks::Filter,
    allowfilter: crate::ipfilter::verif_hooks::Filter,
    server_info: Arc<RwLock<NtpServerInfo>>,
    keyset: Arc<KeySet>,
) -> Server<C> {
    let client_cache = TimestampedCache::new(config.rate_limiting_cache_size);
    Server { config, clock, denyfilter: denyfilter.0, allowfilter: allowfilter.0, client_cache, server_info, keyset }
}

// ---- C15/C21 (np_server_h): the policy half of `Server::handle` (everything before the
// response is serialised), and its result type.
pub use super::HandleInnerData;
pub fn server_handle_inner<'a, C: NtpClock>(
    s: &mut Server<C>,
    client_ip: IpAddr,
    recv_timestamp: NtpTimestamp,
    message: &'a [u8],
    stats_handler: &mut impl ServerStatHandler,
) -> Result<HandleInnerData<'a>, ServerAction<'static>> {
    s.handle_inner(client_ip, recv_timestamp, message, stats_handler)
}
