//! Harnesses for property C13 (see /verif/properties.jsonl):
//! NTS cookies are used once, oldest first, at most eight (the newest) are kept, and each request
//! asks for exactly as many new cookies as are missing (limited only by packet size).
use crate::common::*;
use crate::stubs;
use ntp_proto::verif::cookiestash::StashH;
use ntp_proto::verif::source as sh;
use ntp_proto::*;

// ------------------------------------------------------------------------------------------
// c13_stash: the ring buffer against a FIFO model.
//
// Every cookie ever stored gets a unique 1-byte serial number (its content). The reference model
// of "FIFO that keeps the newest 8" is then just a window [head, tail) of serial numbers:
//   store: tail += 1; if the window holds more than 8, the oldest is dropped (head += 1)
//   get  : returns serial `head` and head += 1, or nothing if the window is empty.
// "Each cookie at most once" and "oldest first" follow from get returning exactly `head`, which
// strictly increases.
fn c13_stash_seq_body<const OPS: usize>() {
    let read: usize = kani::any();
    let valid: usize = kani::any();
    kani::assume(read < MAX_COOKIES && valid <= MAX_COOKIES);
    let ops: [bool; OPS] = kani::any();

    // arbitrary valid raw state: `valid` cookies with serials 0..valid starting at slot `read`
    let mut cookies: [Vec<u8>; MAX_COOKIES] = Default::default();
    let mut i = 0;
    while i < MAX_COOKIES {
        if i < valid {
            cookies[(read + i) % MAX_COOKIES] = vec![i as u8];
        }
        i += 1;
    }
    let mut stash = StashH::from_raw(cookies, read, valid);

    let mut head: usize = 0;
    let mut tail: usize = valid;
    let mut n_get_some = 0usize;
    let mut n_dropped = 0usize;

    let mut k = 0;
    while k < OPS {
        if ops[k] {
            // store a fresh cookie
            stash.store(vec![tail as u8]);
            tail += 1;
            if tail - head > MAX_COOKIES {
                head += 1;
                n_dropped += 1;
            }
        } else {
            let got = stash.get();
            if head == tail {
                assert!(got.is_none(), "get on an empty stash returns nothing");
            } else {
                match got {
                    Some(c) => {
                        assert!(c.len() == 1 && c[0] as usize == head, "get returns the oldest cookie that was not yet handed out");
                        n_get_some += 1;
                    }
                    None => assert!(false, "get on a non-empty stash returns a cookie"),
                }
                head += 1;
            }
        }
        assert!(stash.len() == tail - head, "len agrees with the model");
        assert!(stash.gap() as usize == MAX_COOKIES - (tail - head), "gap = number of missing cookies");
        k += 1;
    }
    kani::cover!(n_dropped >= 1 && n_get_some >= 1, "overflow drops the oldest, then a get");
    kani::cover!(n_get_some == OPS, "only gets");
    kani::cover!(valid == 0 && n_get_some >= 1, "store then get from empty");
}

#[kani::proof]
#[kani::unwind(10)]
fn c13_stash_seq4() {
    c13_stash_seq_body::<4>();
}

#[kani::proof]
#[kani::unwind(12)]
fn c13_stash_seq10() {
    c13_stash_seq_body::<10>();
}

// c13_stash_step: ONE operation from an arbitrary valid raw state with arbitrary cookie contents,
// checked through the full abstraction function (ring window == model queue, position by position).
// Together with "the empty stash is the empty queue" this is an inductive proof for histories of
// any length: the queue model never hands out a position twice and always hands out the front.
#[kani::proof]
#[kani::unwind(10)]
fn c13_stash_step() {
    let read: usize = kani::any();
    let valid: usize = kani::any();
    kani::assume(read < MAX_COOKIES && valid <= MAX_COOKIES);
    let tags: [u8; MAX_COOKIES] = kani::any();
    let op_store: bool = kani::any();
    let new_tag: u8 = kani::any();
    let stale: u8 = kani::any();

    let mut cookies: [Vec<u8>; MAX_COOKIES] = Default::default();
    let mut i = 0;
    while i < MAX_COOKIES {
        // free slots hold an arbitrary stale value or nothing (never observable)
        cookies[(read + i) % MAX_COOKIES] = if i < valid { vec![tags[i]] } else if stale & 1 == 1 { vec![stale, stale] } else { Vec::new() };
        i += 1;
    }
    let mut stash = StashH::from_raw(cookies, read, valid);

    // model queue: m[0..mlen], oldest first
    let mut m = [0u8; MAX_COOKIES + 1];
    let mut mlen = valid;
    let mut i = 0;
    while i < MAX_COOKIES {
        m[i] = tags[i];
        i += 1;
    }

    if op_store {
        stash.store(vec![new_tag]);
        m[mlen] = new_tag;
        mlen += 1;
        if mlen > MAX_COOKIES {
            // keep the newest eight
            let mut i = 0;
            while i < MAX_COOKIES {
                m[i] = m[i + 1];
                i += 1;
            }
            mlen -= 1;
        }
    } else {
        let got = stash.get();
        if mlen == 0 {
            assert!(got.is_none(), "get on an empty stash returns nothing");
        } else {
            match got {
                Some(c) => assert!(c.len() == 1 && c[0] == m[0], "get returns the oldest cookie"),
                None => assert!(false, "get on a non-empty stash returns a cookie"),
            }
            let mut i = 0;
            while i < MAX_COOKIES {
                m[i] = m[i + 1];
                i += 1;
            }
            mlen -= 1;
        }
    }
    // abstraction function after the step
    assert!(stash.read() < MAX_COOKIES && stash.valid() <= MAX_COOKIES, "representation invariant is preserved");
    assert!(stash.len() == mlen && stash.valid() == mlen, "len agrees with the model");
    assert!(mlen <= MAX_COOKIES, "at most eight cookies are kept");
    assert!(stash.gap() as usize == MAX_COOKIES - mlen, "gap = number of missing cookies");
    assert!(stash.is_empty() == (mlen == 0), "is_empty agrees with the model");
    let mut i = 0;
    while i < MAX_COOKIES {
        if i < mlen {
            let c = stash.slot((stash.read() + i) % MAX_COOKIES);
            assert!(c.len() == 1 && c[0] == m[i], "ring window = model queue (same cookies, same order)");
        }
        i += 1;
    }
    kani::cover!(op_store && valid == MAX_COOKIES && read == 5, "store into a full stash drops the oldest");
    kani::cover!(!op_store && valid == 3 && read == 7, "get with wrap-around");
    kani::cover!(!op_store && valid == 0, "get from empty");
}

#[kani::proof]
fn c13_stash_init() {
    let stash = StashH::new();
    assert!(stash.len() == 0 && stash.gap() as usize == MAX_COOKIES && stash.is_empty(), "a new stash is the empty queue");
    assert!(stash.read() < MAX_COOKIES && stash.valid() == 0);
}

// ------------------------------------------------------------------------------------------
// c13_poll_*: what an NTS poll does with the stash.
//
// Oracle (from the property text, independent of the code):
//   * the request carries exactly one NTS cookie field whose content is the oldest cookie of the
//     stash, and the stash afterwards no longer holds that cookie (it holds the former 2nd..n-th
//     cookies in the same order);
//   * it carries p placeholder fields, each as long as the cookie, where
//     1 + p = number of cookies the server is asked for = min(missing, fit) with
//     missing = 8 - (cookies left after taking one) and fit = floor(724 / max(L,1)) (the packet-size
//     limit the implementation documents: 1024-byte buffer minus 300 bytes of margin);
//   * cookie and placeholders are in the authenticated part, under the c2s key;
//   * if that number is 0 (only when L > 724) the source resets instead.
//
// c13_poll_struct_*: all stash fill levels; observes the packet STRUCTURE handed to the encoder
// (`NtpPacket::serialize` replaced by a recorder, see common.rs) because encoding many extension
// fields symbolically is out of reach. c13_poll_wire_*: the real encoder, stash fill 6..=8 (at most
// two placeholders), same claims checked on the datagram bytes (RFC 7822/8915 framing).

struct PollCase {
    valid: usize,
    l: usize,
    content: [u8; 32],
    jc: usize,
    jp: usize,
    desired: i8,
    reach: u8,
    tries: usize,
}

fn any_poll_case(valid_lo: usize, lmax: usize) -> PollCase {
    let c = PollCase {
        valid: kani::any(),
        l: kani::any(),
        content: kani::any(),
        jc: kani::any(),
        jp: kani::any(),
        desired: kani::any(),
        reach: kani::any(),
        tries: kani::any(),
    };
    kani::assume(c.valid <= MAX_COOKIES && (c.valid == 0 || c.valid >= valid_lo));
    kani::assume(c.l <= lmax && lmax <= 32);
    kani::assume(c.jc < 32);
    kani::assume(c.desired >= 4 && c.desired <= 10);
    kani::assume(c.tries <= 4);
    c
}

/// runs the poll; returns the actions if a request was sent (None after checking the other outcomes)
fn run_poll(c: &PollCase, v5: bool) -> Option<(NtpSource<RecCtl>, Vec<u8>)> {
    let mut oldest = c.content.to_vec();
    oldest.truncate(c.l);
    let stash = stash0(c.valid, oldest);
    let nts = sh::nts_data_with_stash(stash, c2s(), s2c());
    let version = if v5 { ProtocolVersion::V5 } else { ProtocolVersion::V4 };
    let mut src = new_source(version, SourceConfig::default(), poll(c.desired), Some(nts));
    sh::set_reach(&mut src, c.reach);
    sh::set_tries(&mut src, c.tries);

    let (acts, n) = collect_actions(src.handle_timer());

    if c.reach == 0 && c.tries >= 3 {
        assert!(n == 1 && matches!(acts[0], Some(NtpSourceAction::Reset)), "unreachable source resets");
        assert!(sh::state(&src).cookies == Some(c.valid), "no cookie is consumed when no request is sent");
        return None;
    }
    if c.valid == 0 {
        assert!(n == 1 && matches!(acts[0], Some(NtpSourceAction::Reset)), "no cookie left: reset, nothing sent");
        return None;
    }
    assert!(n == 2, "send + timer");
    assert!(matches!(acts[1], Some(NtpSourceAction::SetTimer(_))), "second action is SetTimer");
    let mut acts = acts;
    let p = match acts[0].take() {
        Some(NtpSourceAction::Send(p)) => p,
        _ => {
            assert!(false, "first action is Send");
            return None;
        }
    };
    // stash afterwards: one fewer, former 2nd.. cookies in order, the used cookie is gone
    let left = c.valid - 1;
    assert!(sh::state(&src).cookies == Some(left), "exactly one cookie was consumed");
    {
        let nd = sh::nts_mut(&mut src).unwrap();
        let i: usize = c.jp % MAX_COOKIES; // universally quantified position
        if i < left {
            let ck = sh::nts_peek_cookie(nd, i).unwrap();
            assert!(ck.len() == 2 && ck[0] == 0xC0 && ck[1] as usize == i + 1, "remaining cookies keep their order; the used one is gone");
        }
        assert!(sh::nts_peek_cookie(nd, left).is_none());
    }
    Some((src, p))
}

fn asked(c: &PollCase) -> usize {
    let missing = MAX_COOKIES - (c.valid - 1);
    let fit = 724 / core::cmp::max(c.l, 1);
    core::cmp::min(missing, fit)
}

fn c13_poll_struct_body(v5: bool) {
    stubs::symbolic_clock();
    sym_rng();
    let c = any_poll_case(1, 32);
    unsafe {
        REC_JC = c.jc;
    }
    let Some((src, _p)) = run_poll(&c, v5) else { return };
    unsafe {
        assert!(REC_CALLS == 1, "one request is encoded");
        assert!(REC_N_COOKIE == 1, "exactly one cookie per request");
        assert!(REC_COOKIE_LEN == c.l, "the cookie is sent whole");
        if c.jc < c.l {
            assert!(REC_COOKIE_BYTE == c.content[c.jc], "cookie sent = oldest cookie of the stash (every byte)");
        }
        assert!(1 + REC_N_PH == asked(&c), "asks for exactly as many new cookies as are missing (limited by packet size)");
        assert!(REC_PH_LEN_MISMATCH == 0, "every placeholder is as long as the cookie and follows it");
        assert!(REC_N_UID == 1 && REC_UID_LEN == 32, "one 32-byte unique identifier");
        assert!(REC_N_ENC == 0 && REC_N_UNTRUSTED == 0, "identifier, cookie and placeholders are all in the authenticated part");
        assert!(REC_HAS_KEY && REC_KEY == C2S_ID, "request authenticated under the c2s key");
        assert!(REC_N_OTHER == if v5 { 2 } else { 0 }, "nothing else but the NTPv5 draft-id and reference-id request fields");
        // the pending request identifier is the one put on the wire (C07 starts from such a state)
        match sh::pending(&src) {
            Some((_, Some(uid), _)) => assert!(eq_words(&uid, &REC_UID, 32), "pending unique identifier = the one sent"),
            _ => assert!(false, "an NTS request leaves a pending identifier with a uid"),
        }
        kani::cover!(c.valid == 8 && REC_N_PH == 0, "full stash: ask for one");
        kani::cover!(c.valid == 1 && REC_N_PH == 7, "last cookie: ask for eight");
        kani::cover!(c.valid == 3 && c.l == 32 && c.content[31] == 0xAA, "cookie content symbolic");
    }
}

nharness! {
    #[kani::unwind(14)]
    #[kani::stub(ntp_proto::NtpPacket::serialize, crate::common::serialize_recorder)]
    fn c13_poll_struct_v4() {
        c13_poll_struct_body(false);
    }
}

nharness! {
    #[kani::unwind(14)]
    #[kani::stub(ntp_proto::NtpPacket::serialize, crate::common::serialize_recorder)]
    fn c13_poll_struct_v5() {
        c13_poll_struct_body(true);
    }
}

fn c13_poll_wire_body(v5: bool) {
    stubs::symbolic_clock();
    sym_rng();
    let c = any_poll_case(6, 32);
    let Some((src, p)) = run_poll(&c, v5) else { return };
    let l = c.l;
    let ef_wire = core::cmp::max((l + 3) / 4 * 4 + 4, 16);
    // walk the extension fields of the request (type, length incl. header, padded to 4)
    let mut off = 48usize;
    let mut n_cookie = 0usize;
    let mut n_placeholder = 0usize;
    let mut n_uid = 0usize;
    let mut n_nts = 0usize;
    let mut guard = 0;
    while off + 4 <= p.len() && guard < 7 {
        let ty = be16(&p, off);
        let len = be16(&p, off + 2);
        let wire = (len + 3) / 4 * 4;
        assert!(len >= 4 && off + wire <= p.len(), "well-formed extension field");
        if !v5 {
            assert!(len % 4 == 0, "NTPv4 extension field lengths are multiples of 4");
        }
        let body = &p[off + 4..off + wire];
        if ty == 0x0204 {
            n_cookie += 1;
            assert!(n_nts == 0, "cookie precedes the authenticator (is authenticated)");
            assert!(wire == ef_wire, "cookie field: cookie padded to a word, at least 16 bytes");
            if c.jc < l {
                assert!(body[c.jc] == c.content[c.jc], "cookie sent = oldest cookie of the stash (every byte)");
            }
            if c.jp >= l && c.jp < body.len() {
                assert!(body[c.jp] == 0, "padding is zero");
            }
        } else if ty == 0x0304 {
            n_placeholder += 1;
            assert!(n_nts == 0, "placeholder precedes the authenticator");
            assert!(wire == ef_wire, "placeholder as long as the cookie field");
            if c.jp < body.len() {
                assert!(body[c.jp] == 0, "placeholder body is zero");
            }
        } else if ty == 0x0104 {
            n_uid += 1;
            assert!(off == 48 && len == 36, "unique identifier comes first");
        } else if ty == 0x0404 {
            n_nts += 1;
        }
        off += wire;
        guard += 1;
    }
    assert!(off == p.len(), "extension fields tile the packet");
    assert!(n_cookie == 1, "exactly one cookie per request");
    assert!(n_uid == 1 && n_nts == 1, "unique identifier and authenticator present");
    assert!(1 + n_placeholder == asked(&c), "asks for exactly as many new cookies as are missing (limited by packet size)");
    assert!(unsafe { ENC_CALLS == 1 && ENC_KEY == C2S_ID }, "request authenticated under the c2s key");
    assert!(unsafe { ENC_PT_LEN == 0 }, "nothing is encrypted in a request");
    let fixed = if v5 { 48 + 36 + 28 + 20 + 40 } else { 48 + 36 + 40 };
    assert!(p.len() == fixed + asked(&c) * ef_wire, "datagram size = fixed part + one field per requested cookie");
    match sh::pending(&src) {
        Some((_, Some(uid), _)) => assert!(eq_words(&uid, &p[52..84], 32), "pending unique identifier = the one on the wire"),
        _ => assert!(false, "an NTS request leaves a pending identifier with a uid"),
    }
    kani::cover!(c.valid == 8 && n_placeholder == 0, "full stash: ask for one");
    kani::cover!(c.valid == 6 && n_placeholder == 2, "ask for three");
    kani::cover!(l == 32 && c.content[0] == 0xAA, "cookie content symbolic");
    kani::cover!(l == 0, "empty cookie");
}

nharness! {
    #[kani::unwind(8)]
    fn c13_poll_wire_v4() {
        c13_poll_wire_body(false);
    }
}

nharness! {
    #[kani::unwind(8)]
    fn c13_poll_wire_v5() {
        c13_poll_wire_body(true);
    }
}
