//! Harnesses for property C24 (see /verif/properties.jsonl): decode/encode round trip.
//!
//! For every byte image the decoder accepts (no keys), with p = decode(input):
//!  (a) `serialize(p)` is Ok (b1 = the normalising round),
//!  (c) `deserialize(b1)` is Ok(p2),
//!  (d) `serialize(p2)` == b1 — the encoding is stable after one normalising round (and therefore
//!      decode(encode(p2)) == p2, the decoder being a function of the bytes).
//! Independent strengthening where the wire format fixes the result (everything except NTPv4
//! fields below the RFC 7822 minimum size, which the encoder legitimately pads):
//!  (b) b1 is the *normal form* of the input computed here from the wire format alone (same
//!      header; same fields, same length words, padding bytes zeroed, the unused tail of a
//!      reference-id request zeroed; same MAC): a serializer that writes another length than it
//!      reports, forgets padding, or drops a field fails it; and p2 == p.
//! Deviation on the unchanged tree, split off into a `*_kf_*` harness (see report):
//!  * NTPv5 reference-id request whose payload length is not a multiple of four: accepted by the
//!    decoder, `serialize` panics (`assert_eq!` in ReferenceIdRequest::serialize).
use crate::common::*;
use crate::stubs;
use ntp_proto::verif::packet as ph;
use ntp_proto::{NoCipher, NtpPacket};

pub const SLACK: usize = 64;

/// What the harness knows about the image from its template.
#[derive(Clone, Copy)]
pub struct Expect {
    /// check (b): the expected normal form is `nf[..nf_len]`
    pub check_nf: bool,
    /// check (c): p2 == p
    pub check_eq: bool,
}

/// Round trip of one image; `nf` is the expected normal form (only read when `e.check_nf`).
pub fn round_trip<const M: usize>(data: &[u8], nf: &[u8; M], nf_len: usize, e: Expect) -> bool {
    // byte-wise claims are checked at arbitrary indices i, j (drawn before the code under test)
    let i: usize = kani::any();
    let j: usize = kani::any();
    kani::assume(i < M && j < M);
    let p = match decode(data, &NoCipher) {
        Outcome::Accepted(p, _) => p,
        other => {
            std::mem::forget(other);
            return false;
        }
    };
    let mut b1 = [0u8; M];
    let n1 = match encode(&p, &NoCipher, &mut b1) {
        Ok(n) => n,
        Err(e) => {
            std::mem::forget(e);
            assert!(false, "(a) an accepted packet can be encoded again");
            return true;
        }
    };
    // With a known normal form: the encoding must equal it (all bytes), and the second round then
    // starts from the normal form itself, which is the same byte string but whose type/length words
    // are syntactic constants for the symbolic execution (the encoder output is a merge over all
    // field variants).
    if e.check_nf {
        assert!(n1 == nf_len, "(b) encoded length is the length of the normal form");
        assert!(b1[..n1] == nf[..n1], "(b) encoding is the normal form of the input");
        if i < n1 {
            assert!(b1[i] == nf[i], "(b) encoding is the normal form of the input (arbitrary index)");
        }
    }
    let second: &[u8] = if e.check_nf { &nf[..nf_len] } else { &b1[..n1] };
    let p2 = match decode(second, &NoCipher) {
        Outcome::Accepted(p2, _) => p2,
        other => {
            std::mem::forget(other);
            assert!(false, "(c) the re-encoded packet is accepted again");
            return true;
        }
    };
    if e.check_eq {
        assert!(p2 == p, "(c) decoding the re-encoded packet yields the same packet");
    }
    let mut b2 = [0u8; M];
    match encode(&p2, &NoCipher, &mut b2) {
        Ok(n2) => {
            assert!(n2 == n1, "(d) second encoding has the same length");
            assert!(b2[..n2] == second[..], "(d) second encoding yields the same bytes");
            if j < n1 {
                assert!(b2[j] == second[j], "(d) second encoding yields the same bytes (arbitrary index)");
            }
        }
        Err(e2) => {
            std::mem::forget(e2);
            assert!(false, "(d) the normalised packet can be encoded");
        }
    }
    // not dropped: dropping the field vectors dominates symbolic execution and is not under test
    std::mem::forget(p);
    std::mem::forget(p2);
    true
}

/// Normal form of a template image (wire format knowledge only):
/// copy of the input where, for NTPv5, the padding after each field and the unused tail of a
/// reference-id request are zero and the leap bits are 3 when the synchronized flag is clear.
pub fn normal_form<const N: usize, const M: usize, const K: usize>(img: &Img<N, K>) -> [u8; M] {
    let mut nf = [0u8; M];
    nf[..N].copy_from_slice(&img.buf);
    let version = (img.buf[0] >> 3) & 7;
    if version == 5 {
        if img.buf[15] & 1 == 0 {
            nf[0] |= 0xC0;
        }
        let mut k = 0;
        while k < K {
            let o = img.off[k];
            let l = img.flen[k] as usize;
            let mut j = l;
            while j < pad4(l) {
                nf[o + j] = 0;
                j += 1;
            }
            if get16(&img.buf, o) == T_REFID_REQ {
                let mut j = 6;
                while j < l {
                    nf[o + j] = 0;
                    j += 1;
                }
            }
            k += 1;
        }
    }
    nf
}

/// Round trip of a template image against its normal form.
fn rt<const N: usize, const M: usize, const K: usize>(img: &Img<N, K>, e: Expect) -> bool {
    let nf: [u8; M] = normal_form::<N, M, K>(img);
    round_trip::<M>(&img.buf[..img.len], &nf, img.len, e)
}
const FULL: Expect = Expect { check_nf: true, check_eq: true };
/// NTPv4 field below the RFC 7822 minimum: the encoder pads it, the padding becomes part of the
/// value (the one normalising round of the property): only (a), (c), (d).
const PADDED: Expect = Expect { check_nf: false, check_eq: false };

const V3C: u8 = 0x1B; // version 3 client
const V3S: u8 = 0xDC; // leap 3, version 3 server
const V4C: u8 = 0x23;
const V4S: u8 = 0xE4;
const V5Q: u8 = 0x2B;
const V5R: u8 = 0x6C;
const T_OTHER: u16 = 0x1234;

// ------------------------------------------------------------------ headers
/// NTPv3 / NTPv4 header alone: every mode, every leap value, the other 47 bytes symbolic:
/// identity. (First header byte concrete per image: with a symbolic version the decoder is
/// explored for all three versions at once, including the NTPv5 field parser on symbolic lengths,
/// which is C23's unstructured harness and does not add accepted packets below 76 bytes.)
fn header_family(version: u8) {
    macro_rules! one { ($leap:expr, $mode:expr) => {{
        let mut buf: [u8; 52] = kani::any();
        buf[0] = ($leap << 6) | (version << 3) | $mode;
        let mut nf = [0u8; 52 + SLACK];
        nf[..52].copy_from_slice(&buf);
        let acc = round_trip(&buf[..48], &nf, 48, FULL);
        assert!(acc, "a 48-byte v3/v4 header is a packet");
    }} }
    one!(0, 0);
    one!(1, 1);
    one!(2, 2);
    one!(3, 3);
    one!(0, 4);
    one!(1, 5);
    one!(2, 6);
    one!(3, 7);
}
/// quick-tier representative: v3 client header, v4 server header with leap 3
pharness! {
    #[kani::unwind(8)]
    fn c24_rt_hdr_q() {
        let mut a: [u8; 52] = kani::any();
        a[0] = V3C;
        let mut nf = [0u8; 52 + SLACK];
        nf[..52].copy_from_slice(&a);
        assert!(round_trip(&a[..48], &nf, 48, FULL), "a 48-byte v3 header is a packet");
        let mut b: [u8; 52] = kani::any();
        b[0] = V4S;
        let mut nf = [0u8; 52 + SLACK];
        nf[..52].copy_from_slice(&b);
        assert!(round_trip(&b[..48], &nf, 48, FULL), "a 48-byte v4 header is a packet");
        kani::cover!(true, "reached");
    }
}
pharness! {
    #[kani::unwind(8)]
    fn c24_rt_hdr_v3() {
        header_family(3);
        kani::cover!(true, "reached");
    }
}
pharness! {
    #[kani::unwind(8)]
    fn c24_rt_hdr_v4() {
        header_family(4);
        kani::cover!(true, "reached");
    }
}

// ------------------------------------------------------------------ templates
/// NTPv3/NTPv4 header followed by a MAC of 4, 5, 20 or 24 bytes (concrete lengths: with a
/// symbolic length the v4 field loop is explored on infeasible paths up to the unwind bound):
/// identity.
fn mac_family(b0: u8) {
    macro_rules! one { ($t:expr) => {{
        let mut buf: [u8; 80] = kani::any();
        buf[0] = b0;
        let mut nf = [0u8; 80 + SLACK];
        nf[..80].copy_from_slice(&buf);
        let acc = round_trip(&buf[..48 + $t], &nf, 48 + $t, FULL);
        assert!(acc, "header + MAC of 4..=24 bytes is a packet");
    }} }
    one!(4);
    one!(5);
    one!(20);
    one!(24);
}
pharness! {
    #[kani::unwind(6)]
    fn c24_rt_mac_v3() {
        mac_family(V3C);
        kani::cover!(true, "reached");
    }
}
pharness! {
    #[kani::unwind(6)]
    fn c24_rt_mac_v4() {
        mac_family(V4S);
        kani::cover!(true, "reached");
    }
}

const fn fld(ty: u16, l: u16) -> F {
    f(Ty::Is(ty), l, l)
}
/// One concrete layout (field types and lengths concrete, see c23.rs), round trip.
fn one<const N: usize, const M: usize, const K: usize>(b0: u8, v5ctl: Option<(u8, u8)>, fields: [F; K], trailer: usize, e: Expect) -> bool {
    let img: Img<N, K> = layout(b0, v5ctl, fields, trailer, 0);
    rt::<N, M, K>(&img, e)
}

/// One template image per harness (a round trip with fields costs 5-10 min here: the decoded
/// packet's field vectors live on the heap, where CBMC loses all constants, so the encoder is
/// explored for every field variant).
macro_rules! rt_harness {
    ($n:ident, $unw:expr, $N:expr, $M:expr, $K:expr, $b0:expr, $ctl:expr, $fields:expr, $trailer:expr, $e:expr, must) => {
        pharness! {
            #[kani::unwind($unw)]
            fn $n() {
                let a = one::<$N, $M, $K>($b0, $ctl, $fields, $trailer, $e);
                assert!(a, "well-formed image accepted");
                kani::cover!(a, "round trip");
            }
        }
    };
    ($n:ident, $unw:expr, $N:expr, $M:expr, $K:expr, $b0:expr, $ctl:expr, $fields:expr, $trailer:expr, $e:expr, may) => {
        pharness! {
            #[kani::unwind($unw)]
            fn $n() {
                let a = one::<$N, $M, $K>($b0, $ctl, $fields, $trailer, $e);
                kani::cover!(a, "round trip");
                kani::cover!(!a, "refused");
            }
        }
    };
}
// NTPv4, fields at least as long as the RFC 7822 minimum (16, last field 28): identity
rt_harness!(c24_rt_v4_uid, 6, 80, 144, 1, V4C, None, [fld(T_UID, 28)], 0, FULL, must);
rt_harness!(c24_rt_v4_cookie_mac, 6, 104, 168, 1, V4S, None, [fld(T_COOKIE, 28)], 24, FULL, must);
rt_harness!(c24_rt_v4_draft_type, 6, 88, 152, 1, V4C, None, [fld(T_DRAFT, 32)], 4, FULL, must);
rt_harness!(c24_rt_v4_placeholder, 30, 80, 144, 1, V4C, None, [fld(T_PLACEHOLDER, 28)], 0, FULL, may);
rt_harness!(c24_rt_v4_two, 6, 96, 160, 2, V4C, None, [fld(T_UID, 16), fld(T_COOKIE, 28)], 0, FULL, must);
rt_harness!(c24_rt_v4_two_mac, 6, 116, 180, 2, V4S, None, [fld(T_OTHER, 20), fld(T_UID, 28)], 16, FULL, must);
rt_harness!(c24_rt_v4_three, 6, 112, 176, 3, V4C, None, [fld(T_UID, 16), fld(T_COOKIE, 16), fld(T_OTHER, 28)], 0, FULL, must);
// NTPv4, fields shorter than the RFC 7822 minimum: accepted, encoded padded to the minimum, the
// encoding decodes and is stable (the one normalising round of the property)
rt_harness!(c24_rt_v4_short4, 6, 80, 144, 1, V4S, None, [fld(T_OTHER, 4)], 24, PADDED, must);
rt_harness!(c24_rt_v4_short24, 6, 80, 144, 1, V4C, None, [fld(T_UID, 24)], 4, PADDED, must);
rt_harness!(c24_rt_v4_short_first, 6, 96, 160, 2, V4C, None, [fld(T_UID, 8), fld(T_UID, 28)], 0, PADDED, must);
// NTPv5: draft identification before/after one field, odd lengths: normal form = input with zeroed
// padding (and zeroed unused tail of a reference id request)
rt_harness!(c24_rt_v5_uid4, 6, 100, 164, 2, V5Q, Some((0, 0)), [DRAFT_F, fld(T_UID, 4)], 0, FULL, must);
rt_harness!(c24_rt_v5_cookie5, 6, 100, 164, 2, V5Q, Some((1, 1)), [DRAFT_F, fld(T_COOKIE, 5)], 0, FULL, must);
rt_harness!(c24_rt_v5_resp7, 6, 100, 164, 2, V5R, Some((3, 4)), [DRAFT_F, fld(T_REFID_RESP, 7)], 0, FULL, must);
rt_harness!(c24_rt_v5_other17, 6, 100, 164, 2, V5Q, Some((0, 1)), [fld(T_OTHER, 17), DRAFT_F], 0, FULL, must);
rt_harness!(c24_rt_v5_req8, 12, 100, 164, 2, V5Q, Some((0, 7)), [DRAFT_F, fld(T_REFID_REQ, 8)], 0, FULL, must);
rt_harness!(c24_rt_v5_req16, 12, 100, 164, 2, V5Q, Some((2, 2)), [fld(T_REFID_REQ, 16), DRAFT_F], 0, FULL, must);
rt_harness!(c24_rt_v5_padding6, 6, 100, 164, 2, V5R, Some((0, 1)), [DRAFT_F, fld(T_PADDING, 6)], 0, FULL, must);
rt_harness!(c24_rt_v5_placeholder, 20, 100, 164, 2, V5Q, Some((0, 1)), [DRAFT_F, fld(T_PLACEHOLDER, 15)], 0, FULL, may);
rt_harness!(c24_rt_v5_draft_only, 6, 80, 144, 1, V5Q, Some((0, 1)), [DRAFT_F], 0, FULL, must);

/// NTPv5: second draft identification field with arbitrary ASCII content.
pharness! {
    #[kani::unwind(6)]
    fn c24_rt_v5_draft() {
        let e = one::<92, 156, 2>(V5Q, Some((0, 1)), [DRAFT_F, fld(T_DRAFT, 10)], 0, FULL);
        kani::cover!(e, "second draft field");
        kani::cover!(!e, "non-ASCII second draft field refused");
    }
}
/// NTPv5 draft field alone with the whole header symbolic except the version (leap/flags
/// normalisation, all header error paths).
pharness! {
    #[kani::unwind(6)]
    fn c24_rt_v5_header() {
        let mut a: Img<80, 1> = layout(V5Q, None, [DRAFT_F], 0, 0);
        let b0: u8 = kani::any();
        kani::assume((b0 >> 3) & 7 == 5);
        a.buf[0] = b0;
        let ra = rt::<80, 144, 1>(&a, FULL);
        kani::cover!(ra && a.buf[15] & 1 == 0 && a.buf[0] >> 6 == 1, "leap normalised for an unsynchronized server");
        kani::cover!(ra && a.buf[15] & 1 == 1 && a.buf[0] >> 6 == 3, "unknown leap");
        kani::cover!(ra && a.buf[12] == 3 && a.buf[0] & 7 == 4, "response, smeared timescale");
        kani::cover!(!ra && a.buf[14] != 0, "reserved flag bits refused");
    }
}
/// Expected to FAIL on the unchanged tree (candidate finding): NTPv5 reference id request whose
/// payload is not a multiple of four is accepted by the decoder and makes `serialize` panic.
pharness! {
    #[kani::unwind(6)]
    fn c24_rt_v5_kf_refid_req_unaligned() {
        let r = one::<100, 164, 2>(V5Q, Some((0, 1)), [DRAFT_F, fld(T_REFID_REQ, 6)], 0, FULL);
        kani::cover!(r, "accepted");
    }
}
