NS = "np_source_h"
import importlib.util, os
_spec = importlib.util.spec_from_file_location("c08", os.path.join(os.path.dirname(__file__), "C08.py"))
_m = importlib.util.module_from_spec(_spec); _m.H = H; _spec.loader.exec_module(_m)
PROP = dict(
    functions=[
        "ntp_proto::source::NtpSource::<RecCtl>::handle_timer (fallback, choice of poll_message / poll_message_upgrade_request / poll_message_v5, serialisation)",
        "ntp_proto::source::NtpSource::<RecCtl>::handle_incoming (upgrade state machine)",
        "ntp_proto::source::ProtocolVersion::is_expected_incoming_version, ntp_proto::packet::NtpPacket::is_upgrade",
    ],
    bounds=_m._bounds48.replace("one handle_incoming", "one handle_timer / one handle_incoming") + "; reference transition function written from the property text (c12.rs)",
    outside="NTS sources (version fixed by key exchange: C07); NtpManager's choice of the initial state from the configuration",
    assumptions=[
        "V4UpgradingToV5.tries_left in 1..=8 on the pre-state; the post-state is asserted to stay in 1..=8",
        "matching answer = answers the pending request, fresh, expected version (KISS answers count: the state machine runs before the KISS dispatch)",
        "upgrade marker = version-4 packet whose reference timestamp is \"NTP5DRFT\"",
    ],
    stub_notes=_m._stubs,
    harnesses=[
        H(NS, "c12", "c12_timer", "timer transition == reference; V4 sends plain v4 (48 bytes, no marker), upgrading sends v4 with the marker (v4 family)", timeout=600),
        H(NS, "c12", "c12_incoming", "incoming transition == reference (soundness + completeness), counter stays in 1..=8, unexpected versions ignored entirely (48-byte packets)", timeout=600),
        H(NS, "c12", "c12_timer_v5", "UpgradedToV5 falls back to V4 iff the last two polls are unanswered, before sending; UpgradedToV5/V5 send v5 with the draft identification", tier="thorough"),
        H(NS, "c12", "c12_incoming_v5", "incoming transition for NTPv5 answers (UpgradedToV5 -> V5 on a matching answer only)", tier="thorough"),
    ],
)
