NP = "np_packet_h"
_REQ = [("header", "0..48"), ("uid_hdr", "48..52"), ("uid_body", "52..60"), ("cookie_hdr", "60..64"), ("cookie_body", "64..72"),
        ("auth_words", "72..80"), ("auth_body", "80..112"), ("trailer", "112..116")]
_RESP = [("header", "0..48"), ("uid_hdr", "48..52"), ("uid_body", "52..60"), ("auth_words", "60..68"), ("auth_body", "68..112"), ("trailer", "112..116")]
PROP = dict(
    functions=[
        "ntp_proto::packet::NtpPacket::deserialize<ProbeCipher> (v4 path)",
        "ntp_proto::packet::extension_fields::{ExtensionFieldData::deserialize, RawEncryptedField::{from_message_bytes,decrypt}, ExtensionField::encode_encrypted (c25_auth_encoder)}",
    ],
    bounds="NTPv4 NTS request image = header (byte 0 = 0x23, other 47 bytes arbitrary) + 8-byte unique id field + 8-byte cookie field + authenticator (RFC 8915 5.6: words, 16-byte nonce, ciphertext = 16-byte tag; arbitrary nonce and tag) + 4 arbitrary trailer bytes (116 bytes); the ideal AEAD has 'really encrypted' exactly (everything before the field, nonce, ciphertext). c25_auth_encoder: this authenticator and log entry are exactly what the real ExtensionField::encode_encrypted + ModelCipher produce (request, and response with one encrypted 8-byte cookie). Tampering: XOR of an arbitrary non-zero mask (all 255: every single-bit and single-byte change) into the byte at an arbitrary position of a region; registered regions: unique-id body (52..60) and nonce+ciphertext (80..112). Decomposition: the decoder depends on the cipher only through decrypt's return value; the harness decodes with a recording, always-refusing cipher and shows that every decrypt call differs from the logged triple (so the ideal AEAD refuses) and that after a refusal nothing is authenticated/encrypted and no cookie is returned.",
    outside="NOT VERIFIED IN TIME (prepared in c25.rs, ~7 min of CBMC each on the loaded machine): header, cookie body, field type/length words, authenticator words, trailer, all response regions, and NtpPacket::serialize(nts_poll_message) == assembled image. DOES NOT REACH: any path on which decryption succeeds (2.5M SSA steps, out of memory): 'bytes after the authenticator never change what is authenticated' is therefore only prepared in the recording form (the AEAD is asked about exactly the logged triple). 32-byte unique id / 16-byte cookie sizes of the real client (solver out of memory at 12 GB; bodies are opaque to the decoder). Real AES-SIV (idealised, DESIGN 2.6); NTPv5; server-side cookie recovery through KeySet.",
    assumptions=["ideal AEAD: decrypt succeeds iff key, associated data, nonce and ciphertext||tag are exactly what encrypt recorded"],
    stub_notes=[
        "common::ModelCipher / common::ProbeCipher implement the public Cipher trait (no #[kani::stub]); ghost log of the one encryption per key, ghost record of up to two decrypt calls",
        "hooks: encode_encrypted_hook (thin wrapper), packet_authenticated/encrypted getters",
        "core::str::from_utf8 / is_ascii ASCII-only models, AES-SIV/zeroize stubs, Cargo.toml cbmc-args (see C23)",
    ],
    harnesses=[
        H(NP, "c25", "c25_auth_encoder", 'hand-assembled authenticator + ghost log == real ExtensionField::encode_encrypted with ModelCipher (request and response)', tier="thorough", timeout_thorough=3600),  # measured 342 s CBMC under load
        H(NP, "c25", "c25_req_uid_body", 'request, tampered byte in 52..60', timeout=900, native_check="native::native_tampered_request_reports_nothing_authentic"),  # measured 425 s CBMC under load
        H(NP, "c25", "c25_req_auth_body", 'request, tampered byte in 80..112', tier="thorough", timeout_thorough=3600, native_check="native::native_tampered_request_reports_nothing_authentic"),  # measured 398 s CBMC under load
        H("ntp_proto_h", "c23f", "c23_encrypted_field_frame", "function level: RawEncryptedField::from_message_bytes (the framing of an NTS encrypted field body, run in every key context before any key lookup) is total and exact for every body of up to 32 bytes with symbolic nonce/ciphertext length words", timeout=300),
],
    # prepared in the harness crate but NOT registered (did not finish / not re-verified in time / expected to fail):
    # c25_untampered, c25_req_real_serializer, c25_resp_real_serializer, c25_req_trailer_accept, c25_resp_trailer_accept, c25_req_header, c25_req_uid_hdr, c25_req_cookie_hdr, c25_req_cookie_body, c25_req_auth_words, c25_req_trailer, c25_resp_header, c25_resp_uid_hdr, c25_resp_uid_body, c25_resp_auth_words, c25_resp_auth_body, c25_resp_trailer
)
