//! Harnesses for property C17 (see /verif/properties.jsonl).
use crate::stubs;
