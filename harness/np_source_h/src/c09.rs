//! Harnesses for property C09 (see /verif/properties.jsonl).
use crate::stubs;
