ST = "statime_h"
PROP = dict(
    functions=[
        "the synchronous steps of statime_csptp::server::handle_packet, called in its order through thin hook wrappers (handle_packet itself: see outside)",
        "statime_csptp::messages::CsptpMessage::{deserialize,is_request,is_response,new_response,new_follow_up,serialize}, CsptpRequestTlv/CsptpResponseTlv/CsptpStatusTlv::{try_from,add_to}",
        "statime_wire::Message::{deserialize,serialize}, TlvSetBuilder, TlvSet iteration (reached from handle_packet)",
    ],
    bounds="request template Sync + CSPTP request TLV (52 bytes; first octet 0x30, messageLength, TLV type and length concrete, the other 45 bytes symbolic: sdoId low byte, version, domain, flags, correctionField, sourcePortIdentity, sequenceId, originTimestamp, request flags incl. status bit); server state symbolic (grandmaster identity/priorities/quality/stepsRemoved/timescale+traceable flags, leap indicator), reception and send timestamps symbolic; c45_follow_up: request from new_request with symbolic domain and sequence id",
    outside="handle_packet itself, i.e. the glue between the steps (that the reception timestamp argument, the send_event result and the addresses are the values passed on, that nothing is sent for non-requests): harnesses c45_handle / c45_handle_other / c45_handle_any(_56) (recording in-memory ServerSocket, Waker::noop) are written but NOT registered - 2.8M symbolic-execution steps, CBMC exhausts 8 GB in propositional reduction; the all-in-one synchronous variant c45_messages (1.7M steps) also exhausts 8 GB; first octets other than the 12 representatives (sdoId high nibble other than 0 and 3); serve() loop (shutdown race, socket recv errors); datagrams longer than 56 bytes in the 'answers only requests' direction (requests with more than one extra TLV); nanoseconds fields equal to 10^9 exactly in the template (parser/Timestamp::new disagreement, see report); "
            "status TLV clock-quality bytes (checked: priorities, stepsRemoved, identity, TLV type/length)",
    assumptions=["template request: originTimestamp nanoseconds != 10^9", "reception and send timestamps satisfy the Timestamp::new invariant"],
    stub_notes=["no stubs; crate-private CsptpMessage reached through an opaque hook wrapper with one thin wrapper per method"],
    harnesses=[
        H(ST, "c45", "c45_response", "steps 1-3 of handle_packet through thin hook wrappers (CsptpMessage::deserialize, is_request, new_response) on the template request: parsed iff sdoId 0x300 / PTP version 2 / valid timestamp; response echoes domain, sequence id, "
                                     "correctionField -> reqCorrectionField, reception time -> reqIngressTimestamp; two-step + unicast flags, leap and traceability flags from the server state, status TLV iff requested (priorities, stepsRemoved, identity) (880 s)", tier="thorough", timeout=1200, timeout_thorough=1800),
        H(ST, "c45", "c45_follow_up", "steps 4-6: new_follow_up on a two-step response (request built by new_request with symbolic domain/sequence id), serialised: Follow_Up, 44 bytes, echoes domain and sequence id, preciseOriginTimestamp = the send time; no follow-up for a one-step response", timeout=900),
    ],
)
