NP = "np_srvnts_h"
PROP = dict(
    extractors=['daemon_server_call_shape'],
    functions=[
        "ntp_proto::server::Server<FixedClock>::handle (two identically configured servers, 1024-byte buffer vs request-sized buffer)",
        "ntp_proto::packet::NtpPacket::{deserialize, timestamp_response, deny_response, nts_timestamp_response, serialize}",
        "ntp_proto::packet::extension_fields::ExtensionFieldData::serialize (RFC 7822 minimum sizes 16/28 on re-encode), ExtensionField::encode_encrypted",
    ],
    bounds=("NTPv3/NTPv4 requests of 48 and 52 bytes (all content bytes symbolic, first byte constant) under serve/deny policy; "
            "symbolic reception time, clock reading and synchronisation state, identical for both servers"),
    outside=("every request with extension fields (NTPv4 with unique identifiers, NTPv5, NTS): the harnesses c17_fit_v4_uids and c17_fit_kf_short_uids exist but are not registered (symbolic execution of the answer serializer "
             "for answers with extension fields exceeds the memory cap, see C18). The property is FALSE there: harness/np_srvnts_h/examples/c17_short_uids.rs reproduces natively (release, real crypto) an 80-byte NTPv4 request "
             "(two 4-byte unique identifiers + 24-byte MAC) answered with 92 bytes and a 204-byte NTS request (4-byte unique identifier) answered with 212 bytes; with a request-sized buffer both are dropped with InternalError"),
    assumptions=[
        "requests without extension fields only (the defect region 'a unique identifier shorter than the minimum size it is re-encoded with' lies outside, see outside)",
        "server state and policy as in C18",
    ],
    stub_notes=["as C18"],
    harnesses=[
        H(NP, "c17", "c17_fit_v3", "NTPv3 48/52-byte requests (serve, deny): answered with a 1024-byte buffer => answered identically (length, statistics) with a request-sized buffer", timeout=900),
        H(NP, "c17", "c17_fit_v4", "NTPv4 48/52-byte requests: same", timeout=900),
        H("np_srvnts_h", "c19", "c19_cookies_p2", "NTS time answers never grow: fresh cookies only replace request fields at least as long (shared with C19)", timeout=1800, native_check="native::native_short_placeholders_get_no_cookie"),
],
)
