//! Harnesses for property C34 (see /verif/properties.jsonl): NTPv5 Bloom filter transfer.
//!
//! Code under test: `RemoteBloomFilter::{new,next_request,handle_response,full_filter}`,
//! `ReferenceIdRequest::{new,decode,to_response}`, `BloomFilter::{add_id,contains_id,add,union}`.
//! Oracles are written from the property text on raw byte arrays (hooks only build/read state).
use crate::stubs;
use ntp_proto::verif::packet::v5::extension_fields as efh;
use ntp_proto::verif::packet::v5::server_reference_id as sh;
use sh::{BloomFilter, NtpClientCookie, ReferenceIdRequest, ReferenceIdResponse, ResponseHandlingError, ServerId};

const N: usize = 512;

/// One `handle_response` call from an arbitrary pre-state satisfying the representation
/// invariant (chunk size c valid, next_to_request a multiple of c below 512, an outstanding
/// request always names next_to_request), with an arbitrary response (any cookie, any length
/// 0..=516, any bytes). Byte-wise claims are checked at one arbitrary index `i` (= for all i).
fn step(c: u16) -> bool {
    // ---- all symbolic values up front
    let client0: [u8; N] = kani::any();
    let k: u16 = kani::any();
    let filled: bool = kani::any();
    let outstanding: bool = kani::any();
    let exp_cookie: [u8; 8] = kani::any();
    let cookie: [u8; 8] = kani::any();
    let rbuf: [u8; N + 4] = kani::any();
    let rlen: usize = kani::any();
    let i: usize = kani::any();
    kani::assume(k < 512 / c);
    kani::assume(rlen <= N + 4);
    kani::assume(i < N);
    let next = k * c;
    let last = if outstanding { Some((next, NtpClientCookie(exp_cookie))) } else { None };

    let mut remote = sh::remote_from_raw(sh::bloom_from_bytes(client0), c, last, next, filled);
    // `decode` is what the packet decoder uses: no validation of the length at all
    let response = ReferenceIdResponse::decode(&rbuf[..rlen]);
    let res = remote.handle_response(NtpClientCookie(cookie), &response);

    // ---- oracle (property text)
    let should_accept = outstanding && cookie == exp_cookie && rlen == c as usize;
    assert!(res.is_ok() == should_accept, "accepted iff outstanding, same cookie, requested size");
    match res {
        Err(ResponseHandlingError::NotAwaitingResponse) => assert!(!outstanding, "error kind: nothing outstanding"),
        Err(ResponseHandlingError::MismatchedCookie) => assert!(outstanding && cookie != exp_cookie, "error kind: cookie"),
        Err(ResponseHandlingError::MismatchedLength) => assert!(outstanding && cookie == exp_cookie && rlen != c as usize, "error kind: length"),
        Ok(()) => {}
    }
    let (f, c1, last1, next1, filled1) = sh::remote_raw(&remote);
    let after_i = f.as_bytes()[i];
    assert!(c1 == c, "chunk size never changes");
    let off = next as usize;
    let cs = c as usize;
    if should_accept {
        if i >= off && i < off + cs {
            assert!(after_i == rbuf[i - off], "accepted chunk is stored at the requested offset");
        } else {
            assert!(after_i == client0[i], "bytes outside the chunk are untouched");
        }
        let want_next = ((next as u32 + c as u32) % 512) as u16;
        assert!(next1 == want_next, "next chunk = offset + c modulo 512");
        assert!(last1.is_none(), "request is no longer outstanding (a replay of the answer is refused)");
        assert!(filled1 == (filled || want_next == 0), "filled exactly when the last chunk wrapped around");
    } else {
        assert!(after_i == client0[i], "refused answer leaves the filter untouched");
        assert!(next1 == next && filled1 == filled, "refused answer leaves the cursor untouched");
        assert!(last1.is_some() == outstanding, "refused answer leaves the outstanding request in place");
        if let Some((o, ck)) = last1 {
            assert!(o == next && ck.0 == exp_cookie, "outstanding request unchanged");
        }
    }
    assert!(remote.full_filter().is_some() == filled1, "full_filter is Some iff filled");
    if let Some(ff) = remote.full_filter() {
        assert!(ff.as_bytes()[i] == after_i, "full_filter exposes the stored bytes");
    }

    kani::cover!(should_accept && !filled && filled1, "accepted last chunk: becomes filled");
    kani::cover!(outstanding && cookie != exp_cookie, "stale cookie refused");
    kani::cover!(outstanding && cookie == exp_cookie && rlen + 4 == c as usize, "short chunk refused");
    kani::cover!(outstanding && cookie == exp_cookie && rlen == c as usize + 4, "long chunk refused");
    kani::cover!(!outstanding && cookie == exp_cookie && rlen == c as usize, "unsolicited answer refused");
    should_accept && !filled1 && i >= off && i < off + cs
}

macro_rules! step_harness {
    ($name:ident, $c:expr) => {
        #[kani::proof]
        #[kani::unwind(520)]
        fn $name() {
            let partial = step($c);
            kani::cover!(partial, "accepted chunk, not yet filled");
        }
    };
    // chunk size 512: the single chunk always completes the filter
    ($name:ident, $c:expr, whole) => {
        #[kani::proof]
        #[kani::unwind(520)]
        fn $name() {
            let partial = step($c);
            assert!(!partial, "a 512-byte chunk completes the filter");
        }
    };
}
step_harness!(c34_step_4, 4);
step_harness!(c34_step_8, 8);
step_harness!(c34_step_16, 16);
step_harness!(c34_step_32, 32);
step_harness!(c34_step_64, 64);
step_harness!(c34_step_128, 128);
step_harness!(c34_step_256, 256);
step_harness!(c34_step_512, 512, whole);

/// Constructor: exactly the chunk sizes that are multiples of 4 dividing 512; initial state
/// satisfies the representation invariant used by `step`.
#[kani::proof]
fn c34_new() {
    let c: u16 = kani::any();
    let r = sh::Remote::new(c);
    let valid = c == 4 || c == 8 || c == 16 || c == 32 || c == 64 || c == 128 || c == 256 || c == 512;
    assert!(r.is_some() == valid, "new accepts exactly 4,8,...,512");
    if let Some(r) = r {
        let (f, c1, last, next, filled) = sh::remote_raw(&r);
        assert!(c1 == c && last.is_none() && next == 0 && !filled, "initial state");
        assert!(r.full_filter().is_none(), "nothing to show initially");
        assert!(f.as_bytes()[0] == 0 && f.as_bytes()[N - 1] == 0, "initially empty");
    }
    kani::cover!(valid, "valid chunk size");
    kani::cover!(!valid && c % 4 == 0 && c < 512 && c != 0, "multiple of 4 not dividing 512");
}

/// Inductive step of the transfer invariant with the REAL request/answer pipeline:
/// pre: not filled => filter[..next] == server[..next]; filled => filter == server.
/// next_request -> (server) to_response -> handle_response keeps the invariant; the request
/// names exactly (c, next); the moment `is_filled` becomes true the filter is the server's.
/// (The pre-state is constructed: client byte i = server byte i where the invariant demands it,
/// an arbitrary byte elsewhere; the post-condition is checked at an arbitrary index i.)
fn step_inv(c: u16) -> bool {
    let server: [u8; N] = kani::any();
    let junk: [u8; N] = kani::any();
    let k: u16 = kani::any();
    let filled: bool = kani::any();
    let stale: bool = kani::any();
    let old_cookie: [u8; 8] = kani::any();
    let cookie: [u8; 8] = kani::any();
    let i: usize = kani::any();
    kani::assume(k < 512 / c);
    kani::assume(i < N);
    let next = k * c;
    let mut client0 = junk;
    if filled {
        client0 = server;
    } else {
        client0[..next as usize].copy_from_slice(&server[..next as usize]);
    }
    // an earlier request (for the same offset, see the invariant) may still be outstanding
    let last = if stale { Some((next, NtpClientCookie(old_cookie))) } else { None };
    let mut remote = sh::remote_from_raw(sh::bloom_from_bytes(client0), c, last, next, filled);
    let server_filter = sh::bloom_from_bytes(server);

    let req = remote.next_request(NtpClientCookie(cookie));
    assert!(req.offset() == next && req.payload_len() == c, "request names the next chunk");
    let resp = req.to_response(&server_filter);
    assert!(resp.is_some(), "server can always answer a client request");
    let resp = resp.unwrap();
    let r = remote.handle_response(NtpClientCookie(cookie), &resp);
    assert!(r.is_ok(), "the answer to the outstanding request is accepted");

    let (f, _c1, _last1, next1, filled1) = sh::remote_raw(&remote);
    assert!(next1 as u32 == (next as u32 + c as u32) % 512, "cursor advanced");
    if filled1 || i < next1 as usize {
        assert!(f.as_bytes()[i] == server[i], "transfer invariant preserved");
    }
    assert!(filled1 == (filled || next1 == 0), "filled only after wrapping");
    match remote.full_filter() {
        Some(ff) => {
            assert!(filled1, "full_filter only when filled");
            assert!(ff.as_bytes()[i] == server[i], "full filter is exactly the server's 512 bytes");
        }
        None => assert!(!filled1, "filled filter is exposed"),
    }
    kani::cover!(!filled && filled1, "transfer completes");
    kani::cover!(filled, "refresh round after completion");
    !filled1
}

macro_rules! step_inv_harness {
    ($name:ident, $c:expr,) => {
        harness! {
            #[kani::unwind(520)]
            fn $name() {
                let in_progress = step_inv($c);
                kani::cover!(in_progress, "transfer in progress");
            }
        }
    };
    ($name:ident, $c:expr, whole) => {
        harness! {
            #[kani::unwind(520)]
            fn $name() {
                let in_progress = step_inv($c);
                assert!(!in_progress, "a 512-byte chunk completes the transfer");
            }
        }
    };
}
step_inv_harness!(c34_inv_4, 4,);
step_inv_harness!(c34_inv_8, 8,);
step_inv_harness!(c34_inv_16, 16,);
step_inv_harness!(c34_inv_32, 32,);
step_inv_harness!(c34_inv_64, 64,);
step_inv_harness!(c34_inv_128, 128,);
step_inv_harness!(c34_inv_256, 256,);
step_inv_harness!(c34_inv_512, 512, whole);

/// Whole transfer from `new(c)`: 512/c rounds of next_request -> (server) to_response ->
/// handle_response with arbitrary cookies; afterwards the client holds exactly the server's 512
/// bytes (checked at an arbitrary index) and not before the last round. (What happens to stale or
/// mismatched answers in between is decided for every state by c34_step_*: they change nothing.)
fn multi(c: u16) {
    let server: [u8; N] = kani::any();
    let cookies: [[u8; 8]; 4] = kani::any();
    let idx: usize = kani::any();
    kani::assume(idx < N);
    let rounds = (512 / c) as usize;
    assert!(rounds <= 4);
    let server_filter = sh::bloom_from_bytes(server);
    let mut remote = sh::Remote::new(c).unwrap();
    let mut r = 0;
    while r < rounds {
        assert!(remote.full_filter().is_none(), "not complete before all chunks arrived");
        let req = remote.next_request(NtpClientCookie(cookies[r]));
        assert!(req.offset() as usize == r * c as usize && req.payload_len() == c, "chunks requested in order");
        let resp = req.to_response(&server_filter).unwrap();
        let ok = remote.handle_response(NtpClientCookie(cookies[r]), &resp);
        assert!(ok.is_ok(), "genuine answer accepted");
        r += 1;
    }
    let full = remote.full_filter();
    assert!(full.is_some(), "all chunk requests answered: complete");
    let b = full.unwrap().as_bytes();
    assert!(b[idx] == server[idx], "client holds exactly the server's filter (arbitrary index)");
    kani::cover!(server[0] == 0xA5 && server[N - 1] == 0x5A && idx == N - 1, "arbitrary server filter");
}

harness! {
    #[kani::unwind(520)]
    fn c34_multi_256() {
        multi(256);
    }
}
harness! {
    #[kani::unwind(520)]
    fn c34_multi_128() {
        multi(128);
    }
}
harness! {
    #[kani::unwind(520)]
    fn c34_multi_512() {
        multi(512);
    }
}

/// Server side: a chunk request decoded from the wire (any payload of 0..=520 bytes; the request's
/// length is the payload length, its offset the first two payload bytes) or built from raw values is
/// answered with exactly filter[offset..offset+len], or not at all when that range does not exist.
#[kani::proof]
#[kani::unwind(530)]
fn c34_server() {
    let filter: [u8; N] = kani::any();
    let wire: [u8; 520] = kani::any();
    let wlen: usize = kani::any();
    let from_wire: bool = kani::any();
    let raw_len: u16 = kani::any();
    let raw_off: u16 = kani::any();
    let idx: usize = kani::any();
    kani::assume(wlen <= 520);
    let bf = sh::bloom_from_bytes(filter);

    let (req, len, off) = if from_wire {
        match ReferenceIdRequest::decode(&wire[..wlen]) {
            Ok(r) => {
                assert!(wlen >= 2, "a request needs its offset field");
                (r, wlen, u16::from_be_bytes([wire[0], wire[1]]) as usize)
            }
            Err(_) => {
                assert!(wlen < 2, "only too short payloads are refused");
                return;
            }
        }
    } else {
        (efh::refid_request_from_raw(raw_len, raw_off), raw_len as usize, raw_off as usize)
    };
    assert!(req.payload_len() as usize == len && req.offset() as usize == off, "request fields");
    let resp = req.to_response(&bf);
    let in_range = off + len <= N;
    assert!(resp.is_some() == in_range, "answered iff the requested range lies inside the filter");
    if let Some(r) = resp {
        let b = r.bytes();
        assert!(b.len() == len, "exactly the requested number of bytes");
        if idx < len {
            assert!(b[idx] == filter[off + idx], "exactly the requested bytes (arbitrary index)");
        }
        kani::cover!(len == 512 && off == 0, "whole filter in one chunk");
        kani::cover!(len == 3 && off == 509, "odd sized tail chunk");
        kani::cover!(len == 0, "empty chunk");
    }
    kani::cover!(from_wire && off + len > N, "out of range request from the wire");
    kani::cover!(!from_wire && off == 512 && len == 4, "just past the end");
}

/// `ReferenceIdRequest::new` (used by the client), every u16 length and offset: Some iff
/// len % 4 == 0 and offset + len <= 512 in exact arithmetic (oracle in u32).
#[kani::proof]
fn c34_req_new() {
    let len: u16 = kani::any();
    let off: u16 = kani::any();
    let r = ReferenceIdRequest::new(len, off);
    let want = len % 4 == 0 && len as u32 + off as u32 <= 512;
    assert!(r.is_some() == want, "request constructor validates alignment and range");
    if let Some(r) = r {
        assert!(r.payload_len() == len && r.offset() == off);
    }
    kani::cover!(want && len == 512, "largest request");
    kani::cover!(!want && len % 4 == 0, "range refused");
}

/// The region that used to wrap around (fixed in /repo 68ebe1f: the sum was computed in u16, so
/// e.g. new(65532, 8) panicked in dev builds and returned Some in release builds): for every
/// len/offset the result is Some iff aligned and in range, and whenever len + offset exceeds
/// u16::MAX no request is constructed and nothing overflows (Kani's overflow checks are on).
#[kani::proof]
fn c34_req_new_wide() {
    let len: u16 = kani::any();
    let off: u16 = kani::any();
    let r = ReferenceIdRequest::new(len, off);
    let sum = len as u32 + off as u32;
    assert!(r.is_some() == (len % 4 == 0 && sum <= 512), "Some iff aligned and inside the 512-byte filter (exact arithmetic)");
    if sum > u16::MAX as u32 {
        assert!(r.is_none(), "a request beyond the 512-byte filter is never constructed");
    }
    kani::cover!(sum > u16::MAX as u32 && len % 4 == 0, "sum beyond u16::MAX, aligned length (formerly wrapped)");
    kani::cover!(len == 65532 && off == 8, "the former counterexample new(65532, 8)");
    kani::cover!(r.is_some() && off == 512, "empty request at the end of the filter");
}

/// The ten 12-bit values of a server id (< 4096 each; reachable ids are also sorted and distinct,
/// which the filter does not rely on).
fn any_id() -> [u16; 10] {
    let raw: [u16; 10] = kani::any();
    kani::assume(raw[0] < 4096 && raw[1] < 4096 && raw[2] < 4096 && raw[3] < 4096 && raw[4] < 4096);
    kani::assume(raw[5] < 4096 && raw[6] < 4096 && raw[7] < 4096 && raw[8] < 4096 && raw[9] < 4096);
    raw
}
/// Byte `idx` of a filter after setting the bits of `id` (Bloom filter definition).
fn with_bits(byte: u8, idx: usize, id: &[u16; 10]) -> u8 {
    let mut b = byte;
    macro_rules! bit { ($($k:expr),*) => { $( if (id[$k] / 8) as usize == idx { b |= 1u8 << (id[$k] % 8); } )* } }
    bit!(0, 1, 2, 3, 4, 5, 6, 7, 8, 9);
    b
}

/// No false negatives: after add_id(id) an arbitrary filter contains id; add_id sets exactly the
/// ten addressed bits (checked at an arbitrary byte index).
#[kani::proof]
#[kani::unwind(12)]
fn c34_member_add() {
    let f0: [u8; N] = kani::any();
    let id_raw = any_id();
    let idx: usize = kani::any();
    kani::assume(idx < N);
    let id = sh::server_id_from_raw(id_raw);
    let mut f = sh::bloom_from_bytes(f0);
    f.add_id(&id);
    assert!(f.contains_id(&id), "no false negative right after insertion");
    assert!(f.as_bytes()[idx] == with_bits(f0[idx], idx, &id_raw), "add_id sets the ten addressed bits and nothing else (arbitrary index)");
    kani::cover!(id_raw[0] == 4095 && id_raw[9] == 0 && idx == 511, "extreme bit positions");
    kani::cover!(f0[idx] == 0 && f.as_bytes()[idx] == 0x81, "two bits in one byte");
}

/// Merging arbitrary other filters never removes a member: for an arbitrary filter that contains
/// id (constructed: arbitrary bytes + the bits of id), add(other) and union keep id; add is the
/// bytewise OR (arbitrary index).
#[kani::proof]
#[kani::unwind(520)]
fn c34_member_merge() {
    let f0: [u8; N] = kani::any();
    let other: [u8; N] = kani::any();
    let id_raw = any_id();
    let idx: usize = kani::any();
    kani::assume(idx < N);
    let id = sh::server_id_from_raw(id_raw);
    let mut f = sh::bloom_from_bytes(f0);
    f.add_id(&id);
    let before = f.as_bytes()[idx];
    let o = sh::bloom_from_bytes(other);
    f.add(&o);
    assert!(f.contains_id(&id), "no false negative after add(other)");
    assert!(f.as_bytes()[idx] == (before | other[idx]), "add is the bytewise union (arbitrary index)");
    kani::cover!(other[idx] == 0xF0 && before == 0x0F, "disjoint bits merged");
}
#[kani::proof]
#[kani::unwind(520)]
fn c34_member_union() {
    let f0: [u8; N] = kani::any();
    let other: [u8; N] = kani::any();
    let id_raw = any_id();
    let idx: usize = kani::any();
    kani::assume(idx < N);
    let id = sh::server_id_from_raw(id_raw);
    let mut f = sh::bloom_from_bytes(f0);
    f.add_id(&id);
    let before = f.as_bytes()[idx];
    let fs = [f, sh::bloom_from_bytes(other)];
    let u = BloomFilter::union(fs.iter());
    assert!(u.contains_id(&id), "no false negative in a union");
    assert!(u.as_bytes()[idx] == (before | other[idx]), "union is the bytewise OR (arbitrary index)");
    kani::cover!(u.as_bytes()[idx] == 0xFF, "reached");
}

/// contains_id is exactly "all ten addressed bits are set"; the empty filter has no members.
#[kani::proof]
#[kani::unwind(12)]
fn c34_member_def() {
    let f0: [u8; N] = kani::any();
    let probe_raw = any_id();
    let probe = sh::server_id_from_raw(probe_raw);
    let f = sh::bloom_from_bytes(f0);
    let mut all = true;
    macro_rules! bit { ($($k:expr),*) => { $( if (f0[(probe_raw[$k] / 8) as usize] >> (probe_raw[$k] % 8)) & 1 == 0 { all = false; } )* } }
    bit!(0, 1, 2, 3, 4, 5, 6, 7, 8, 9);
    assert!(f.contains_id(&probe) == all, "membership test reads exactly the ten addressed bits");
    assert!(!BloomFilter::new().contains_id(&probe), "empty filter has no members");
    kani::cover!(all, "member");
    kani::cover!(!all, "not a member");
}
