//! Harnesses for property C19 (see /verif/properties.jsonl): NTS server answers are authenticated
//! and carry valid fresh cookies. Claimed under the ideal-AEAD assumption (DESIGN 2.6): the
//! session ciphers are `ModelCipher`, `KeySet::{decode_cookie,encode_cookie}` are replaced by
//! `model_decode_cookie` / `model_encode_cookie` (crate::common).
//!
//! Per run constant (see c18.rs for why): the request layout (`NtsLayout`), the policy, and the
//! two authentication outcomes "cookie decodes" / "request is authentic". Symbolic: all request
//! contents that the layout does not fix, reception time, clock, synchronisation state.
use crate::common::*;
use crate::stubs;
use ntp_proto::*;
use std::sync::Arc;

/// Authentication outcome of a run.
#[derive(Clone, Copy, PartialEq, Eq)]
pub enum Auth {
    /// cookie decodes under the server's keys and the client's tag verifies
    Ok,
    /// cookie was not issued by this server (or its key was rotated out)
    BadCookie,
    /// cookie fine, but (associated data, nonce, ciphertext) is not what the client sent
    BadTag,
}

pub fn reset_ghosts(auth: Auth, fresh: usize) {
    unsafe {
        REQ_AUTHENTIC = auth == Auth::Ok;
        COOKIE_VALID = auth != Auth::BadCookie;
        FRESH_COOKIE_LEN = fresh;
        DEC_CALLS = 0;
        DEC_OK = 0;
        DEC_WRONG_KEY = 0;
        DEC_BAD_EXTENTS = 0;
        ENC_CALLS = 0;
        ENC_KEY = 0;
        COOKIE_DECODES = 0;
        COOKIE_DECODE_FOREIGN = 0;
        COOKIE_ENCODES = 0;
        COOKIE_ENCODE_BAD_KEYS = 0;
    }
}

/// Walk echoed unique-identifier fields starting at `pos`; returns the offset after them.
/// `uids` = (offset of payload in request, payload length) in request order.
pub fn walk_uid_echoes(resp: &[u8], n: usize, mut pos: usize, req: &[u8], uids: &[(usize, usize)]) -> usize {
    let mut k = 0;
    while k < uids.len() {
        let (off, plen) = uids[k];
        assert!(pos + 4 <= n, "answer holds the echoed unique identifier");
        assert!(rd16(resp, pos) == EF_UID, "answer field is a unique identifier");
        let l = rd16(resp, pos + 2) as usize;
        assert!(l >= 4 + plen && l % 4 == 0 && l <= 64 && pos + l <= n, "echoed field is well-formed");
        assert!(same(resp, pos + 4, req, off, plen), "unique identifier echoed unchanged");
        assert!(all_zero(resp, pos + 4 + plen, l - 4 - plen), "padding of the echoed field is zero");
        pos += l;
        k += 1;
    }
    pos
}

/// What one exchange produced (for harness-level cover goals).
#[derive(Clone, Copy, PartialEq, Eq)]
pub struct NtsOutcome {
    pub kind: Option<Kind>,
    pub cookies: usize,
    pub len: usize,
}

/// One NTPv4 NTS exchange for the given (constant) layout; all C19 assertions.
/// `fresh` = length of the cookies the key set currently issues.
pub fn nts_v4_exchange(lay: NtsLayout, fresh: usize, env: &Env, auth: Auth, msg: &mut [u8], buf: &mut [u8]) -> NtsOutcome {
    build_nts_request(msg, &lay, 4);
    reset_ghosts(auth, fresh);
    let keyset = empty_keyset();
    let keyset_ptr = Arc::as_ptr(&keyset);
    let mut server = env.server(v5::BloomFilter::new(), keyset);
    let mut stats = RecStats::default();
    let buf_ptr = buf.as_ptr();
    let out = handle_once(&mut server, env, msg, buf, &mut stats);
    std::mem::forget(server);

    let auth_ok = auth == Auth::Ok;
    let (dec_ok, dec_wrong, dec_bad_extents, enc_calls, enc_key, enc_aad_ptr, enc_aad_len, cookie_encodes, bad_keys, enc_keyset, foreign) = unsafe {
        (DEC_OK, DEC_WRONG_KEY, DEC_BAD_EXTENTS, ENC_CALLS, ENC_KEY, ENC_AAD_PTR, ENC_AAD_LEN, COOKIE_ENCODES, COOKIE_ENCODE_BAD_KEYS, COOKIE_ENCODE_KEYSET, COOKIE_DECODE_FOREIGN)
    };
    assert!(dec_wrong == 0, "the request is only ever decrypted with the cookie's c2s key");
    assert!(dec_bad_extents == 0, "the server verifies exactly the extents the client authenticated (whole prefix as associated data)");
    assert!(foreign == 0, "only the request's cookie field is decoded");
    assert!(dec_ok as usize <= auth_ok as usize, "model sanity: decrypt succeeds only for an authentic request with a valid cookie");

    let uid_main = (lay.o_uid() + 4, lay.uid);
    let uid_trail = (lay.o_trailing() + 4, if lay.trailing > 0 { lay.trailing - 4 } else { 0 });

    let n = match out {
        None => {
            // C19 does not require an answer; but an authentic client request must not be dropped
            // (otherwise every assertion below would be vacuous).
            assert!(!auth_ok, "authentic NTS client request is answered");
            return NtsOutcome { kind: None, cookies: 0, len: 0 };
        }
        Some(n) => n,
    };
    let resp = &buf[..n];

    if !auth_ok {
        // ---- authentication failed: NAK, or DENY by policy; never time, nothing encrypted or issued
        let expect = if env.deny_client { Kind::Deny } else { Kind::Nak };
        check_header_v34(resp, msg, expect, env);
        assert!(resp[1] == 0 && rd64(resp, 32) == 0 && rd64(resp, 40) == 0, "C19: no time in the answer to an unauthenticated request");
        assert!(enc_calls == 0, "nothing is encrypted for an unauthenticated request");
        // fields: only echoes of the request's unique identifiers
        let pos = if lay.trailing > 0 {
            walk_uid_echoes(resp, n, 48, msg, &[uid_main, uid_trail])
        } else {
            walk_uid_echoes(resp, n, 48, msg, &[uid_main])
        };
        assert!(pos == n, "NAK/DENY carries nothing but unique-identifier echoes (no cookie, nothing from the undecryptable part)");
        assert!(stats.nts || env.deny_client, "statistics: counted as NTS");
        return NtsOutcome { kind: Some(expect), cookies: 0, len: n };
    }

    // ---- authenticated request
    let expect = if env.deny_client { Kind::Deny } else { Kind::Time };
    check_header_v34(resp, msg, expect, env);
    // authenticated part: the echo of the authenticated unique identifier, nothing else
    let pos = walk_uid_echoes(resp, n, 48, msg, &[uid_main]);
    // encrypted field = last field of the answer
    assert!(pos + 8 <= n && rd16(resp, pos) == EF_ENCRYPTED, "answer carries the NTS authenticator field after the echoes");
    let total = rd16(resp, pos + 2) as usize;
    let nonce_len = rd16(resp, pos + 4) as usize;
    let ct_len = rd16(resp, pos + 6) as usize;
    assert!(pos + total == n, "authenticator is the last field: everything before it is associated data");
    assert!(nonce_len == NONCE_LEN && ct_len >= TAG_LEN && ct_len <= 1024 && total == 8 + nonce_len + ((ct_len + 3) & !3), "authenticator framing");
    // the authenticator was produced by exactly one encrypt call, under the cookie's s2c key, over
    // exactly the answer's prefix, and what it authenticated is what is being sent
    assert!(enc_calls == 1, "exactly one AEAD encryption per answer");
    assert!(enc_key == S2C_ID, "C19: answer is authenticated with the cookie's server-to-client key");
    assert!(enc_aad_ptr == buf_ptr && enc_aad_len == pos, "C19: associated data = the answer up to the authenticator field");
    assert!(pos <= 128, "prefix fits the ghost copy");
    // loop-free comparison of the first `pos` (<= 128, multiple of 4) bytes
    let copy: &[u8; 128] = unsafe { &ENC_AAD_COPY };
    let mut same_prefix = pos % 4 == 0;
    macro_rules! cmp_words { ($($i:expr),*) => { $( if 8 * $i + 8 <= pos { same_prefix &= rd64(copy, 8 * $i) == rd64(resp, 8 * $i); } )* } }
    cmp_words!(0, 1, 2, 3, 4, 5, 6, 7, 8, 9, 10, 11, 12, 13, 14, 15);
    if pos % 8 == 4 {
        same_prefix &= rd32(copy, pos - 4) == rd32(resp, pos - 4);
    }
    assert!(same_prefix, "the authenticated prefix is the prefix that is sent");
    let nonce_at = pos + 8;
    let ct_at = nonce_at + nonce_len;
    let tag_at = ct_at + ct_len - TAG_LEN;
    let nonce_word = u64::from_be_bytes([ENC_NONCE_BYTE; 8]);
    let tag_word = u64::from_be_bytes([S2C_ID; 8]);
    assert!(rd64(resp, nonce_at) == nonce_word && rd64(resp, nonce_at + 8) == nonce_word, "nonce in the answer is the one the s2c encryption produced");
    assert!(rd64(resp, tag_at) == tag_word && rd64(resp, tag_at + 8) == tag_word, "tag in the answer is the one the s2c encryption produced");

    // plaintext: fresh cookies only
    let pt_end = tag_at;
    let clen = 4 + ((fresh + 3) & !3);
    let mut p = ct_at;
    let mut k: usize = 0;
    let mut last_seq: u8 = 0;
    while p < pt_end && k < 9 {
        assert!(p + 4 <= pt_end && rd16(resp, p) == EF_COOKIE, "encrypted part of the answer holds cookies only");
        let l = rd16(resp, p + 2) as usize;
        assert!(l == clen && p + l <= pt_end, "cookie field holds exactly one cookie of the issued length");
        assert!(resp[p + 4] == 0xC0 && resp[p + 6] == S2C_ID && resp[p + 7] == C2S_ID,
            "C19: cookie was issued by encode_cookie for the request's session keys");
        assert!(resp[p + 5] > last_seq, "every cookie comes from its own encode_cookie call (fresh, never repeated)");
        last_seq = resp[p + 5];
        assert!(all_zero(resp, p + 8, clen - 8), "rest of the model cookie and padding");
        p += clen;
        k += 1;
    }
    assert!(p == pt_end, "cookies cover the plaintext exactly");
    // C19 bounds: at most one fresh cookie per request cookie/placeholder that is large enough, at most 8
    let holders = (lay.cookie >= fresh) as usize + if lay.placeholder >= fresh { lay.slots() - 1 } else { 0 };
    assert!(k <= 8, "C19: never more than eight cookies");
    assert!(k <= lay.slots(), "C19: at most one fresh cookie per cookie or placeholder in the request");
    assert!(k <= holders, "C19: no fresh cookie is larger than the field it replaces");
    if expect == Kind::Deny {
        assert!(k == 0, "no cookies in a DENY");
    }
    assert!(bad_keys == 0, "C19: cookies are encoded for the same session keys as the request's cookie");
    assert!(cookie_encodes == 0 || enc_keyset == keyset_ptr, "C19: cookies are encoded under the server's current key set");
    assert!(stats.nts, "statistics: counted as NTS");
    NtsOutcome { kind: Some(expect), cookies: k, len: n }
}

/// harness body: one layout, one policy, one authentication outcome
macro_rules! c19_v4 {
    ($name:ident, $unwind:expr, $lay:expr, $fresh:expr, $policy:expr, $auth:expr, |$o:ident| $covers:block) => {
        srv_harness! {
            #[kani::unwind($unwind)]
            fn $name() {
                const LAY: NtsLayout = $lay;
                let env = Env::any().with($policy);
                let mut backing: [u8; LAY.len() + SLACK] = kani::any();
                let mut buf_backing = [0u8; BUF + SLACK];
                let $o = nts_v4_exchange(LAY, $fresh, &env, $auth, &mut backing[..LAY.len()], &mut buf_backing[..BUF]);
                $covers
            }
        }
    };
}

/// model cookie length used by the small templates (the code under test only ever compares cookie
/// lengths with request field lengths; the real value is 104 for AES-SIV-CMAC-256 session keys)
pub const C: usize = 8;
/// smallest layout: uid(16) | cookie(C) | authenticator; 120 bytes
pub const P0: NtsLayout = NtsLayout { uid: 16, cookie: C, placeholders: 0, placeholder: C, nonce: 16, inner: 0, trailing: 0 };

c19_v4!(c19_nts_time, 6, P0, C, Policy::Serve, Auth::Ok, |o| {
    kani::cover!(o.kind == Some(Kind::Time) && o.cookies == 1, "authenticated time answer with one fresh cookie");
    kani::cover!(o.len == P0.len(), "answer exactly as long as the request");
});
c19_v4!(c19_nts_nak_cookie, 6, P0, C, Policy::Serve, Auth::BadCookie, |o| {
    kani::cover!(o.kind == Some(Kind::Nak), "NAK: cookie does not decode");
});
c19_v4!(c19_nts_nak_tag, 6, P0, C, Policy::Serve, Auth::BadTag, |o| {
    kani::cover!(o.kind == Some(Kind::Nak), "NAK: cookie fine, authentication fails");
});
c19_v4!(c19_nts_deny, 6, P0, C, Policy::DenyAddress, Auth::Ok, |o| {
    kani::cover!(o.kind == Some(Kind::Deny) && o.cookies == 0, "authenticated DENY without cookies");
});
c19_v4!(c19_nts_deny_unauth, 6, P0, C, Policy::DenyAddress, Auth::BadTag, |o| {
    kani::cover!(o.kind == Some(Kind::Deny), "plain DENY for an unauthenticated request of a denied client");
});

// ==========================================================================================
// Packet-level harnesses: the answer *before* serialization (hook `server_handle_inner`, a thin
// wrapper around the private `Server::handle_inner`). Reason: symbolic execution of the answer
// serializer for answers that carry extension fields does not fit the budget (measured: the
// smallest NTPv4 template with one echoed identifier needs 570 s of symex and > 8 GB in the
// solver; every pointer-iterating loop over `Vec<ExtensionField>` and the `io::Error` drop glue is
// unrolled to the unwind bound, nested). What these harnesses decide: policy/authentication
// outcome, which answer is built, which key is handed to the serializer, which fields and how
// many cookies the answer holds. What they do not see: the bytes (associated-data coverage and
// padding of the authenticator are left to C24/C25's encoder harnesses).
use ntp_proto::verif::packet::{self as ph, Ef};
use ntp_proto::verif::server as sh;
use ntp_proto::verif::time_types as th;

/// payload of a unique-identifier field equals `req[off..off+len]`
fn is_uid_echo(ef: &Ef<'_>, req: &[u8], off: usize, len: usize) -> bool {
    match ef {
        Ef::UniqueIdentifier(d) => d.len() == len && same(d, 0, req, off, len),
        _ => false,
    }
}

/// One NTPv4 NTS exchange up to the unserialized answer; C19's assertions on that level.
pub fn nts_v4_inner(lay: NtsLayout, fresh: usize, env: &Env, auth: Auth, msg: &mut [u8]) -> NtsOutcome {
    build_nts_request(msg, &lay, 4);
    reset_ghosts(auth, fresh);
    let keyset = empty_keyset();
    let keyset_ptr = Arc::as_ptr(&keyset);
    let mut server = env.server(v5::BloomFilter::new(), keyset);
    let mut stats = RecStats::default();
    let msg: &[u8] = msg;
    let res = sh::server_handle_inner(&mut server, env.client_ip(), env.recv(), msg, &mut stats);

    let auth_ok = auth == Auth::Ok;
    let (dec_ok, dec_wrong, dec_bad_extents, enc_calls, cookie_encodes, bad_keys, enc_keyset, foreign) = unsafe {
        (DEC_OK, DEC_WRONG_KEY, DEC_BAD_EXTENTS, ENC_CALLS, COOKIE_ENCODES, COOKIE_ENCODE_BAD_KEYS, COOKIE_ENCODE_KEYSET, COOKIE_DECODE_FOREIGN)
    };
    assert!(dec_wrong == 0, "the request is only ever decrypted with the cookie's c2s key");
    assert!(dec_bad_extents == 0, "the server verifies exactly the extents the client authenticated (whole prefix as associated data)");
    assert!(foreign == 0, "only the request's cookie field is decoded");
    assert!(dec_ok as usize == auth_ok as usize, "decrypt succeeds exactly for an authentic request with a valid cookie");
    assert!(enc_calls == 0, "nothing is encrypted before serialization");
    assert!(unsafe { REAL_AES_CALLS } == 0, "stub sanity: no real AES-SIV cipher exists in this harness");

    let d = match res {
        Err(_) => {
            assert!(!auth_ok, "authentic NTS client request is answered");
            std::mem::forget(server);
            return NtsOutcome { kind: None, cookies: 0, len: 0 };
        }
        Ok(d) => d,
    };
    let p = &d.packet;
    let authenticated = ph::packet_authenticated(p);
    let encrypted = ph::packet_encrypted(p);
    let untrusted = ph::packet_untrusted(p);
    assert!(p.mode() == NtpAssociationMode::Server && p.version() == NtpVersion::V4, "answer: server mode, request's version");
    let out;
    if !auth_ok {
        // ---- authentication failed: NAK, or DENY by policy; never time, no key, no cookie
        let expect = if env.deny_client { Kind::Deny } else { Kind::Nak };
        assert!(d.action == if env.deny_client { ServerResponse::Deny } else { ServerResponse::NTSNak }, "C19: unauthenticated request => NTS NAK (DENY if policy denies the client)");
        assert!(p.stratum() == 0 && th::ts_raw(p.receive_timestamp()) == 0 && th::ts_raw(p.transmit_timestamp()) == 0,
            "C19: no time in the answer to an unauthenticated request");
        assert!(p.reference_id() == if env.deny_client { ReferenceId::KISS_DENY } else { ReferenceId::KISS_NTSN }, "kiss code");
        assert!(d.cipher.is_none(), "no session key is used for an unauthenticated request");
        assert!(authenticated.len() == 0 && encrypted.len() == 0, "nothing authenticated, nothing encrypted, no cookie");
        assert!(cookie_encodes == 0, "no cookie is issued to an unauthenticated request");
        let n_uid = 1 + (lay.trailing > 0) as usize;
        assert!(untrusted.len() == n_uid, "only the unique identifiers are echoed (nothing from the undecryptable part)");
        assert!(is_uid_echo(&untrusted[0], msg, lay.o_uid() + 4, lay.uid), "identifier echoed unchanged");
        if lay.trailing > 0 {
            assert!(is_uid_echo(&untrusted[1], msg, lay.o_trailing() + 4, lay.trailing - 4), "trailing identifier echoed unchanged");
        }
        assert!(d.nts || env.deny_client, "statistics: counted as NTS");
        out = NtsOutcome { kind: Some(expect), cookies: 0, len: 0 };
    } else {
        // ---- authenticated request
        let expect = if env.deny_client { Kind::Deny } else { Kind::Time };
        assert!(d.action == if env.deny_client { ServerResponse::Deny } else { ServerResponse::ProvideTime }, "authenticated request: time, or DENY by policy");
        assert!(d.nts, "statistics: counted as NTS");
        match &d.cipher {
            None => assert!(false, "C19: the answer to an authenticated request is authenticated"),
            Some(c) => assert!(c.key_bytes().len() == 1 && c.key_bytes()[0] == S2C_ID, "C19: with the cookie's server-to-client key"),
        }
        if expect == Kind::Time {
            assert!(d.desired_size == Some(msg.len()), "answer is padded to the request's size");
            assert!(p.stratum() == env.stratum && th::ts_raw(p.receive_timestamp()) == env.recv_raw && th::ts_raw(p.transmit_timestamp()) == env.now_raw,
                "time answer carries the server's stratum, the reception time and the clock reading");
        } else {
            assert!(p.stratum() == 0 && th::ts_raw(p.transmit_timestamp()) == 0 && p.reference_id() == ReferenceId::KISS_DENY, "DENY kiss");
        }
        assert!(untrusted.len() == 0, "nothing unauthenticated in an authenticated answer");
        assert!(authenticated.len() == 1 && is_uid_echo(&authenticated[0], msg, lay.o_uid() + 4, lay.uid),
            "authenticated part = echo of the authenticated unique identifier, nothing else reflected");
        // encrypted part: fresh cookies only
        let k = encrypted.len();
        let holders = (lay.cookie >= fresh) as usize + if lay.placeholder >= fresh { lay.slots() - 1 } else { 0 };
        assert!(k <= 8, "C19: never more than eight cookies");
        assert!(k <= lay.slots(), "C19: at most one fresh cookie per cookie or placeholder in the request");
        assert!(k <= holders, "C19: no fresh cookie is larger than the field it replaces");
        assert!(expect == Kind::Time || k == 0, "no cookies in a DENY");
        let mut i = 0;
        let mut last_seq = 0u8;
        while i < k && i < 8 {
            match &encrypted[i] {
                Ef::NtsCookie(c) => {
                    assert!(c.len() == fresh, "cookie of the issued length");
                    assert!(c[0] == 0xC0 && c[2] == S2C_ID && c[3] == C2S_ID, "C19: cookie was issued by encode_cookie for the request's session keys");
                    assert!(c[1] > last_seq, "every cookie comes from its own encode_cookie call (fresh, never repeated)");
                    last_seq = c[1];
                }
                _ => assert!(false, "encrypted part of the answer holds cookies only"),
            }
            i += 1;
        }
        assert!(bad_keys == 0, "C19: cookies are encoded for the same session keys as the request's cookie");
        assert!(cookie_encodes == 0 || enc_keyset == keyset_ptr, "C19: cookies are encoded under the server's current key set");
        out = NtsOutcome { kind: Some(expect), cookies: k, len: 0 };
    }
    std::mem::forget(d);
    std::mem::forget(server);
    out
}

macro_rules! c19_inner {
    ($name:ident, $unwind:expr, $lay:expr, $fresh:expr, $policy:expr, $auth:expr, |$o:ident| $covers:block) => {
        srv_harness! {
            #[kani::unwind($unwind)]
            fn $name() {
                const LAY: NtsLayout = $lay;
                let env = Env::any().with($policy);
                let mut backing: [u8; LAY.len() + SLACK] = kani::any();
                let $o = nts_v4_inner(LAY, $fresh, &env, $auth, &mut backing[..LAY.len()]);
                $covers
            }
        }
    };
}

c19_inner!(c19_inner_time, 4, P0, C, Policy::Serve, Auth::Ok, |o| {
    kani::cover!(o.kind == Some(Kind::Time) && o.cookies == 1, "authenticated time answer with one fresh cookie");
});
c19_inner!(c19_inner_nak_cookie, 4, P0, C, Policy::Serve, Auth::BadCookie, |o| {
    kani::cover!(o.kind == Some(Kind::Nak), "NAK: cookie does not decode");
});
c19_inner!(c19_inner_nak_tag, 4, P0, C, Policy::Serve, Auth::BadTag, |o| {
    kani::cover!(o.kind == Some(Kind::Nak), "NAK: cookie fine, authentication fails");
});

// ==========================================================================================
// Builder-level harnesses: `NtpPacket::nts_timestamp_response` (packet/mod.rs, "cookie
// generation") driven directly with a request packet built from parts (hook `packet_from_parts`),
// so that the number of placeholders can reach and exceed 8 and every placeholder length is
// symbolic. Through `Server::handle` this is out of reach (see above).
use ntp_proto::verif::keyset as kh;
use std::borrow::Cow;

/// Request = authenticated [uid(32), cookie(CK), P_AUTH placeholders] + encrypted [P_ENC
/// placeholders]; every placeholder length symbolic (u16), cookie length CK constant, fresh
/// cookie length `fresh` constant.
pub fn cookie_answer<const P_AUTH: usize, const P_ENC: usize>(ck: usize, fresh: usize) -> (usize, usize) {
    let env = Env::any().with(Policy::Serve);
    let uid: [u8; 32] = kani::any();
    let lens_auth: [u16; P_AUTH] = kani::any();
    let lens_enc: [u16; P_ENC] = kani::any();
    let tx: u64 = kani::any();
    let poll: i8 = kani::any();

    let mut auth: Vec<Ef<'static>> = Vec::with_capacity(P_AUTH + 2);
    auth.push(Ef::UniqueIdentifier(Cow::Owned(uid.to_vec())));
    auth.push(Ef::NtsCookie(Cow::Owned(vec![0x11u8; ck])));
    let mut i = 0;
    while i < P_AUTH {
        auth.push(Ef::NtsCookiePlaceholder { cookie_length: lens_auth[i] });
        i += 1;
    }
    let mut enc: Vec<Ef<'static>> = Vec::with_capacity(P_ENC + 1);
    let mut i = 0;
    while i < P_ENC {
        enc.push(Ef::NtsCookiePlaceholder { cookie_length: lens_enc[i] });
        i += 1;
    }
    let z = th::dur_from_raw(0);
    let zt = th::ts_from_raw(0);
    let head = ph::packet_v3v4_from_raw(false, NtpLeapIndicator::NoWarning, NtpAssociationMode::Client, 0, th::poll_from_raw(poll), 0, z, z,
        ReferenceId::NONE, zt, zt, zt, th::ts_from_raw(tx));
    let input = ph::packet_from_parts(head.header(), auth, enc, Vec::new());
    let cookie = kh::decoded_cookie_from_parts(15, Box::new(ModelCipher { id: [S2C_ID] }), Box::new(ModelCipher { id: [C2S_ID] }));
    let keyset = empty_keyset();
    reset_ghosts(Auth::Ok, fresh);
    unsafe { DISPERSION = env.root_disp_raw };
    let clock = FixedClock { now: th::ts_from_raw(env.now_raw) };
    let resp = NtpPacket::nts_timestamp_response(env.server_info(v5::BloomFilter::new()), input, env.recv(), &clock, &cookie, &keyset);

    // ---- oracle (property text): counts and sizes
    let out_auth = ph::packet_authenticated(&resp);
    let out_enc = ph::packet_encrypted(&resp);
    assert!(ph::packet_untrusted(&resp).len() == 0, "nothing unauthenticated in the answer");
    assert!(out_auth.len() == 1, "only the unique identifier is echoed (placeholders and the old cookie are not reflected)");
    match &out_auth[0] {
        Ef::UniqueIdentifier(d) => assert!(d.len() == 32 && same(d, 0, &uid, 0, 32), "identifier echoed unchanged"),
        _ => assert!(false, "echoed field is the unique identifier"),
    }
    // request fields able to hold a fresh cookie
    let mut holders = (ck >= fresh) as usize;
    let mut i = 0;
    while i < P_AUTH {
        holders += (lens_auth[i] as usize >= fresh) as usize;
        i += 1;
    }
    let mut i = 0;
    while i < P_ENC {
        holders += (lens_enc[i] as usize >= fresh) as usize;
        i += 1;
    }
    let k = out_enc.len();
    assert!(k <= 8, "C19: never more than eight cookies");
    assert!(k <= 1 + P_AUTH + P_ENC, "C19: at most one fresh cookie per cookie or placeholder in the request");
    assert!(k <= holders, "C19: no fresh cookie is larger than the field it replaces");
    let mut i = 0;
    let mut last_seq = 0u8;
    while i < k && i < 8 {
        match &out_enc[i] {
            Ef::NtsCookie(c) => {
                assert!(c.len() == fresh, "cookie of the issued length");
                assert!(c[0] == 0xC0 && c[2] == S2C_ID && c[3] == C2S_ID, "C19: issued by encode_cookie for the request's session keys");
                assert!(c[1] > last_seq, "every cookie comes from its own encode_cookie call");
                last_seq = c[1];
            }
            _ => assert!(false, "encrypted part of the answer holds cookies only"),
        }
        i += 1;
    }
    assert!(unsafe { COOKIE_ENCODE_BAD_KEYS } == 0, "C19: cookies are encoded for the same session keys");
    assert!(unsafe { COOKIE_ENCODES } == 0 || unsafe { COOKIE_ENCODE_KEYSET } == Arc::as_ptr(&keyset), "C19: under the key set handed to the builder");
    assert!(resp.stratum() == env.stratum && th::ts_raw(resp.receive_timestamp()) == env.recv_raw && th::ts_raw(resp.transmit_timestamp()) == env.now_raw,
        "time answer carries stratum, reception time, clock reading");
    std::mem::forget(resp);
    std::mem::forget(cookie);
    (k, holders)
}

srv_harness! {
    #[kani::unwind(6)]
    fn c19_cookies_p2() {
        let (k, holders) = cookie_answer::<2, 0>(C, C);
        kani::cover!(k == 3, "three fresh cookies for cookie + 2 placeholders");
        kani::cover!(k == 1 && holders == 1, "both placeholders too small: only the cookie is replaced");
    }
}

srv_harness! {
    #[kani::unwind(6)]
    fn c19_cookies_small_cookie() {
        // fresh cookies longer than the request's cookie: only large-enough placeholders are used
        let (k, holders) = cookie_answer::<1, 1>(C, C + 4);
        kani::cover!(k == 2, "cookie field too small, both placeholders used");
        kani::cover!(k == 0 && holders == 0, "nothing fits: no cookie");
    }
}

srv_harness! {
    #[kani::unwind(13)]
    fn c19_cookies_p9() {
        // 1 cookie + 7 authenticated + 2 encrypted placeholders = 10 candidates
        let (k, holders) = cookie_answer::<7, 2>(C, C);
        kani::cover!(holders == 10 && k >= 7, "more candidates than the limit: capped");
    }
}

// ---------------------------------------------------------------- native scenario tests (lead)
// c19_cookies_p2 decides the cookie/placeholder rules under models of the cookie codec, so its
// counterexamples cannot be replayed through Kani's playback. These ordinary tests drive the REAL
// server (real key set, real AES-SIV) with concrete NTS requests carrying short placeholders;
// the driver runs them natively when the harness fails and reports a violation only if they fail.
#[cfg(test)]
mod native {
    use ntp_proto::verif::keyset as kh;
    use ntp_proto::verif::packet::crypto::{AesSivCmac256, Cipher as _};
    use ntp_proto::*;
    use std::net::{IpAddr, Ipv4Addr};
    use std::sync::{Arc, RwLock};

    #[derive(Clone)]
    struct Clk;
    impl NtpClock for Clk {
        type Error = std::io::Error;
        fn now(&self) -> Result<NtpTimestamp, Self::Error> {
            Ok(NtpTimestamp::from_seconds_nanos_since_ntp_era(200, 0))
        }
        fn set_frequency(&self, _: f64) -> Result<NtpTimestamp, Self::Error> {
            unreachable!()
        }
        fn get_frequency(&self) -> Result<f64, Self::Error> {
            Ok(0.0)
        }
        fn step_clock(&self, _: NtpDuration) -> Result<NtpTimestamp, Self::Error> {
            unreachable!()
        }
        fn disable_ntp_algorithm(&self) -> Result<(), Self::Error> {
            unreachable!()
        }
        fn error_estimate_update(&self, _: NtpDuration, _: NtpDuration) -> Result<(), Self::Error> {
            unreachable!()
        }
        fn status_update(&self, _: NtpLeapIndicator) -> Result<(), Self::Error> {
            unreachable!()
        }
    }
    #[derive(Default)]
    struct Stats(u32);
    impl ServerStatHandler for Stats {
        fn register(&mut self, _: u8, _: bool, _: ServerReason, _: ServerResponse) {
            self.0 += 1;
        }
    }

    /// header | uid(32) | cookie | `n` placeholders with `body` bytes each | authenticator (empty plaintext)
    fn nts_request(keyset: &KeySet, n: usize, body: usize) -> Vec<u8> {
        let c2s = AesSivCmac256::new([7u8; 32].into());
        let cookie = kh::keyset_encode_cookie(
            keyset,
            &kh::decoded_cookie_from_parts(15, Box::new(AesSivCmac256::new([9u8; 32].into())), Box::new(AesSivCmac256::new([7u8; 32].into()))),
        );
        let mut m = vec![0u8; 48];
        m[0] = 0x23;
        m[40..48].copy_from_slice(&[1, 2, 3, 4, 5, 6, 7, 8]);
        m.extend_from_slice(&[0x01, 0x04, 0x00, 36]);
        m.extend(std::iter::repeat(0xAB).take(32));
        m.extend_from_slice(&[0x02, 0x04]);
        m.extend_from_slice(&((4 + cookie.len()) as u16).to_be_bytes());
        m.extend_from_slice(&cookie);
        for _ in 0..n {
            m.extend_from_slice(&[0x03, 0x04]);
            m.extend_from_slice(&((4 + body) as u16).to_be_bytes());
            m.extend(std::iter::repeat(0u8).take(body));
        }
        let mut ct = vec![0u8; 64];
        let r = c2s.encrypt(&mut ct, 0, &m).unwrap();
        let total = 8 + r.nonce_length + r.ciphertext_length;
        m.extend_from_slice(&[0x04, 0x04]);
        m.extend_from_slice(&(total as u16).to_be_bytes());
        m.extend_from_slice(&(r.nonce_length as u16).to_be_bytes());
        m.extend_from_slice(&(r.ciphertext_length as u16).to_be_bytes());
        m.extend_from_slice(&ct[..r.nonce_length + r.ciphertext_length]);
        m
    }

    fn answer(n: usize, body: usize) -> (usize, Option<(usize, usize)>) {
        let keyset = KeySetProvider::new(1).get();
        let msg = nts_request(&keyset, n, body);
        let config = ServerConfig {
            denylist: FilterList { filter: vec![], action: FilterAction::Deny },
            allowlist: FilterList { filter: vec!["0.0.0.0/0".parse().unwrap()], action: FilterAction::Ignore },
            rate_limiting_cache_size: 0,
            rate_limiting_cutoff: std::time::Duration::from_secs(1),
            require_nts: None,
            accepted_versions: vec![NtpVersion::V4],
        };
        let mut server = Server::new_internal(config, Clk, Arc::new(RwLock::new(NtpServerInfo::default())), keyset.clone());
        let mut out = [0u8; 2048];
        let mut st = Stats::default();
        let s2c = AesSivCmac256::new([9u8; 32].into());
        let r = match server.handle(IpAddr::V4(Ipv4Addr::new(192, 0, 2, 7)), NtpTimestamp::from_seconds_nanos_since_ntp_era(100, 0), &msg, &mut out, &mut st) {
            ServerAction::Respond { message } => {
                let (p, _) = NtpPacket::deserialize(message, &s2c).expect("answer authenticates under the s2c key");
                Some((message.len(), p.new_cookies().count()))
            }
            ServerAction::Ignore => None,
        };
        (msg.len(), r)
    }

    #[test]
    fn native_short_placeholders_get_no_cookie() {
        for (n, body) in [(3usize, 64usize), (6, 16), (2, 12)] {
            let (req, ans) = answer(n, body);
            let (len, cookies) = ans.expect("authentic request is answered");
            assert!(cookies <= 1, "placeholders shorter than a cookie get no fresh cookie ({n} x {body}: {cookies} cookies)");
            assert!(len <= req, "the answer ({len}) is not longer than the request ({req})");
        }
        // placeholders of cookie size are honoured
        let (req, ans) = answer(2, 104);
        let (len, cookies) = ans.expect("authentic request is answered");
        assert!(cookies >= 2 && cookies <= 3 && len <= req, "cookie-sized placeholders: {cookies} cookies, {len} <= {req}");
    }
}
