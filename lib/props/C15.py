NS = "np_server_h"
_seam = ("split along the code's own seam: policy half = Server::handle_inner (through hook server_handle_inner) with fully symbolic "
         "policy/client/cache/datagram contents; wire half = whole Server::handle in the daemon's call shape with a concrete policy per "
         "response kind, response classified from its raw bytes")
PROP = dict(
    functions=[
        "ntp_proto::server::Server<SymClock>::{handle, handle_inner, intended_action} (SymClock: now() = harness value, steering entry points panic)",
        "ntp_proto::ipfilter::IpFilter::is_in / BitTree::lookup (real lookup on one-node tries built by hook filter_from_top_nibbles; IpFilter::new is C31)",
        "ntp_proto::server::TimestampedCache<IpAddr>::is_allowed (cache size 0 and 1)",
        "ntp_proto::packet::NtpPacket::{deserialize, timestamp_response, deny_response, nts_nak_response, serialize} as reached from handle",
    ],
    bounds=("datagrams of 0..=52 bytes: every length; first byte (LI/version/mode) constant per call: versions 3/4 client mode with LI 0..3 samples "
            "(0x1B,0x5B,0x23,0xE3,0xA3) for answered requests, all 7 non-client modes of v3 and v4 (48 and 52 B) for ignored ones; all other bytes symbolic. Policy: deny and allow list = any union of the sixteen /4 subnets per family "
            "(16-bit symbolic masks for IPv4 and IPv6 each, 0 = empty list, 0xffff = /0), both actions, require-nts in {None, Ignore, Deny}, accepted versions = "
            "any list of 0..=3 versions, rate-limit cache size 0 or 1 with the slot in an arbitrary pre-state, cutoff any Duration < 2^40 s. Client: any IPv4, "
            "IPv6 or IPv4-mapped IPv6 address. "
            + _seam),
    outside=("lists with masks longer than /4 (IpFilter::new is decided by C31; here the real lookup runs on raw one-node tries); symbolic LI/version/mode bits "
             "within one call (CBMC prunes only by constant propagation: measured >5 min/4.7 GB in symex); symbolic policy outcome on the wire half (3 response "
             "serialisations with phantom extension fields: >10 min); NTS requests with valid cookies (C17-C19, np_srvnts_h); symbolic contents for undecryptable "
             "NTS layouts (cookie field with unknown key id / failing cookie decryption, NTPv5 layout: harnesses c15_nts_nocookie_*, c15_nts_badcookie_nak, "
             "c15_nts_v5_nak exist but did not finish symex within 10 min/5 GB and are not registered); NtpClock::now() failing (handle would panic on expect)"),
    assumptions=[
        "server stratum != 0 (a stratum-0 time answer is indistinguishable from a kiss code on the wire)",
        "root delay and precision of the synchronisation state are >= 0 (to_bits_short asserts non-negativity) and root delay <= 65535 s (debug_assert, dev profile only)",
        "root dispersion = arbitrary non-negative duration <= 65535 s (stub of TimeSnapshot::root_dispersion, see stub_notes)",
        "rate-limit slot pre-state: empty or (any address, instant <= arrival instant); arrival instant < 2^40 s",
        "request slice and send buffer do not end at the end of their backing arrays (as in the daemon: 1024-byte arrays)",
    ],
    stub_notes=[
        "TimeSnapshot::root_dispersion -> arbitrary non-negative NtpDuration chosen up front (f64 powi is nondeterministic in CBMC; conversion checked by c22_encode_dispersion)",
        "AesSivCmac512::decrypt / AesSivCmac256::decrypt -> Err (arbitrary bytes never authenticate); asserted unreachable for plain requests",
        "core::str::from_utf8 -> unchecked; <[u8]>::is_ascii -> byte loop (only caller: draft identification, which rejects non-ASCII)",
        "zeroize::barrier::optimization_barrier -> no-op (inline asm)",
        "<DefaultHasher as Hasher>::finish -> 8-bit XOR fold of the SipHash state (c15_policy_ratelimit only; see C20)",
    ],
    harnesses=[
        H(NS, "c15", "c15_policy_v4", "policy half, NTPv4 client request 48 B, IPv4 client, every policy: decision/order/stat reason vs. oracle", bounds="first byte 0x23, len 48"),
        H(NS, "c15", "c15_policy_v3", "policy half, NTPv3 client request 48 B", bounds="first byte 0x1B, len 48"),
        H(NS, "c15", "c15_policy_v6", "policy half, IPv6 and IPv4-mapped clients (LI=2)", bounds="first byte 0xA3, len 48"),
        H(NS, "c15", "c15_policy_ratelimit", "policy half with one rate-limit slot in an arbitrary pre-state, all client families; cache touched only by clients that passed both lists", bounds="first byte 0x23, len 48", timeout=400),
        H(NS, "c15", "c15_reject_mode4", "policy half, symbolic policy, all client families: a well-formed NTPv4 datagram in server mode (4) is ignored under every policy; a malformed one gets no DENY kiss either"),
        H(NS, "c16", "c16_wire_v4_time", "whole handle(): allowed client gets a time answer (bytes classified, timestamps, stratum)"),
        H(NS, "c16", "c16_wire_v4_deny", "whole handle(): deny-listed client gets exactly a DENY kiss"),
        H(NS, "c16", "c16_wire_v4_deny_nts", "whole handle(): plain request denied when NTS is required (action deny)"),
        H(NS, "c15", "c15_policy_v4_mac", "policy half, NTPv4 + 4-byte MAC (LI=3)", tier="thorough", bounds="first byte 0xE3, len 52"),
        H(NS, "c15", "c15_policy_v3_mac", "policy half, NTPv3 + 4-byte MAC (LI=1)", tier="thorough", bounds="first byte 0x5B, len 52"),
        H(NS, "c15", "c15_reject_modes_v4", "policy half, symbolic policy: NTPv4 in every non-client mode (48 and 52 B) is ignored", tier="thorough"),
        H(NS, "c15", "c15_reject_modes_v3", "policy half, symbolic policy: NTPv3 in every non-client mode is ignored", tier="thorough"),
        H(NS, "c16", "c16_wire_v4_deny_allow", "whole handle(): client outside the allow list gets a DENY kiss", tier="thorough"),
        H(NS, "c16", "c16_wire_v3_time", "whole handle(): NTPv3 time answer", tier="thorough"),
        H(NS, "c16", "c16_wire_v3_deny", "whole handle(): NTPv3 DENY kiss", tier="thorough"),
        # the list lookup the access policy relies on (shared with C31): real IpFilter::new tries (built natively by build.rs from
    # the current source), `is_in <=> prefix oracle` for every address
    H("np_misc_h", "c31", "c31_v4_plain", "IpFilter membership = prefix oracle (IPv4 lists, plain addresses); the policy harnesses above use raw /4 tries", timeout=600),
    H("np_misc_h", "c31", "c31_v4_mapped", "same for IPv4-mapped IPv6 client addresses", timeout=600),
],
)
