NP = "np_algo_h"
PROP = dict(
    extractors=['set_frequency_call_sites'],
    functions=[
        "ntp_proto::algorithm::kalman::KalmanClockController::<RecClock>::{steer_frequency, change_desired_frequency, steer_offset (slew branch), time_update} (real code through hooks)",
        "call-site census (syntactic, by reading: `grep -rn 'set_frequency(' /repo/ntp-proto/src`): the only caller of NtpClock::set_frequency in ntp-proto is steer_frequency (algorithm/kalman/mod.rs:339); steer_frequency is called from change_desired_frequency and update_clock, change_desired_frequency from steer_offset (slew) and time_update. new() only reads the kernel frequency.",
    ],
    bounds="one call from an arbitrary pre-state: any finite kernel/current frequency offset except exactly -1, any finite change, any finite positive maximum_frequency_steer, slew_maximum_frequency_offset, slew_minimum_duration, any step_threshold; |desired_freq| <= slew_maximum_frequency_offset (invariant, re-established by every harness); empty source map",
    outside="NaN/infinite estimates (C06 territory: not applicable); the per-source state update after a frequency change; magnitudes above 1e300 in change_desired_frequency/slew (sums of finite values overflow to infinity; with freq_offset == -1 that would give 0*inf = NaN); a zero correction handed to steer_offset (0/0 slew duration: Duration::from_secs_f64 panics before any clock call; reachable from update_clock only when steer_offset_leftover > steer_offset_threshold, not with the defaults)",
    assumptions=[
        "finite inputs, positive finite limits",
        "kernel frequency != -1.0 (-1e6 ppm, a stopped clock): otherwise (1+new)/(1+old) in the message to the sources is 0/0 (Kani NaN check); the applied frequency is unaffected",
        "|desired_freq|, |new_freq|, |freq_delta|, slew_maximum_frequency_offset <= 1e300",
        "slew harness: correction non-zero and |change| <= step_threshold",
    ],
    stub_notes=[
        "c02_slew: std::time::Duration::from_secs_f64 -> c02::duration_from_secs_f64_stub (same domain check as the real function; an unrepresentable slew duration ends the path = the real function panics, the daemon stops before touching the clock; asserted: no clock call before)",
        "c02_slew: std::process::exit -> common::exit_unexpected (reports an exit; not reachable in the slew branch)",
    ],
    harnesses=[
        H(NP, "c02", "c02_steer_frequency", "steer_frequency: the frequency handed to set_frequency is within +-maximum_frequency_steer (checked at the call and on the log), is remembered, is finite", timeout=300),
        H(NP, "c02", "c02_change_desired", "change_desired_frequency: same bound; slew frequency becomes the requested one", timeout=300),
        H(NP, "c02", "c02_time_update", "time_update (end of slew): same bound, slew frequency back to 0", timeout=300),
        H(NP, "c02", "c02_slew", "steer_offset slew branch: same bound and |extra slew frequency| <= slew_maximum_frequency_offset", timeout=300),
        H("np_algo_h", "c02", "c02_startup", "new() + take_control() with an arbitrary kernel frequency: nothing outside +-max is applied", timeout=600),
],
)
