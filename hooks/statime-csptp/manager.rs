//! Safe-Rust verification hooks for this module (accessors/wrappers only; no logic).
#![allow(missing_docs, unused_imports, dead_code)]
use super::*;

// ---- statime_h (C44/C45): manager from parts / access to its state cell
pub fn manager_from_parts<M: StateMutex>(config: CsptpConfig, state: InternalState) -> CsptpManager<M> {
    CsptpManager { config, state: M::new(state) }
}
pub fn manager_state<M>(m: &CsptpManager<M>) -> &M {
    &m.state
}
