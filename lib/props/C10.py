NH = "np_nts_h"
PROP = dict(
    functions=[
        "ntp_proto::source::NtpSource<RecCtl>::{handle_timer,current_poll_interval,handle_incoming,process_message}",
        "ntp_proto::time_types::PollInterval::{inc,dec,as_system_duration,max}",
        "ntp_proto::algorithm::kalman::source::SourceFilter::update_desired_poll",
        "rand::Rng::gen_range(1.01..=1.05) on the ghost tape + core::time::Duration::mul_f64 (real code)",
    ],
    bounds="timer: every configuration 0 <= min <= max <= 17, filter desire in [min,max], server-requested minimum 0..=17 (c10_timer_*) or 18..=127 "
           "(c10_timer_server_requested), any last interval / reach / tries, every random word (jitter), NTPv4 and NTPv4-upgrading sources; "
           "filter: one update_desired_poll from every (desire in [min,max], poll score inside the hysteresis band, any f64 p/weight/period incl. NaN/inf, any "
           "hysteresis >= 1 and f64 thresholds); server request: one NTPv5 response with any poll byte",
    outside="the poll of an NTPv5 / just-upgraded source (same current_poll_interval + timer code, different packet builder: the NTPv5 request path needs > 8 GB in the solver, c10_timer_v5 kept in c10.rs, not registered); sources with NTS (same code path for the interval; C13/C14 build those requests); timer for exponents above 17: the implementation saturates "
            "the timer at 2^31 s (only 'not earlier than 1.01 * min(interval, 2^31 s)' is checked there); KalmanSourceController plumbing between filter and "
            "source (desired_poll_interval is a field read); RATE handling (C09)",
    assumptions=[
        "pending-request deadline = one reading of the clock +/- a symbolic distance of 1 s .. 2^20 s (in time / expired); distances below 1 s to the boundary are not covered (so that a native replay against the real clock cannot flip)",
        "0 <= min <= max <= 17 (the property's configuration space); filter desire within [min,max] (shown inductive by c10_filter)",
        "poll score strictly inside (-hysteresis, hysteresis) before an update (it is reset to 0 whenever it reaches the band; shown inductive by c10_filter)",
        "+-1 ns slack on the timer window absorbs f64 rounding of mul_f64 (part of the claim)",
    ],
    stub_notes=["thread_rng: ghost tape, every 64-bit word arbitrary (the jitter factor is computed by the real rand code from that word)",
                "HashMap::insert on the snapshot publication map: no-op"],
    harnesses=[
        H(NH, "c10", "c10_timer_v4", "NTPv4 poll: exponent on the wire = max(desire, server minimum), within [min, max(cfg max, server minimum)], timer in [1.01, 1.05] x 2^exponent s (+-1 ns)", timeout=600),
        H(NH, "c10", "c10_timer_upgrade", "same, NTPv4 source that is asking for the NTPv5 upgrade", timeout=600),
        H(NH, "c10", "c10_timer_server_requested", "NTPv4 source (the minimum is set through a hook; NTPv5 request path: see outside) with a server-requested minimum 2^18..2^127 s (the range only an NTPv5 server can ask for): exponent = the request, timer not earlier than 1.01 x min(interval, 2^31 s)", timeout=600),
        H(NH, "c10", "c10_filter", "one clock-filter update keeps the desired interval within [min,max] and moves it by at most one step (or back to min); poll score stays inside the hysteresis band", timeout=600),
        H(NH, "c10", "c10_incoming_v4", "one NTPv4 datagram (48-byte header, all bytes symbolic except byte 0) against a plain NTPv4 source with a request in flight: the server-requested minimum never falls, "
          "rises by at most one step (RATE kiss) and never beyond the configured maximum (NTPv4 has no field to ask for an interval)", timeout=600),
        H(NH, "c10", "c10_server_req", "NTPv5 response (hdr+draft id, all header bytes symbolic except leap/version/mode/flags): server-requested minimum becomes max(old, requested); never lowered by any datagram", timeout=600),
    ],
)
