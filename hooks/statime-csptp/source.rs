//! Safe-Rust verification hooks for this module (accessors/wrappers only; no logic).
#![allow(missing_docs, unused_imports, dead_code)]
use super::*;

// ---- statime_h (C44): private timestamp arithmetic and the response collection loop
pub fn add_correction_hook(ts: Timestamp, correction: TimeInterval) -> Timestamp {
    add_correction(ts, correction)
}
pub fn convert_to_ntp_hook(ts: Timestamp) -> NtpTimestamp {
    convert_to_ntp(ts)
}
/// Opaque wrapper around the private `CsptpRawMeasurement` with field getters.
pub struct RawMeasurement(CsptpRawMeasurement);
impl RawMeasurement {
    pub fn request_send_time(&self) -> Timestamp {
        self.0.request_send_time
    }
    pub fn request_recv_time(&self) -> Timestamp {
        self.0.request_recv_time
    }
    pub fn response_send_time(&self) -> Timestamp {
        self.0.response_send_time
    }
    pub fn response_recv_time(&self) -> Timestamp {
        self.0.response_recv_time
    }
    pub fn request_correction(&self) -> TimeInterval {
        self.0.request_correction
    }
    pub fn response_correction(&self) -> TimeInterval {
        self.0.response_correction
    }
    pub fn leap_indication(&self) -> NtpLeapIndicator {
        self.0.leap_indication
    }
    pub fn has_status(&self) -> bool {
        self.0.status.is_some()
    }
}
/// Calls the private `CsptpSource::collect_response`.
pub async fn collect_response_hook<Mutex: StateMutex, Controller: SourceController>(
    source: &mut CsptpSource<'_, Mutex, Controller>,
    socket: impl ClientSocket,
    request_id: u16,
    send_timestamp: Timestamp,
) -> RawMeasurement {
    RawMeasurement(source.collect_response(socket, request_id, send_timestamp).await)
}
