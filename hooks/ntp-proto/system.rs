//! Safe-Rust verification hooks for this module (accessors/wrappers only; no logic).
#![allow(unused_imports, dead_code)]
use super::*;

/// nameable alias of `TimeSnapshot::root_dispersion` for `#[kani::stub]`
pub use super::TimeSnapshot;
pub fn root_dispersion_fn(s: &TimeSnapshot, now: NtpTimestamp) -> NtpDuration {
    s.root_dispersion(now)
}

// ---------------------------------------------------------------- C33 manager identity (lead)
/// the id the daemon advertises (goes into the Bloom filter it publishes)
pub fn manager_server_id(m: &NtpManager) -> ServerId {
    m.server_id
}
/// the id the sources created by this manager test Bloom filters against
pub fn manager_source_info_server_id(m: &NtpManager) -> ServerId {
    m.source_info.read().unwrap().server_id
}
pub fn manager_source_info_local_stratum(m: &NtpManager) -> u8 {
    m.source_info.read().unwrap().local_stratum
}
