//! Harnesses for property C26 (server cookies: round trip, rotation window, tamper evidence).
//! Code under test: `KeySet::{encode_cookie, decode_cookie}`, `KeySetProvider::rotate`.
//! The AES-SIV primitive of the cookie keys is the ideal-AEAD model of `common.rs`.
use crate::common::*;
use crate::stubs;
use std::sync::Arc;

// ------------------------------------------------------------------ round trip
crate::ks_harness! {
    #[kani::unwind(66)]
    fn c26_roundtrip_256() {
        symbolic_aead(MODE_EXPECT_OK);
        let kk: [u8; 64] = kani::any();
        let off: u32 = kani::any();
        let s2c: [u8; 32] = kani::any();
        let c2s: [u8; 32] = kani::any();
        let ks = kh::keyset_from_parts(vec![key512(kk)], off, 0);
        let c = cookie256(s2c, c2s);
        let enc = kh::keyset_encode_cookie(&ks, &c);
        match kh::keyset_decode_cookie(&ks, &enc) {
            Ok(d) => {
                let same = same_cookie(&d, 15, &s2c, &c2s);
                std::mem::forget(d);
                assert!(same, "decode(encode(x)) gives back algorithm and both keys (AES-SIV-CMAC-256)");
                kani::cover!(s2c[0] != c2s[0] && off == u32::MAX, "cookie decoded (id offset at the wrap point)");
            }
            Err(_) => assert!(false, "a cookie just issued must decode"),
        }
        std::mem::forget(c);
        std::mem::forget(ks);
    }
}

crate::ks_harness! {
    #[kani::unwind(66)]
    fn c26_roundtrip_512() {
        symbolic_aead(MODE_EXPECT_OK);
        let kk: [u8; 64] = kani::any();
        let off: u32 = kani::any();
        let s2c: [u8; 64] = kani::any();
        let c2s: [u8; 64] = kani::any();
        let ks = kh::keyset_from_parts(vec![key512(kk)], off, 0);
        let c = cookie512(s2c, c2s);
        let enc = kh::keyset_encode_cookie(&ks, &c);
        match kh::keyset_decode_cookie(&ks, &enc) {
            Ok(d) => {
                let same = same_cookie(&d, 17, &s2c, &c2s);
                std::mem::forget(d);
                assert!(same, "decode(encode(x)) gives back algorithm and both keys (AES-SIV-CMAC-512)");
                kani::cover!(s2c[63] != c2s[63], "cookie decoded");
            }
            Err(_) => assert!(false, "a cookie just issued must decode"),
        }
        std::mem::forget(c);
        std::mem::forget(ks);
    }
}

/// `KeySetProvider::new(h)`: one fresh key, id offset 0, primary 0, history h.
crate::ks_harness_spec! {
    #[kani::unwind(10)]
    fn c26_new() {
        let keys = symbolic_keys(1);
        let h: usize = kani::any();
        let p = KeySetProvider::new(h);
        let ks = p.get();
        assert!(kh::keyset_len(&ks) == 1 && kh::keyset_primary(&ks) == 0 && kh::keyset_id_offset(&ks) == 0, "fresh provider: one key, primary 0, id offset 0");
        assert!(kh::provider_history(&p) == h, "configured history kept");
        if model_active() {
            assert!(eq64(kh::keyset_key_bytes(&ks, 0), &keys[0]), "the key is the one drawn from the random source");
        }
        kani::cover!(h == 0, "history 0");
        std::mem::forget(ks);
        std::mem::forget(p);
    }
}

// ------------------------------------------------------------------ rotation window
/// Largest number of rotations explored.
const R: usize = 5;

/// `KeySetProvider` with `h` stale keys and an arbitrary id offset; `r <= R` rotations; the key set
/// published after each rotation is kept (that is what the daemon hands to its tasks:
/// `Arc<KeySet>` snapshots). A cookie issued under snapshot `i` (symbolic) is decoded under
/// snapshot `j` (symbolic): it must give back the same contents iff `i <= j <= i + h`.
/// `sparse`: keys and session keys have few symbolic bytes (quick tier).
fn rotate_body(h: usize, r: usize, sparse: bool) {
    symbolic_aead(MODE_EXPECT_OK);
    let keys = if sparse { sparse_keys(r + 1) } else { symbolic_keys(r + 1) };
    let off: u32 = kani::any();
    let i: usize = kani::any();
    let j: usize = kani::any();
    kani::assume(i <= r && j <= r);
    let (s2c, c2s) = if sparse {
        let a: [u8; 2] = kani::any();
        let mut x = [3u8; 32];
        let mut y = [4u8; 32];
        x[0] = a[0];
        y[31] = a[1];
        (x, y)
    } else {
        let x: [u8; 32] = kani::any();
        let y: [u8; 32] = kani::any();
        (x, y)
    };

    // key 0 comes from the (stubbed) random source like every later key
    let first = AesSivCmac512::new_random();
    let mut provider = kh::provider_from_parts(kh::keyset_from_parts(vec![first], off, 0), h);
    let mut snaps: [Option<Arc<KeySet>>; R + 1] = [None, None, None, None, None, None];
    let mut n = 0;
    while n <= r {
        if n > 0 {
            provider.rotate();
        }
        snaps[n] = Some(provider.get());
        n += 1;
    }

    let c = cookie256(s2c, c2s);
    let ks_i: &KeySet = snaps[i].as_ref().unwrap();
    let enc = kh::keyset_encode_cookie(ks_i, &c);

    // "New cookies are always issued under the newest key": the key the model saw is the one
    // produced by the i-th draw of the random source (ghost check, model only).
    if model_active() {
        let used = unsafe { LOG[0].key };
        assert!(eq_prefix(&used, &keys[i], 64), "cookie issued under the newest key");
    }
    // ... and its id is (id of the first key) + i, modulo 2^32
    let id = u32::from_be_bytes([enc[0], enc[1], enc[2], enc[3]]);
    assert!(id == off.wrapping_add(i as u32), "key ids advance by one per rotation, wrapping");

    let ks_j: &KeySet = snaps[j].as_ref().unwrap();
    let dec = kh::keyset_decode_cookie(ks_j, &enc);
    let in_window = j >= i && j - i <= h;
    match dec {
        Ok(d) => {
            let same = same_cookie(&d, 15, &s2c, &c2s);
            std::mem::forget(d);
            assert!(in_window, "a cookie whose key was rotated out (or not yet created) must not decode");
            assert!(same, "inside the window the cookie decodes to the same algorithm and keys");
            kani::cover!(j == i + h, "decoded at the last rotation of its window");
            kani::cover!(i > 0 && id < off, "decoded across the u32 wrap of the key id");
        }
        Err(_) => {
            assert!(!in_window, "a cookie inside the window must decode");
            kani::cover!(j == i + h + 1, "rejected right after its window");
            kani::cover!(j < i, "rejected: issued under a key this set does not have yet");
        }
    }
    std::mem::forget(c);
    std::mem::forget(snaps);
    std::mem::forget(provider);
}

macro_rules! rotate_harness {
    ($name:ident, $h:expr, $r:expr, $sparse:expr) => {
        crate::ks_harness_spec! {
            #[kani::unwind(66)]
            fn $name() { rotate_body($h, $r, $sparse) }
        }
    };
}
/// Straight-line life of one cookie (quick tier; all pointers concrete): rotate `i` times, issue a
/// cookie, then present it to the current key set before and after each of `h + 1` further
/// rotations. It must decode (same contents) while at most `h` rotations have happened since it
/// was issued and be rejected after rotation `h + 1`; the key set from before it was issued
/// rejects it as well.
fn window_body(h: usize, i: usize) {
    symbolic_aead(MODE_EXPECT_OK);
    let keys = symbolic_keys(i + h + 2);
    let off: u32 = kani::any();
    let s2c: [u8; 32] = kani::any();
    let c2s: [u8; 32] = kani::any();
    let first = AesSivCmac512::new_random();
    let mut provider = kh::provider_from_parts(kh::keyset_from_parts(vec![first], off, 0), h);
    let mut before: Option<Arc<KeySet>> = None;
    let mut n = 0;
    while n < i {
        before = Some(provider.get());
        provider.rotate();
        n += 1;
    }
    let c = cookie256(s2c, c2s);
    let issued_under = provider.get();
    let enc = kh::keyset_encode_cookie(&issued_under, &c);
    if model_active() {
        let used = unsafe { LOG[0].key };
        assert!(eq_prefix(&used, &keys[i], 64), "cookie issued under the newest key");
    }
    let id = u32::from_be_bytes([enc[0], enc[1], enc[2], enc[3]]);
    assert!(id == off.wrapping_add(i as u32), "key ids advance by one per rotation, wrapping");
    kani::cover!(i > 0 && id < off, "key id wrapped around u32");

    if let Some(old) = &before {
        let dec = kh::keyset_decode_cookie(old, &enc);
        let failed = dec.is_err();
        std::mem::forget(dec);
        assert!(failed, "a key set that does not have the issuing key yet rejects the cookie");
    }
    let mut d = 0;
    while d <= h + 1 {
        if d > 0 {
            provider.rotate();
        }
        let now = provider.get();
        match kh::keyset_decode_cookie(&now, &enc) {
            Ok(dc) => {
                let same = same_cookie(&dc, 15, &s2c, &c2s);
                std::mem::forget(dc);
                assert!(d <= h, "the cookie must be rejected once its key was rotated out");
                assert!(same, "inside the window the cookie decodes to the same algorithm and keys");
                kani::cover!(d == h, "decoded at the last rotation of its window");
            }
            Err(_) => {
                assert!(d > h, "the cookie must decode while its key is among the newest h + 1");
                kani::cover!(d == h + 1, "rejected right after its window");
            }
        }
        std::mem::forget(now);
        d += 1;
    }
    std::mem::forget(c);
    std::mem::forget(before);
    std::mem::forget(issued_under);
    std::mem::forget(provider);
}

macro_rules! window_harness {
    ($name:ident, $h:expr, $i:expr) => {
        crate::ks_harness_spec! {
            #[kani::unwind(66)]
            fn $name() { window_body($h, $i) }
        }
    };
}
window_harness!(c26_window_h0, 0, 1);
window_harness!(c26_window_h1, 1, 1);
window_harness!(c26_window_h2, 2, 1);
window_harness!(c26_window_h3, 3, 1);

// thorough tier: 5 rotations, fully symbolic key material
rotate_harness!(c26_rotate_h0, 0, 5, false);
rotate_harness!(c26_rotate_h1, 1, 5, false);
rotate_harness!(c26_rotate_h2, 2, 5, false);
rotate_harness!(c26_rotate_h3, 3, 5, false);

/// Rotation of a provider that holds MORE than history + 1 keys (what `KeySetProvider::load(file,
/// smaller_history)` produces after the operator lowered the stale-key count): `n` keys with ids
/// off..off+n-1 (arbitrary u32 offset), primary n-1, history `h < n-1`. One rotation drops
/// `n - h` keys at once. A cookie issued beforehand under key `p` (symbolic; the issuing view has
/// the same keys/ids with primary = p) must decode afterwards to the same contents iff key `p` is
/// among the `h` retained ones; ids of retained keys do not move; the new key gets the next id.
fn shrunk_body(n: usize, h: usize) {
    symbolic_aead(MODE_EXPECT_OK);
    let keys = symbolic_keys(n + 1); // keys[0] = the key rotate() will draw, keys[1..=n] = stored keys
    let off: u32 = kani::any();
    let p: u32 = kani::any();
    kani::assume((p as usize) < n);
    let s2c: [u8; 32] = kani::any();
    let c2s: [u8; 32] = kani::any();
    let mk = |primary: u32| {
        let mut v = Vec::with_capacity(n);
        let mut k = 1;
        while k <= n {
            v.push(key512(keys[k]));
            k += 1;
        }
        kh::keyset_from_parts(v, off, primary)
    };
    let issuer = mk(p);
    let mut provider = kh::provider_from_parts(mk(n as u32 - 1), h);
    let c = cookie256(s2c, c2s);
    let enc = kh::keyset_encode_cookie(&issuer, &c);
    let id = u32::from_be_bytes([enc[0], enc[1], enc[2], enc[3]]);
    assert!(id == off.wrapping_add(p), "cookie carries the id of the key it was issued under");

    provider.rotate();
    let now = provider.get();
    let kept = if h < n { h } else { n };
    let dropped = n - kept;
    // shape of the rotated set
    assert!(kh::keyset_len(&now) == kept + 1, "history old keys + the new one are kept");
    assert!(kh::keyset_primary(&now) as usize == kept, "the new key is primary");
    let new_primary_id = kh::keyset_id_offset(&now).wrapping_add(kh::keyset_primary(&now));
    assert!(new_primary_id == off.wrapping_add(n as u32), "new primary id = old primary id + 1 (mod 2^32)");
    if model_active() {
        assert!(eq64(kh::keyset_key_bytes(&now, kept), &keys[0]), "the primary is the freshly drawn key");
    }
    let mut k = 0;
    while k < kept {
        assert!(eq64(kh::keyset_key_bytes(&now, k), &keys[1 + dropped + k]), "the newest `history` old keys are retained in order");
        k += 1;
    }
    // behaviour: the old cookie
    let retained = (p as usize) >= dropped;
    let (ok, same) = match kh::keyset_decode_cookie(&now, &enc) {
        Ok(d) => {
            let same = same_cookie(&d, 15, &s2c, &c2s);
            std::mem::forget(d);
            (true, same)
        }
        Err(_) => (false, false),
    };
    assert!(ok || !retained, "a cookie of a retained key (inside the configured window) must decode");
    assert!(!ok || retained, "a cookie of a dropped key must not decode");
    assert!(!ok || same, "a cookie of a retained key decodes to the same algorithm and keys");
    // witnesses (phrased so that they exist for every (n, h), also h = 0 where nothing is retained)
    kani::cover!(p as usize == n - 1 && ok == (h >= 1), "cookie of the previous primary: decodes iff history >= 1");
    kani::cover!(p as usize + 1 == dropped && !ok, "cookie of the newest dropped key rejected");
    kani::cover!(p == 0 && !ok, "cookie of the oldest key rejected");
    kani::cover!(p as usize == n - 1 && new_primary_id < id, "key ids wrap around u32 between the old and the new primary");
    std::mem::forget(c);
    std::mem::forget(issuer);
    std::mem::forget(now);
    std::mem::forget(provider);
}

macro_rules! shrunk_harness {
    ($name:ident, $n:expr, $h:expr) => {
        crate::ks_harness_spec! {
            #[kani::unwind(66)]
            fn $name() { shrunk_body($n, $h) }
        }
    };
}
shrunk_harness!(c26_rotate_shrunk, 4, 1); // quick: 3 keys dropped at once, previous primary kept
shrunk_harness!(c26_rotate_shrunk_n3h0, 3, 0); // quick: everything old dropped
shrunk_harness!(c26_rotate_shrunk_n4h2, 4, 2);
shrunk_harness!(c26_rotate_shrunk_n4h0, 4, 0);
shrunk_harness!(c26_rotate_shrunk_n3h1, 3, 1);
shrunk_harness!(c26_rotate_shrunk_n2h0, 2, 0);

// ------------------------------------------------------------------ tamper evidence
/// Two valid keys (ids off, off+1), cookie issued under the newer one, one byte inside the
/// declared length XORed with a non-zero mask: decode must fail.
fn tamper_body(alg512: bool) {
    symbolic_aead(MODE_EXPECT_ERR);
    let keys = symbolic_keys(2);
    let off: u32 = kani::any();
    let pos: usize = kani::any();
    let mask: u8 = kani::any();
    kani::assume(mask != 0);
    let s2c: [u8; 64] = kani::any();
    let c2s: [u8; 64] = kani::any();
    let ks = kh::keyset_from_parts(vec![key512(keys[0]), key512(keys[1])], off, 1);
    let c = if alg512 {
        cookie512(s2c, c2s)
    } else {
        let mut a = [0u8; 32];
        let mut b = [0u8; 32];
        a.copy_from_slice(&s2c[..32]);
        b.copy_from_slice(&c2s[..32]);
        cookie256(a, b)
    };
    let mut enc = kh::keyset_encode_cookie(&ks, &c);
    // declared length = 4 (key id) + 2 (length field) + 16 (nonce) + value of the length field
    let declared = 6 + 16 + u16::from_be_bytes([enc[4], enc[5]]) as usize;
    assert!(declared == enc.len(), "encoder emits exactly the declared length");
    kani::assume(pos < declared);
    enc[pos] ^= mask;
    let dec = kh::keyset_decode_cookie(&ks, &enc);
    let failed = dec.is_err();
    std::mem::forget(dec);
    assert!(failed, "a cookie modified inside its declared length must not decode");
    let new_id = u32::from_be_bytes([enc[0], enc[1], enc[2], enc[3]]);
    kani::cover!(pos < 4 && new_id == off, "key id changed to the other valid key (id offset, the older key)");
    kani::cover!(pos < 4 && new_id != off, "key id changed to an unknown id");
    kani::cover!(pos == 5, "length field changed");
    kani::cover!(pos >= 6 && pos < 22, "nonce changed");
    kani::cover!(pos >= 22 && pos < declared - 16, "ciphertext body changed");
    kani::cover!(pos >= declared - 16, "tag changed");
    std::mem::forget(c);
    std::mem::forget(ks);
}

crate::ks_harness! {
    #[kani::unwind(66)]
    fn c26_tamper() { tamper_body(false) }
}
crate::ks_harness! {
    #[kani::unwind(66)]
    fn c26_tamper_512() { tamper_body(true) }
}

/// A well-formed cookie whose key id is outside the current window never decodes.
crate::ks_harness! {
    #[kani::unwind(66)]
    fn c26_unknown_id() {
        symbolic_aead(MODE_EXPECT_ERR);
        let keys = symbolic_keys(2);
        let off: u32 = kani::any();
        let id: u32 = kani::any();
        let s2c: [u8; 32] = kani::any();
        let c2s: [u8; 32] = kani::any();
        let ks = kh::keyset_from_parts(vec![key512(keys[0]), key512(keys[1])], off, 1);
        // valid ids are off and off+1 (mod 2^32)
        kani::assume(id != off && id != off.wrapping_add(1));
        let c = cookie256(s2c, c2s);
        let mut enc = kh::keyset_encode_cookie(&ks, &c);
        enc[0..4].copy_from_slice(&id.to_be_bytes());
        let dec = kh::keyset_decode_cookie(&ks, &enc);
        let failed = dec.is_err();
        std::mem::forget(dec);
        assert!(failed, "unknown key id must not decode");
        assert!(unsafe { DECRYPT_CALLS } == 0 || !model_active(), "no key is even tried for an unknown id");
        kani::cover!(id < off, "id below the window (wraps to a huge index)");
        kani::cover!(id > off.wrapping_add(1) && off == u32::MAX, "window straddles the u32 wrap");
        std::mem::forget(c);
        std::mem::forget(ks);
    }
}

/// A cookie issued by a different key set (same ids, different key material) never decodes.
crate::ks_harness! {
    #[kani::unwind(66)]
    fn c26_foreign_key() {
        symbolic_aead(MODE_EXPECT_ERR);
        let keys = symbolic_keys(2);
        let off: u32 = kani::any();
        let s2c: [u8; 32] = kani::any();
        let c2s: [u8; 32] = kani::any();
        let ours = kh::keyset_from_parts(vec![key512(keys[0])], off, 0);
        let theirs = kh::keyset_from_parts(vec![key512(keys[1])], off, 0);
        let c = cookie256(s2c, c2s);
        let enc = kh::keyset_encode_cookie(&theirs, &c);
        let dec = kh::keyset_decode_cookie(&ours, &enc);
        let failed = dec.is_err();
        std::mem::forget(dec);
        assert!(failed, "a cookie made with other key material must not decode");
        kani::cover!(unsafe { DECRYPT_CALLS } == 1, "the key with the matching id was tried and rejected it");
        std::mem::forget(c);
        std::mem::forget(ours);
        std::mem::forget(theirs);
    }
}

/// Arbitrary input of up to 40 bytes (symbolic length): never a panic, never a cookie. The log
/// holds one genuine cookie so that pieces of it may be replayed.
crate::ks_harness! {
    #[kani::unwind(66)]
    fn c26_short() {
        symbolic_aead(MODE_EXPECT_ERR);
        let kk: [u8; 64] = kani::any();
        let off: u32 = kani::any();
        let buf: [u8; 40] = kani::any();
        let n: usize = kani::any();
        kani::assume(n <= 40);
        let ks = kh::keyset_from_parts(vec![key512(kk)], off, 0);
        let c = cookie256([1; 32], [2; 32]);
        let genuine = kh::keyset_encode_cookie(&ks, &c);
        let dec = kh::keyset_decode_cookie(&ks, &buf[..n]);
        let failed = dec.is_err();
        std::mem::forget(dec);
        assert!(failed, "40 bytes cannot hold a cookie");
        kani::cover!(n < 22, "shorter than id + length + nonce");
        kani::cover!(n == 40 && unsafe { DECRYPT_CALLS } == 1, "well-formed framing reaches the key and is rejected");
        kani::cover!(n == 40 && buf[4] == 0xff, "declared length longer than the input");
        std::mem::forget(c);
        std::mem::forget(ks);
    }
}

// ------------------------------------------------------------------ key-from-bytes specification
/// `AesSivCmac256::try_from(bytes)` == `siv256_try_from_spec(bytes)` for every length <= 40.
crate::ks_harness! {
    #[kani::unwind(66)]
    fn c26_key_try_from_256() {
        let buf: [u8; 40] = kani::any();
        let n: usize = kani::any();
        kani::assume(n <= 40);
        let real = AesSivCmac256::try_from(&buf[..n]);
        match real {
            Ok(k) => {
                let kb = k.key_bytes();
                let same = (kb.len() == 32) & eq_prefix(kb, &buf, 32);
                std::mem::forget(k);
                assert!(n == 32, "a key is produced only from exactly 32 bytes");
                assert!(same, "the key bytes are the input bytes");
                kani::cover!(buf[0] != buf[31], "key accepted");
            }
            Err(_) => {
                assert!(n != 32, "32 bytes are always accepted");
                kani::cover!(n == 31, "one byte short rejected");
                kani::cover!(n == 33, "one byte long rejected");
            }
        }
    }
}

/// `AesSivCmac512::try_from(bytes)` == `siv512_try_from_spec(bytes)` for every slice length <= 72
/// and for the `[u8; 64]` instantiation used by `KeySetProvider::load`.
crate::ks_harness! {
    #[kani::unwind(74)]
    fn c26_key_try_from_512() {
        let buf: [u8; 72] = kani::any();
        let arr: [u8; 64] = kani::any();
        let n: usize = kani::any();
        kani::assume(n <= 72);
        match AesSivCmac512::try_from(&buf[..n]) {
            Ok(k) => {
                let kb = k.key_bytes();
                let same = (kb.len() == 64) & eq_prefix(kb, &buf, 64);
                std::mem::forget(k);
                assert!(n == 64, "a key is produced only from exactly 64 bytes");
                assert!(same, "the key bytes are the input bytes");
                kani::cover!(buf[0] != buf[63], "key accepted");
            }
            Err(_) => {
                assert!(n != 64, "64 bytes are always accepted");
                kani::cover!(n == 63, "one byte short rejected");
                kani::cover!(n == 65, "one byte long rejected");
            }
        }
        match AesSivCmac512::try_from(arr) {
            Ok(k) => {
                let kb = k.key_bytes();
                let same = (kb.len() == 64) & eq_prefix(kb, &arr, 64);
                std::mem::forget(k);
                assert!(same, "the key bytes are the array");
            }
            Err(_) => assert!(false, "a 64-byte array is always accepted"),
        }
    }
}
