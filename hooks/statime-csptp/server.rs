//! Safe-Rust verification hooks for this module (accessors/wrappers only; no logic).
#![allow(missing_docs, unused_imports, dead_code)]
use super::*;

// ---- statime_h (C45): the private per-datagram handler
pub async fn handle_packet_hook<S: ServerSocket>(
    socket: &mut S,
    manager: &CsptpManager<impl StateMutex>,
    packet: &[u8],
    remote: S::Addr,
    local: S::Addr,
    timestamp: Timestamp,
) {
    handle_packet(socket, manager, packet, remote, local, timestamp).await
}
