ST = "statime_h"
PROP = dict(
    functions=[
        "statime_algo::KalmanController::<NoAllocKalmanStorage<RecClock,4|16>,RecClock>::{new,add_clock,clock_offset,clock_frequency}",
        "statime_algo::KalmanControllerState::steer_clocks (private, via hook wrapper)",
        "statime_algo::filter::LinkFilter::{progress_time,leap_vote,local_root_delay,find_external_consensus_window,clock_offset,clock_frequency,absorb_frequency_steer,absorb_offset_change,absorb_system_clock_offset_change}",
        "statime_algo::estimator::EstimatorState::{clock_offset,clock_frequency,absorb_*,progress_time(dt=0)}, statime_base::Duration::{from_f64_seconds,as_seconds}",
    ],
    bounds="c43_query: one clock, offset and frequency estimates arbitrary f64 bit patterns, variances from {4,9}, any clock id for the unknown-clock case; "
           "c43_steer (thorough tier): system clock, no links, zero time step; all estimates finite f64 with |offset| < 4.6e18 s, variances 1e-6 s^2 (concrete), clock's current frequency finite, maximum frequency finite >= 0 (all symbolic)",
    outside="a second steered clock (harness c43_steer_2 exists, not run to completion); symbolic variances (the code takes sqrt(variance): two symbolic square roots did not finish in 20 min), so the slew/step decision threshold is fixed at 5 ms; steering after a measurement/time progression (matrix arithmetic on symbolic f64), links present (leap vote / root delay selection), clocks returning errors, NaN/infinite estimates (a NaN estimate makes clamp() return NaN: not a reachable state from finite inputs), "
            "|offset| >= 2^62 s (Duration saturates while the non-system-clock filter entry absorbs the unsaturated value); the control law itself (which frequency is wanted) is not part of the property",
    assumptions=[
        "Clock contract: max_frequency() finite and >= 0, get_frequency() finite; set_frequency/step_clock succeed",
        "pre-state estimates finite, |offset| < 4.6e18 s, variances = 1e-6",
    ],
    stub_notes=["no stubs; Clock implemented by the harness (records set_frequency/step_clock arguments in ghost statics)"],
    harnesses=[
        H(ST, "c43", "c43_query", "clock_offset reports the offset estimate + its standard deviation, clock_frequency the frequency estimate + its standard deviation (independent symbolic estimates); unknown clock -> Err"),
        H(ST, "c43", "c43_steer", "system clock only: every set_frequency(x) has |x| <= max of that clock; frequency estimate changes by exactly fl(x - current); a step changes the offset estimate by the applied Duration (<= 2^-64 s + one rounding), system clock step moves filter time; other entries bit-identical (350-480 s on a loaded machine)", tier="thorough", timeout_thorough=1800),
        H(ST, "c43", "c43_query_distinct", "regression harness for 7d1f9fc: with offset and frequency estimates that differ in value or variance the frequency query returns the frequency entry and its sd (fails on the pre-fix tree, replayed natively)", timeout=900),
        H("statime_h", "c42", "c42_ops_b", "the estimator index bookkeeping the controller's queries and steering rely on: removing a link in front of a clock keeps that clock's rows (shared with C42)", timeout=1200, timeout_thorough=1800, native_check="native::native_remove_link_keeps_later_clocks"),
],
)
