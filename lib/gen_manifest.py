#!/usr/bin/env python3
"""Regenerate /verif/MANIFEST.json from the registry (keeps it valid at all times)."""
import json, subprocess, sys
sys.path.insert(0, "/verif/lib")
import registry

props = [json.loads(l) for l in open("/verif/properties.jsonl")]
ids = [p["id"] for p in props]
hook_commits = subprocess.run(["git", "-C", "/repo", "log", "--format=%H %s", "--grep=^verif hooks"],
                              stdout=subprocess.PIPE, text=True).stdout.strip().splitlines()
checks = []
for pid in ids:
    if pid not in registry.PROPS:
        continue
    P = registry.PROPS[pid]
    checks.append({
        "property_id": pid,
        "quick_cmd": "./check %s --tier quick" % pid,
        "thorough_cmd": "./check %s --tier thorough" % pid,
        "evidence_file": "/verif/evidence/%s.json" % pid,
        "replay_cmd_template": "./check %s --replay {path}" % pid,
        "engine": "kani",
        "level_claimed": {
            "category": "model_checking",
            "text": P.get("level_text", "Bounded symbolic execution of the compiled Rust code (Kani/CBMC): every assertion is decided by the SAT solver for all values of the symbolic inputs within the stated bounds; counterexamples are replayed natively against /repo before being reported."),
            "design_ref": "DESIGN.md section 3, %s" % pid,
        },
        "level_note": P.get("level_note", "") or ("Bounds: %s. Outside the claim: %s. Trusted: Kani/CBMC/CaDiCaL, rustc MIR semantics as modelled by Kani, stubs listed in the evidence." % (P.get("bounds", ""), P.get("outside", "nothing stated"))),
        "technique": P.get("technique", "solver-based bounded model checking of the real code (Kani 0.68 / CBMC 6.11 + CaDiCaL) with native replay of counterexamples"
                           + ("; plus syntactic source extractors (" + ", ".join(P["extractors"]) + ") reported as side conditions" if P.get("extractors") else "")
                           + ("; the listed known finding is re-demonstrated by a native program (its region is intractable for the solver)" if pid in ("C17", "C24") else "")),
    })
na = []
for pid in ids:
    if pid in registry.PROPS:
        continue
    na.append({"property_id": pid, "reason": registry.NOT_APPLICABLE.get(pid, "no check registered yet in this snapshot of /verif (work in progress); not claimed")})
man = {
    "version": 1,
    "setup_cmd": "./setup",
    "hooks": {
        "guard": "cargo feature pendulum_project_ntpd_rs_verif (per touched crate)",
        "enable": "harness crates under /verif/harness depend on /repo/<crate> by path with features=[\"pendulum_project_ntpd_rs_verif\"]; hook modules are #[path]-included from /verif/hooks",
        "baseline_off_cmd": "cd /repo && cargo test --workspace --no-fail-fast --offline",
        "source_commits": [l.split()[0] for l in hook_commits],
        "add_only": True,
    },
    "engines": [
        {"name": "kani", "path": "/verif/check", "serves_properties": [c["property_id"] for c in checks],
         "kind_free_text": "Kani 0.68.0 (CBMC 6.11.0, CaDiCaL) bounded model checker over the compiled MIR of /repo; driver /verif/check, harness crates /verif/harness/*"},
    ],
    "checks": checks,
    "not_applicable": na,
    "notes": "All checks: exit 0 held / exit 1 VIOLATION (replayed natively) / exit 2 inconclusive (never success). See DESIGN.md.",
}
json.dump(man, open("/verif/MANIFEST.json", "w"), indent=1)
print("checks:", len(checks), "not_applicable:", len(na))
