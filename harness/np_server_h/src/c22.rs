//! Harnesses for property C22 (see /verif/properties.jsonl).
use crate::stubs;
