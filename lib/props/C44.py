ST = "statime_h"
PROP = dict(
    functions=[
        "statime_csptp::source::add_correction (private, via hook wrapper)",
        "statime_csptp::source::convert_to_ntp (private, via hook wrapper)",
        "statime_csptp::source::CsptpSource::<RefCell<InternalState>, NullCtl>::collect_response (private async fn, via hook wrapper; polled with Waker::noop over a scripted in-memory ClientSocket)",
        "statime_csptp::messages::CsptpMessage::deserialize, CsptpResponseTlv::try_from, statime_wire::Message::deserialize, TlvSet iteration (reached from collect_response)",
    ],
    bounds="add_correction: every 48-bit seconds / nanos < 1e9 timestamp, corrections |c>>16| < 2^32 ns (quick) and < 2^40 ns = 18 min (thorough, c44_corr_40); convert_to_ntp: every valid wire timestamp; "
           "collect_response: scripts of 2 (quick: S F, F S) / 3 (thorough: S S F, F F S, S R F, F S F) datagrams per request, each datagram one of the templates {Sync + CSPTP response TLV (66 bytes), Follow_Up (44 bytes), Sync + CSPTP request TLV (52 bytes)} with concrete first octet (sdoId high nibble 3 + messageType), messageLength and TLV type+length fields and every other byte symbolic "
           "(domain, sequence id, flags incl. two-step, sdoId low byte, version byte, correction fields, timestamps), per datagram a symbolic receive timestamp (present/absent) and a symbolic socket error; symbolic request domain, sequence id and send timestamp",
    outside="add_correction in-range proof for |correction| >= 2^40 ns (solver time x1.7 per bit: 3 s at 2^32, 230 s at 2^40; the finding harness needs no such proof); convert_to_ntp binary fraction beyond three anchor points (C32 verifies the constructor it calls); CsptpSource::run (poll timer, rng, socket creation, timeout race, the two handle_measurement calls and the status update `steps_removed + 1`, which overflows in the dev profile for steps_removed = 65535); unstructured (non-template) datagrams reach only Message::deserialize, which C41 covers; "
            "more than 3 datagrams per request; timestamps whose nanoseconds field is exactly 10^9 (the wire parser accepts them, Timestamp::new does not: see report)",
    assumptions=[
        "wire timestamps handed to add_correction/convert_to_ntp have nanos < 1e9 (Timestamp::new invariant)",
        "c44_corr: corrected time lies in [0, 2^48 s) (the complement is the finding harness c44_corr_kf_seconds_out_of_range); |correction| < 2^32 ns in the quick harness",
        "template datagrams: nanoseconds fields != 10^9 exactly",
        "the scripted socket delivers each datagram immediately and stays pending when the script is exhausted (the real caller races collect_response against a timeout)",
    ],
    stub_notes=["no stubs: harnesses are plain #[kani::proof]; ClientSocket is implemented by the harness (scripted in-memory socket), SourceController by a no-op"],
    harnesses=[
        H(ST, "c44", "c44_corr", "add_correction = exact integer arithmetic and does not panic when the corrected time is representable (|correction| < 2^32 ns)"),
        H(ST, "c44", "c44_to_ntp", "convert_to_ntp: epoch shift mod 2^32 and exact binary fraction, no panic"),
        H(ST, "c44", "c44_collect_s", "collect_response, script of one Sync(+response TLV): one-step answer used iff well-formed, domain and sequence id match and a receive timestamp exists; otherwise keeps waiting", timeout=600),
        H(ST, "c44", "c44_collect", "collect_response, script Sync(+response TLV), Follow_Up: equals the reference state machine - measurement only from matching domain+sequence id, fields taken from the right datagrams, nothing read after completion", timeout=600),
        H(ST, "c44", "c44_collect_fs", "script Follow_Up, Sync (follow-up first)", timeout=600),
        H(ST, "c44", "c44_corr_40", "add_correction for |correction| < 2^40 ns (18 min)", tier="thorough", timeout_thorough=1800),
        H(ST, "c44", "c44_collect_ssf", "script Sync, Sync, Follow_Up (duplicate sync ignored)", tier="thorough", timeout_thorough=1800),
        H(ST, "c44", "c44_collect_ffs", "script Follow_Up, Follow_Up, Sync (duplicate follow-up ignored)", tier="thorough", timeout_thorough=1800),
        H(ST, "c44", "c44_collect_srf", "script Sync, request-Sync, Follow_Up (foreign request ignored)", tier="thorough", timeout_thorough=1800),
        H(ST, "c44", "c44_collect_fsf", "script Follow_Up, Sync, Follow_Up (completes at the second datagram; third unread)", tier="thorough", timeout_thorough=1800),
        H(ST, "c44", "c44_corr_kf_seconds_out_of_range", "FINDING (expected to fail until fixed): corrected seconds outside [0, 2^48) panic in add_correction"),
    ],
)
