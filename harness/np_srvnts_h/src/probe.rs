//! Probes (not registered): what does CBMC's symex constant-fold?
#[inline(never)]
fn heavy_a(x: &[u8]) -> u32 { let mut s = 0u32; let mut i = 0; while i < x.len() { s += x[i] as u32; i += 1; } s }
#[inline(never)]
fn heavy_b(x: &[u8]) -> u32 { let mut s = 0u32; let mut i = 0; while i < x.len() { s += x[i] as u32; i += 1; } s }
#[inline(never)]
fn heavy_c(x: &[u8]) -> u32 { let mut s = 0u32; let mut i = 0; while i < x.len() { s += x[i] as u32; i += 1; } s }
#[inline(never)]
fn heavy_d(x: &[u8]) -> u32 { let mut s = 0u32; let mut i = 0; while i < x.len() { s += x[i] as u32; i += 1; } s }
#[inline(never)]
fn rd(s: &[u8], o: usize) -> u16 { let [b0, b1, ..] = s[o..] else { return 0 }; u16::from_be_bytes([b0, b1]) }

#[kani::proof]
#[kani::unwind(3)]
fn probe_const() {
    // a: 112-byte any array, element stores, read through slice
    let mut m: [u8; 112] = kani::any();
    m[48] = 1;
    m[49] = 4;
    if rd(&m, 48) != 0x0104 { heavy_a(&m); }
    // b: same after memcpy into a later region
    let u: [u8; 8] = kani::any();
    m[52..60].copy_from_slice(&u);
    if rd(&m, 48) != 0x0104 { heavy_b(&m); }
    // c: 52-byte array
    let mut k: [u8; 52] = kani::any();
    k[0] = 0x23;
    if (k[0] & 0x38) >> 3 != 4 { heavy_c(&k); }
    // d: masked symbolic byte
    let x: u8 = kani::any();
    let b0 = (x & 0xC7) | 0x20;
    if (b0 & 0x38) >> 3 != 4 { heavy_d(&k); }
}

#[kani::proof]
#[kani::unwind(8)]
#[kani::stub(tracing::dispatcher::get_default, crate::stubs::tracing_get_default)]
#[kani::stub(tracing::callsite::DefaultCallsite::register, crate::stubs::tracing_register)]
fn probe_parse() {
    use crate::common::*;
    const LEN: usize = 48 + 12 + 16 + 36 + 4;
    let mut msg: [u8; LEN] = kani::any();
    msg[0] = 0x23;
    put_ef(&mut msg, 48, EF_UID, 12);
    put_ef(&mut msg, 60, 0x0ABC, 16);
    put_ef(&mut msg, 76, EF_UID, 36);
    let r = ntp_proto::NtpPacket::deserialize(&msg, &ntp_proto::NoCipher);
    assert!(r.is_ok());
    std::mem::forget(r);
}
