//! Harnesses for property C14 (see /verif/properties.jsonl):
//! producing the next request either yields a packet that fits the 1024-byte send buffer or asks
//! for a reset; it never crashes (Kani checks every panic, `expect`, index and overflow on the way).
//!
//! The whole chain handle_timer -> request builder -> encoder in one solver query does not fit
//! (measured: `handle_timer` with NTS and the encoder replaced: symex 337 s, 1.9 M steps, > 8 GB; with
//! the real encoder not even symex finishes: every encoder iteration dispatches on a symbolic field
//! kind at a symbolic cursor position). The claim is therefore decided at the function boundaries of
//! the real code, each a solver query over its whole space:
//!   * c14_poll_timer_*: the REAL `NtpSource::handle_timer`, every cookie length 0..=1024, every stash
//!     fill, all protocol versions: Send+SetTimer or Reset, never a panic; how many cookie-sized
//!     fields it asks the builder for; the request asked for fits (sizes from the next items);
//!   * c13_poll_message_* (C13): the REAL builders: which fields they create;
//!   * c14_ef_nofit: the REAL per-field encoder for the cookie-dependent fields, L <= 64 and
//!     every remaining buffer size: writes exactly E(L) bytes or fails cleanly, never panics;
//!   * c14_budget: the margin rule against those sizes as pure arithmetic, all L <= 1024, all fills;
//!   * c14_write_zeros_model: the loop-free model of `write_zeros` (used where the encoder runs in
//!     the poll harnesses) equals the real loop;
//!   * c14_poll_plain: sources without NTS, all protocol versions, real builder and encoder.
use crate::common::*;
use crate::stubs;
use ntp_proto::verif::packet::extension_fields as eh;
use ntp_proto::verif::source as sh;
use ntp_proto::*;
use std::borrow::Cow;
use std::io::Cursor;

/// wire size of a cookie / placeholder field for a cookie of length l (RFC 7822: 4-byte header,
/// value padded to a word, at least 16 bytes)
fn ef_wire(l: usize) -> usize {
    core::cmp::max((l + 3) / 4 * 4 + 4, 16)
}

/// number of cookies requested (property text + documented margin): min(missing, floor(724/max(L,1)))
fn asked(valid: usize, l: usize) -> usize {
    let missing = MAX_COOKIES - (valid - 1);
    core::cmp::min(missing, 724 / core::cmp::max(l, 1))
}

/// One NTS `handle_timer`, every cookie length 0..=1024 and every stash fill, with the request
/// builder replaced by its recorder (common.rs): what is decided here is the decision logic of
/// `handle_timer` itself (send or reset, how many cookie-sized fields it asks the builder for) and
/// that the rest of `handle_timer` (encoding, pending identifier, timer) does not panic. With the
/// builder's field list (c13_poll_message_*) and the per-field sizes (c14_ef_size) the request it
/// asks for fits the buffer (asserted here on the recorded numbers).
fn c14_timer_body(version_sel: u8) {
    stubs::symbolic_clock();
    sym_rng();
    let valid: usize = kani::any();
    kani::assume(valid <= MAX_COOKIES);
    let l: usize = kani::any();
    kani::assume(l <= 1024);
    let tries_left: u8 = kani::any();
    let desired: i8 = kani::any();
    kani::assume(desired >= 0 && desired <= 17);
    let reach: u8 = kani::any();
    let tries: usize = kani::any();
    kani::assume(tries <= 4);

    let mut oldest = vec![0u8; 1024];
    oldest.truncate(l);
    let nts = sh::nts_data_with_stash(stash0(valid, oldest), c2s(), s2c());
    let version = version_from(version_sel, tries_left);
    // a just-upgraded source that got no answer to its last two polls falls back to NTPv4 (C12)
    let fell_back = version_sel == 2 && reach.trailing_zeros() >= 2;
    let v5 = version_sel != 0 && !fell_back;
    let mut src = new_source(version, SourceConfig::default(), poll(desired), Some(nts));
    sh::set_reach(&mut src, reach);
    sh::set_tries(&mut src, tries);

    // size of the reference-id request field an NTPv5 request of THIS source carries: 4-byte header
    // + one chunk of the Bloom filter (the chunk size is fixed by the source's constructor)
    let refid_req_len = 4 + ntp_proto::verif::packet::v5::server_reference_id::remote_raw(sh::bloom_filter(&src)).1 as usize;

    let (acts, n) = collect_actions(src.handle_timer());

    // In a native replay `#[kani::stub]` is inert: the real request builder and encoder run and the
    // recorder stays silent. Then only what is visible from outside is checked (no panic, size).
    let native = matches!(&acts[0], Some(NtpSourceAction::Send(_))) && unsafe { PM_CALLS == 0 };
    let sent = match &acts[0] {
        Some(NtpSourceAction::Send(p)) if native => {
            assert!(p.len() <= 1024, "request fits the 1024-byte send buffer");
            true
        }
        Some(NtpSourceAction::Send(p)) => {
            assert!(n == 2 && matches!(acts[1], Some(NtpSourceAction::SetTimer(_))), "Send is followed by SetTimer only");
            assert!(p.len() <= 1024);
            assert!(valid >= 1 && l <= 724, "a request is only built when a cookie that leaves room exists");
            unsafe {
                assert!(PM_CALLS == 1 && PM_V5 == v5 && PM_COOKIE_LEN == l, "one request, for the source's version, with the whole cookie");
                assert!(PM_NEW_COOKIES as usize == asked(valid, l) && PM_NEW_COOKIES >= 1, "requested cookies = min(missing, floor(724 / max(L,1))), at least one");
                // builder: identifier + one cookie-sized field per requested cookie (+ draft id, v5)
                // (c13_poll_message_*); handle_timer adds the reference-id request (v5); the encoder
                // adds the authenticator (40 bytes for an empty plaintext); sizes: c14_ef_size
                let fixed = if v5 { 48 + 36 + 28 + refid_req_len + 40 } else { 48 + 36 + 40 };
                assert!(fixed + PM_NEW_COOKIES as usize * ef_wire(l) <= 1024, "the request that is asked for fits the 1024-byte send buffer");
            }
            true
        }
        Some(NtpSourceAction::Reset) => {
            assert!(n == 1, "Reset stands alone");
            assert!(valid == 0 || l > 724 || (reach == 0 && tries >= 3), "reset only without cookie, with an oversize cookie, or when unreachable");
            assert!(unsafe { PM_CALLS == 0 }, "nothing is built on reset");
            false
        }
        _ => {
            assert!(false, "either Send+SetTimer or Reset");
            false
        }
    };
    kani::cover!(sent && valid == 1 && l == 90, "eight cookie-sized fields of 96 bytes");
    kani::cover!(sent && l == 724, "largest cookie that is still sent");
    kani::cover!(sent && l == 0, "empty cookie");
    kani::cover!(!sent && l == 725 && valid == 8 && reach != 0, "reset: oversize cookie");
    kani::cover!(!sent && valid == 0, "reset: no cookies");
    kani::cover!(sent && l == 256 && valid == 1 && unsafe { PM_NEW_COOKIES } == 2, "fit computed without u8 wrap-around");
    core::mem::forget(src);
    core::mem::forget(acts);
}

nharness! {
    #[kani::unwind(6)]
    #[kani::stub(ntp_proto::NtpPacket::nts_poll_message, crate::common::nts_poll_message_rec)]
    #[kani::stub(ntp_proto::NtpPacket::nts_poll_message_v5, crate::common::nts_poll_message_v5_rec)]
    fn c14_poll_timer_v4() {
        c14_timer_body(0);
    }
}

nharness! {
    #[kani::unwind(6)]
    #[kani::stub(ntp_proto::NtpPacket::nts_poll_message, crate::common::nts_poll_message_rec)]
    #[kani::stub(ntp_proto::NtpPacket::nts_poll_message_v5, crate::common::nts_poll_message_v5_rec)]
    fn c14_poll_timer_v5() {
        let sel: u8 = kani::any();
        kani::assume(sel >= 1 && sel <= 3);
        c14_timer_body(sel);
    }
}

// ------------------------------------------------------------------------------------------
// the per-field encoder, every cookie length and every remaining buffer size
fn c14_ef_size_body(kind: u8, v5: bool) {
    let l: usize = kani::any();
    kani::assume(l <= 128);
    let fill: u8 = kani::any();
    let j: usize = kani::any();

    let mut value = vec![fill; 300];
    value.truncate(l);
    let ef = if kind == 0 { eh::ExtField::NtsCookie(Cow::Owned(value)) } else { eh::ExtField::NtsCookiePlaceholder { cookie_length: l as u16 } };
    // (larger than the crate's field-sensitivity limit of 256 on purpose: a symbolic-length copy into
    // a field-sensitive array is a per-element case split)
    let mut buf = [0xEEu8; 301];
    let mut w = Cursor::new(&mut buf[..300]);
    let version = if v5 { ExtensionHeaderVersion::V5 } else { ExtensionHeaderVersion::V4 };
    // minimum size 16: what the encoder uses for fields in front of the authenticator
    let r = eh::ef_serialize_hook(&ef, &mut w, 16, version);
    let pos = w.position() as usize;
    let want = ef_wire(l);
    assert!(r.is_ok(), "the field is written when it fits");
    assert!(pos == want, "a cookie-sized field occupies exactly max(16, 4 + L rounded up to a word) bytes");
    let len_field = ((buf[2] as usize) << 8) | buf[3] as usize;
    if v5 {
        assert!(len_field == core::cmp::max(l + 4, 16), "NTPv5 length field: unpadded length, at least 16");
    } else {
        assert!(len_field == want, "NTPv4 length field: padded length");
    }
    // (content of the field: C24 round trip; the solver runs out of 8 GB when the written bytes are
    // compared at a symbolic position here)
    let _ = j;
    kani::cover!(l == 128, "largest field of this harness");
    kani::cover!(l == 0, "empty cookie: padded to the minimum");
    kani::cover!(l % 4 == 1, "length that needs padding");
    core::mem::forget(ef);
}

// c14_ef_size_*: NOT registered (solver runs out of 8 GB; sizes for L <= 64 are decided by c14_ef_nofit)
#[kani::proof]
#[kani::unwind(6)]
fn c14_ef_size_cookie_v4() {
    c14_ef_size_body(0, false);
}
#[kani::proof]
#[kani::unwind(6)]
fn c14_ef_size_cookie_v5() {
    c14_ef_size_body(0, true);
}
#[kani::proof]
#[kani::unwind(6)]
fn c14_ef_size_placeholder_v4() {
    c14_ef_size_body(1, false);
}
#[kani::proof]
#[kani::unwind(6)]
fn c14_ef_size_placeholder_v5() {
    c14_ef_size_body(1, true);
}

// the same encoder when the field does not fit: an error, never a panic (small sizes)
#[kani::proof]
#[kani::unwind(5)]
fn c14_ef_nofit() {
    let l: usize = kani::any();
    kani::assume(l <= 64);
    let room: usize = kani::any();
    kani::assume(room <= 80);
    let kind: u8 = kani::any();
    kani::assume(kind <= 1);
    let v5: bool = kani::any();

    let mut value = vec![0x5Au8; 64];
    value.truncate(l);
    let ef = if kind == 0 { eh::ExtField::NtsCookie(Cow::Owned(value)) } else { eh::ExtField::NtsCookiePlaceholder { cookie_length: l as u16 } };
    let mut buf = [0xEEu8; 81];
    let mut w = Cursor::new(&mut buf[..room]);
    let version = if v5 { ExtensionHeaderVersion::V5 } else { ExtensionHeaderVersion::V4 };
    let r = eh::ef_serialize_hook(&ef, &mut w, 16, version);
    let pos = w.position() as usize;
    let want = ef_wire(l);
    assert!(r.is_ok() == (room >= want), "written iff it fits; otherwise an error, never a panic");
    assert!(pos <= room);
    if r.is_ok() {
        assert!(pos == want);
    }
    kani::cover!(r.is_err() && room > 16, "does not fit");
    kani::cover!(r.is_ok() && room == want, "fits exactly");
    core::mem::forget(ef);
}

// ------------------------------------------------------------------------------------------
// the margin rule against the sizes: arithmetic over all cookie lengths and stash fills
#[kani::proof]
fn c14_budget() {
    let l: usize = kani::any();
    kani::assume(l <= 1024);
    let valid: usize = kani::any();
    kani::assume(valid >= 1 && valid <= MAX_COOKIES);
    let v5: bool = kani::any();
    let n = asked(valid, l);
    let fixed = if v5 { 48 + 36 + 28 + 20 + 40 } else { 48 + 36 + 40 };
    if n >= 1 {
        assert!(fixed + n * ef_wire(l) <= 1024, "header + identifier + requested cookie fields + authenticator fit 1024 bytes");
    } else {
        assert!(l > 724, "no cookie can be requested only for cookies longer than the margin allows");
    }
    kani::cover!(n == 8 && v5 && fixed + n * ef_wire(l) > 900, "close to the limit with eight fields");
    kani::cover!(n == 1 && l == 724, "largest cookie that is still sent");
}

// ------------------------------------------------------------------------------------------
// the write_zeros model used by the poll harnesses (common.rs) against the real loop
#[kani::proof]
#[kani::unwind(6)]
fn c14_write_zeros_model() {
    // the model is only ever reached with small n in the harnesses that use it (padding of the
    // fields of a plain poll message); large runs go through the real loop in c14_ef_size
    let n: usize = kani::any();
    kani::assume(n <= 40);
    let room: usize = kani::any();
    kani::assume(room <= 48);
    let start: usize = kani::any();
    kani::assume(start <= room);
    let j: usize = kani::any();
    kani::assume(j < 48);
    let mut a = [0xEEu8; 49];
    let mut b = [0xEEu8; 49];
    let (ra, pa) = {
        let mut w = Cursor::new(&mut a[..room]);
        w.set_position(start as u64);
        let r = eh::write_zeros_hook(&mut w, n);
        (r.is_ok(), w.position() as usize)
    };
    let (rb, pb) = {
        let mut w = Cursor::new(&mut b[..room]);
        w.set_position(start as u64);
        let r = write_zeros_single(&mut w, n);
        (r.is_ok(), w.position() as usize)
    };
    assert!(ra == rb, "model and loop succeed/fail together");
    assert!(ra == (start + n <= room), "fails exactly when the zeros do not fit");
    if ra {
        assert!(pa == pb && pa == start + n, "same final position");
        assert!(a[j] == b[j], "same bytes");
        assert!(a[j] == if j >= start && j < start + n { 0 } else { 0xEE }, "exactly n zero bytes");
    }
    kani::cover!(ra && n == 40 && start == 7, "largest run (two chunks)");
    kani::cover!(!ra && n > 32, "does not fit");
    kani::cover!(ra && n == 0, "nothing to write");
}

// ------------------------------------------------------------------------------------------
// sources without NTS: real builder + real encoder, one harness per protocol-version state
fn c14_plain_body(version_sel: u8) {
    stubs::symbolic_clock();
    sym_rng();
    let tries_left: u8 = kani::any();
    let desired: i8 = kani::any();
    let remote: i8 = kani::any();
    let reach: u8 = kani::any();
    let tries: usize = kani::any();
    let have_deny: bool = kani::any();

    let mut src = new_source(version_from(version_sel, tries_left), SourceConfig::default(), poll(desired), None);
    sh::set_remote_min_poll_interval(&mut src, poll(remote));
    sh::set_reach(&mut src, reach);
    sh::set_tries(&mut src, tries);
    sh::set_have_deny(&mut src, have_deny);

    let (acts, n) = collect_actions(src.handle_timer());
    let sent = match &acts[0] {
        Some(NtpSourceAction::Send(p)) => {
            assert!(n == 2 && matches!(acts[1], Some(NtpSourceAction::SetTimer(_))), "Send is followed by SetTimer only");
            assert!(p.len() <= 1024, "request fits the 1024-byte send buffer");
            assert!(p.len() >= 48);
            true
        }
        Some(NtpSourceAction::Reset) | Some(NtpSourceAction::Demobilize) => {
            assert!(n == 1, "Reset/Demobilize stands alone");
            assert!(reach == 0 && tries >= 3, "only an unreachable source gives up");
            false
        }
        _ => {
            assert!(false, "Send+SetTimer, Reset or Demobilize");
            false
        }
    };
    kani::cover!(sent && desired == -128, "extreme poll exponent");
    kani::cover!(sent && remote == 127, "server asked for the longest interval");
    kani::cover!(!sent && have_deny, "demobilize");
    core::mem::forget(src);
    core::mem::forget(acts);
}

nharness! {
    #[kani::unwind(6)]
    fn c14_poll_plain_v4() {
        c14_plain_body(0);
    }
}
nharness! {
    #[kani::unwind(6)]
    fn c14_poll_plain_upgrading() {
        c14_plain_body(1);
    }
}
// c14_poll_plain_upgraded / _v5: NOT registered (875 k steps, solver runs out of 8 GB)
nharness! {
    #[kani::unwind(6)]
    fn c14_poll_plain_upgraded() {
        c14_plain_body(2);
    }
}
nharness! {
    #[kani::unwind(6)]
    fn c14_poll_plain_v5() {
        c14_plain_body(3);
    }
}
