//! Harnesses for property C26 (see /verif/properties.jsonl).
use crate::stubs;
