//! Verification hooks (guard: cargo feature `pendulum_project_ntpd_rs_verif`).
//! Re-export plumbing only; no behaviour.
pub use crate::algorithm::verif_hooks as algorithm;
pub use crate::clock::verif_hooks as clock;
pub use crate::config::verif_hooks as config;
pub use crate::cookiestash::verif_hooks as cookiestash;
pub use crate::identifiers::verif_hooks as identifiers;
pub use crate::ipfilter::verif_hooks as ipfilter;
pub use crate::keyset::verif_hooks as keyset;
pub use crate::nts::verif_hooks as nts;
pub use crate::packet::verif_hooks as packet;
pub use crate::server::verif_hooks as server;
pub use crate::source::verif_hooks as source;
pub use crate::system::verif_hooks as system;
pub use crate::time_types::verif_hooks as time_types;
