//! Safe-Rust verification hooks for this module (accessors/wrappers only; no logic).
#![allow(unused_imports, dead_code)]
use super::*;

// --- C30 (np_misc_h): the record type lives in a private module; re-export only.
pub use super::NtsRecord as Record;
