//! Environment stubs shared by all harness crates (part of the trusted base; every harness
//! that uses one lists it through `#[kani::stub]`, and Kani prints the applied stubs, which the
//! driver copies into the evidence).
//!
//! Stubs never call `kani::any()` lazily in a way that depends on the code under test for
//! *playback alignment*: values consumed by stubs come from ghost cells the harness fills
//! up front (see `Ghost`). In a native replay `#[kani::stub]` is inert and the real functions run.
#![allow(dead_code, unused_imports, static_mut_refs)]
// (the harness crates enable `allocator_api` for the 4-parameter HashMap stub)

// ---------------------------------------------------------------- tracing: no subscriber
pub fn tracing_get_default<T, F>(mut f: F) -> T
where
    F: FnMut(&tracing::Dispatch) -> T,
{
    f(&tracing::Dispatch::none())
}

pub fn tracing_register(_cs: &'static tracing::callsite::DefaultCallsite) -> tracing::subscriber::Interest {
    tracing::subscriber::Interest::never()
}

// ---------------------------------------------------------------- catch_unwind: panic = abort
pub fn catch_unwind_stub<F: FnOnce() -> R + std::panic::UnwindSafe, R>(f: F) -> std::thread::Result<R> {
    Ok(f())
}

// ---------------------------------------------------------------- formatting: strings are irrelevant
pub fn fmt_format_stub(_args: std::fmt::Arguments<'_>) -> String {
    String::new()
}

// ---------------------------------------------------------------- time
/// Ghost clock: the harness sets the sequence of instants `Instant::now()` returns.
pub static mut NOW_SECS: [i64; 4] = [0; 4];
pub static mut NOW_NANOS: [u32; 4] = [0; 4];
pub static mut NOW_IDX: usize = 0;

#[repr(C)]
struct RawTimespec {
    secs: i64,
    nanos: u32,
}

pub fn make_instant(secs: i64, nanos: u32) -> std::time::Instant {
    // std::time::Instant on linux = Timespec { tv_sec: i64, tv_nsec: Nanoseconds(u32 < 1e9) }
    assert!(nanos < 1_000_000_000);
    unsafe { std::mem::transmute::<RawTimespec, std::time::Instant>(RawTimespec { secs, nanos }) }
}

pub fn instant_now_stub() -> std::time::Instant {
    unsafe {
        let i = if NOW_IDX < 4 { NOW_IDX } else { 3 };
        NOW_IDX += 1;
        make_instant(NOW_SECS[i], NOW_NANOS[i])
    }
}

pub fn tokio_instant_now_stub() -> tokio::time::Instant {
    tokio::time::Instant::from_std(instant_now_stub())
}

/// Fill the ghost clock with arbitrary non-decreasing instants (call from the harness, up front).
#[cfg(kani)]
pub fn symbolic_clock() {
    unsafe {
        let mut prev_s: i64 = kani::any();
        let mut prev_n: u32 = kani::any();
        kani::assume(prev_s >= 0 && prev_s < (1 << 40));
        kani::assume(prev_n < 1_000_000_000);
        NOW_SECS[0] = prev_s;
        NOW_NANOS[0] = prev_n;
        let mut i = 1;
        while i < 4 {
            let s: i64 = kani::any();
            let n: u32 = kani::any();
            kani::assume(s >= prev_s && s < (1 << 40));
            kani::assume(n < 1_000_000_000);
            kani::assume(s > prev_s || n >= prev_n);
            NOW_SECS[i] = s;
            NOW_NANOS[i] = n;
            prev_s = s;
            prev_n = n;
            i += 1;
        }
        NOW_IDX = 0;
    }
}

// ---------------------------------------------------------------- hashing keys
pub static mut HASH_K0: u64 = 0;
pub static mut HASH_K1: u64 = 0;

pub fn random_state_new_stub() -> std::collections::hash_map::RandomState {
    unsafe { std::mem::transmute::<(u64, u64), std::collections::hash_map::RandomState>((HASH_K0, HASH_K1)) }
}

// ---------------------------------------------------------------- randomness
/// Ghost tape of random words: every draw from `thread_rng()` returns the next word.
pub static mut RNG_TAPE: [u64; 8] = [0; 8];
pub static mut RNG_IDX: usize = 0;

#[cfg(kani)]
pub fn symbolic_rng() {
    unsafe {
        let mut i = 0;
        while i < 8 {
            RNG_TAPE[i] = kani::any();
            i += 1;
        }
        RNG_IDX = 0;
    }
}

pub fn rng_word() -> u64 {
    unsafe {
        let i = RNG_IDX % 8;
        RNG_IDX += 1;
        RNG_TAPE[i]
    }
}

pub fn thread_rng_stub() -> rand::rngs::ThreadRng {
    // ThreadRng = { rng: Rc<UnsafeCell<ReseedingRng<..>>> }: a single pointer. All methods are
    // stubbed, so the pointer is never dereferenced; it must only not be dropped as an Rc.
    // A real, leaked Rc (strong count kept >= 1 forever), so dropping the handle only
    // decrements a counter.
    let rc = std::rc::Rc::new(std::cell::UnsafeCell::new([0u64; 128]));
    std::mem::forget(rc.clone());
    unsafe { std::mem::transmute::<std::rc::Rc<std::cell::UnsafeCell<[u64; 128]>>, rand::rngs::ThreadRng>(rc) }
}

pub fn thread_rng_next_u32(_r: &mut rand::rngs::ThreadRng) -> u32 {
    rng_word() as u32
}
pub fn thread_rng_next_u64(_r: &mut rand::rngs::ThreadRng) -> u64 {
    rng_word()
}
pub fn thread_rng_fill_bytes(_r: &mut rand::rngs::ThreadRng, dest: &mut [u8]) {
    let mut i = 0;
    let mut w = 0u64;
    while i < dest.len() {
        if i % 8 == 0 {
            w = rng_word();
        }
        dest[i] = (w >> (8 * (i % 8))) as u8;
        i += 1;
    }
}
pub fn thread_rng_try_fill_bytes(r: &mut rand::rngs::ThreadRng, dest: &mut [u8]) -> Result<(), rand::Error> {
    thread_rng_fill_bytes(r, dest);
    Ok(())
}

// ---------------------------------------------------------------- HashMap::insert (publication maps only)
/// No-op replacement for `HashMap::insert`, used ONLY by harnesses whose code under test inserts
/// into a write-only publication map (NtpSource -> source_snapshots). hashbrown's probing/rehash
/// loops make symbolic execution explode (measured: >25 min for one insert into an empty map).
pub static mut HASHMAP_INSERTS: usize = 0;
pub fn hashmap_insert_noop<K, V, S, A: std::alloc::Allocator>(_m: &mut std::collections::HashMap<K, V, S, A>, _k: K, _v: V) -> Option<V> {
    unsafe {
        HASHMAP_INSERTS += 1;
    }
    None
}
