//! Safe-Rust verification hooks for this module (accessors/wrappers only; no logic).
#![allow(unused_imports, dead_code)]
use super::*;

/// nameable alias of `TimeSnapshot::root_dispersion` for `#[kani::stub]`
pub use super::TimeSnapshot;
pub fn root_dispersion_fn(s: &TimeSnapshot, now: NtpTimestamp) -> NtpDuration {
    s.root_dispersion(now)
}
