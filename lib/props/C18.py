NP = "np_srvnts_h"
_shape = ("constant per run: first byte (LI/version/mode), request length, extension-field type/length words, "
          "policy outcome; symbolic: every other request byte, reception time, clock reading, stratum, leap, "
          "reference id, precision, root delay, root dispersion")
PROP = dict(
    functions=[
        "ntp_proto::server::Server<FixedClock>::handle (handle_inner, intended_action)",
        "ntp_proto::packet::NtpPacket::{deserialize, timestamp_response, deny_response, serialize}",
        "ntp_proto::packet::NtpHeaderV3V4::{deserialize, timestamp_response, deny_response, serialize}",
        "ntp_proto::packet::v5::NtpHeaderV5::{deserialize, timestamp_response, deny_response, serialize}",
        "ntp_proto::packet::extension_fields::{ExtensionFieldData::{deserialize, serialize}, ExtensionField::{decode, serialize, encode_*}}",
        "ntp_proto::packet::v5::extension_fields::{ReferenceIdRequest::{decode, to_response}, ReferenceIdResponse::serialize}",
    ],
    bounds=("NTPv3/NTPv4 requests of 48 bytes and 48 + MAC(4, 20, 24) bytes with all content bytes symbolic (malformed sizes such as 47/50 bytes: symex > 4.6 GB, left to C23); "
            "first bytes: v3/v4 client (LI 0) under 4 policies (serve, deny by address, deny non-NTS, ignore non-NTS), plus first bytes LI 3 (v3, v4) and v4 modes 0,1,2 (harnesses for modes 4..7 and versions 0,1,2,6,7 exist, c18_echo_first_byte_b/_c, but exceed 8 GB and are not registered); " + _shape),
    outside=("ANY request that carries extension fields, hence the whole 'reflect nothing else' half of the property and all of NTPv5: harnesses exist (c18_reflect_v4_time/_deny, c18_reflect_v5 on bytes; c18_fields_v4_time/_deny on the unserialized answer) "
             "but are not registered: one answer with one echoed field = 570 s symex and the solver exceeds 8 GB (every pointer-iterating loop over Vec<ExtensionField> and the io::Error drop glue is unrolled to the unwind bound, nested); "
             "symbolic lengths, first bytes or field types (symbolic execution does not terminate, measured); "
             "RATE answers (Server::handle never sends them: rate-limited clients are ignored); NTS answers are checked by the C19 harnesses (same header oracle, "
             "unique-identifier echo, nothing from the undecryptable part); interleaved mode; the value of the NTPv5 server cookie (random); "
             "root dispersion arithmetic (TimeSnapshot::root_dispersion is replaced by an arbitrary non-negative value, C22/C32 territory)"),
    assumptions=[
        "server state: precision >= 0, 0 <= root delay, root dispersion <= 65535 s (to_bits_short asserts / debug-asserts this; C22)",
        "policy: allow list 128.0.0.0/1 (action deny), empty deny list, client 192.0.2.7 or 10.1.2.3, rate limiting off; address filters supplied ready-made (hook server_from_parts/filter_from_top_nibbles; IpFilter::new is C31)",
        "v5 template: timescale byte and flag bytes of the request are 0 (other values are rejected by the header parser)",
    ],
    stub_notes=[
        "KeySet::decode_cookie -> Err (exact for the key set without keys the plain harnesses use); KeySet::encode_cookie unreachable",
        "TimeSnapshot::root_dispersion -> arbitrary non-negative duration (CBMC's powi is nondeterministic)",
        "core::str::from_utf8 / <[u8]>::is_ascii -> ASCII-only models (exact for the draft-id caller)",
        "cargo-kani flags from harness/np_srvnts_h/Cargo.toml: no-assertion-reach-checks, no-memory-safety-checks, no-overflow-checks (CBMC instrumentation only; Rust-level panics stay checked), --max-field-sensitivity-array-size 127",
    ],
    harnesses=[
        H(NP, "c18", "c18_echo_v3", "NTPv3 48/52-byte requests under 4 policies: time/DENY answer header fields per RFC 5905 oracle (byte level), ignored when NTS required", timeout=900),
        H(NP, "c18", "c18_echo_v4", "NTPv4 48/52-byte requests: same, plus the v5 upgrade marker", timeout=900),
        H(NP, "c18", "c18_echo_first_byte_a", "first bytes LI 3 (v4, v3) answered like LI 0; v4 modes 0,1,2 dropped", tier="thorough", timeout=1800),
        H(NP, "c18", "c18_echo_mac_sizes", "v4 requests with 20/24-byte MAC answered, MAC not reflected", tier="thorough", timeout=1800),
    ],
)
