//! Kani harnesses for ntp-proto (external crate, path dependency on /repo/ntp-proto).
#![feature(allocator_api)]
#![allow(unused, static_mut_refs)]
#[path = "../../common/stubs.rs"]
pub mod stubs;
#[path = "../../common/util.rs"]
#[macro_use]
pub mod util;
#[cfg(kani)]
mod c32;
#[cfg(kani)]
mod c33m;
#[cfg(kani)]
mod c23f;
#[cfg(kani)]
mod probe;
