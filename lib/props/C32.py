NP = "ntp_proto_h"
_scale = ["i8", "u8", "i16", "u16", "i32", "u32", "i64", "isize"]
PROP = dict(
    functions=[
        "ntp_proto::time_types::NtpTimestamp::{add,add_assign,sub,sub_assign,sub<NtpTimestamp>,is_before,truncated_second_bits,from_bits,to_bits,from_seconds_nanos_since_ntp_era}",
        "ntp_proto::time_types::NtpDuration::{add,sub,neg,abs,abs_diff,mul<i8..u32,i64,isize>,div<..>,from_seconds,from_bits_short,to_bits_short,from_bits_time32,to_bits_time32,as_seconds_nanos,from_exponent,log2}",
        "ntp_proto::time_types::PollInterval::as_duration, FrequencyTolerance mul",
        "statime_base::time_types::{Timestamp<TAI>,Duration} operator impls and constructors",
    ],
    bounds="all 64-bit timestamps/durations, all scalar multipliers of each implemented type, all finite f64 for from_seconds, all 128-bit PTP values (PTP scaling: multiplier types i8/u8/i16/u16); no loop bound needed (loop-free code)",
    outside="to_seconds()/from_seconds() round-trip error bound (f64 division by 2^32-1: see c32_roundtrip harness bounds); PTP scaling by 32/64-bit multipliers (128x64-bit symbolic multiplication does not finish); division by zero (documented precondition: divisor != 0); Debug formatting",
    assumptions=["nanos < 1e9 for the seconds/nanos constructors (documented precondition, debug_assert in the code)", "divisor != 0"],
    harnesses=[
        H(NP, "c32", "c32_ts_sub_add", "timestamp difference is the shortest signed difference across eras and adds back"),
        H(NP, "c32", "c32_ts_add_dur", "timestamp +/- duration wraps modulo 2^64"),
        H(NP, "c32", "c32_ts_bits_truncate", "timestamp wire round trip, truncation, constructor"),
        H(NP, "c32", "c32_dur_add_sub", "duration add/sub saturate (i128 reference)"),
        H(NP, "c32", "c32_dur_neg_abs", "negation/abs/abs_diff saturate and never panic"),
    ] + [H(NP, "c32", "c32_dur_scale_" + t, "duration * and / %s saturate, never panic" % t, tier=("quick" if t in ("i8", "u8", "i16", "u16") else "thorough")) for t in _scale] + [
        H(NP, "c32", "c32_dur_freq_tolerance", "duration * FrequencyTolerance", tier="thorough"),
        H(NP, "c32", "c32_from_seconds_sign_saturation", "from_seconds preserves sign and saturates for all finite f64"),
        H(NP, "c32", "c32_from_seconds_monotone_units", "from_seconds keeps integer seconds exact"),
        H(NP, "c32", "c32_wire_short_time32", "short and time32 wire encodings round-trip within one unit, saturate"),
        H(NP, "c32", "c32_dur_misc", "as_seconds_nanos, from_exponent, log2, poll interval duration"),
        H(NP, "c32", "c32_ptp_ts", "PTP timestamp wrap laws (128-bit)"),
        H(NP, "c32", "c32_ptp_dur_add_sub", "PTP duration saturating add/sub"),
        H(NP, "c32", "c32_ptp_scale_i8", "PTP duration * / i8"),
        H(NP, "c32", "c32_ptp_scale_u8", "PTP duration * / u8"),
        H(NP, "c32", "c32_ptp_scale_i16", "PTP duration * / i16", tier="thorough"),
        H(NP, "c32", "c32_ptp_scale_u16", "PTP duration * / u16", tier="thorough"),
        H(NP, "c32", "c32_ptp_ctor", "PTP constructors"),
    ],
)
