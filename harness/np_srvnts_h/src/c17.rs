//! Harnesses for property C17 (see /verif/properties.jsonl): whenever the server answers a
//! request, the answer also fits a buffer exactly as long as the request.
//!
//! Method: the same request is handled by two identically configured servers (same clock
//! reading, same synchronisation state, same policy, same key set), once with a 1024-byte buffer
//! and once with a buffer of exactly the request's length. Oracle: answered-with-big =>
//! answered-with-small, with the same bytes.
use crate::common::*;
use crate::stubs;
use ntp_proto::verif::packet::v5::server_reference_id as bh;
use ntp_proto::*;

pub const BIG: usize = 1024;

/// Handle `msg` twice (big buffer, request-sized buffer) and check the C17 implication.
/// Returns (answer length with the big buffer, answered with the request-sized buffer).
pub fn fit_check(env: &Env, msg: &[u8], small: &mut [u8]) -> (Option<usize>, bool) {
    let mut big = [0u8; BIG];
    let mut s1 = env.server(v5::BloomFilter::new(), empty_keyset());
    let mut s2 = env.server(v5::BloomFilter::new(), empty_keyset());
    let mut st1 = RecStats::default();
    let mut st2 = RecStats::default();
    let r_big = handle_once(&mut s1, env, msg, &mut big, &mut st1);
    let r_small = handle_once(&mut s2, env, msg, small, &mut st2);
    if let Some(n) = r_big {
        assert!(n < BIG, "the big buffer did not limit the answer");
        assert!(r_small.is_some(), "C17: an answer that is produced with a large buffer also fits a request-sized buffer");
        if let Some(m) = r_small {
            assert!(m == n, "same answer length with both buffers");
        }
        assert!(st2.reason == st1.reason && st2.response == st1.response, "same statistics with both buffers");
    } else {
        assert!(r_small.is_none(), "a smaller buffer never turns an ignored request into an answered one");
    }
    (r_big, r_small.is_some())
}

srv_harness! {
    #[kani::unwind(20)]
    fn c17_fit_u52() {
        let msg: [u8; 52] = kani::any();
        let len: usize = kani::any();
        kani::assume(len <= 52);
        let env = Env::any();
        let mut small = [0u8; 52];
        let (big, _) = fit_check(&env, &msg[..len], &mut small[..len]);
        kani::cover!(big == Some(48) && len == 48, "48-byte request answered in 48 bytes");
        kani::cover!(big == Some(48) && len == 52, "request with MAC answered");
        kani::cover!(big.is_none() && len >= 48, "ignored request");
    }
}
