//! Harnesses for property C02 (see /verif/properties.jsonl): every frequency handed to
//! `NtpClock::set_frequency` lies within +-maximum_frequency_steer, every slew uses an extra
//! frequency of at most slew_maximum_frequency_offset, whatever the kernel reported at startup.
//!
//! The bound is checked by the recording clock when `set_frequency` is called and again on the log.
use crate::common::*;
use crate::stubs;
use ntp_proto::verif::algorithm::kalman as kh;
use ntp_proto::verif::algorithm::InternalTimeSyncController;
use ntp_proto::verif::time_types as tt;
use ntp_proto::{AlgorithmConfig, KalmanClockController};

/// no overflow to infinity in `desired - new + delta` / `1 + x` below this magnitude
const BIG: f64 = 1e300;

/// A kernel frequency of exactly -1 (-1e6 ppm: a clock that does not advance) makes
/// `(1 + new) / (1 + old)` a 0/0 in the *message to the sources* (not in the applied frequency);
/// Kani's NaN check flags it, so it is excluded (stated in the props file).
#[cfg(kani)]
fn any_kernel_freq() -> f64 {
    let f = any_finite();
    kani::assume(f != -1.0);
    f
}

fn check_freq_log(c: &KalmanClockController<RecClock>, max: f64) {
    unsafe {
        assert!(FREQ_N == 1, "exactly one set_frequency per frequency change");
        let x = FREQ_X[0];
        assert!(x >= -max && x <= max, "-max <= applied frequency <= max");
        assert!(!x.is_nan(), "applied frequency is a number");
        assert!(kh::controller_freq_offset(c) == x, "the remembered frequency offset is the applied one");
        assert!(kh::controller_freq_offset(c).is_finite(), "invariant: freq_offset stays finite");
        assert!(STEP_N == 0, "a frequency change does not step");
    }
}

fn plain_cfg() -> StepCfg {
    StepCfg { in_startup: false, acc0: 0, start_fwd: None, start_bwd: None, single_fwd: None, single_bwd: None, acc_limit: None, warn_on_jump: false }
}

// `steer_frequency(change)`: arbitrary finite kernel frequency, change and positive maximum.
harness! {
    fn c02_steer_frequency() {
        let f0 = any_kernel_freq();
        let change = any_finite();
        let max = any_pos_finite();
        let desired = any_finite();
        let algo = AlgorithmConfig { maximum_frequency_steer: max, ..AlgorithmConfig::default() };
        let mut c = controller(&plain_cfg(), algo, f0, desired);
        arm_freq_policy(max);
        let upd = kh::steer_frequency(&mut c, change);
        check_freq_log(&c, max);
        assert!(kh::controller_desired_freq(&c) == desired, "steer_frequency leaves the slew frequency alone");
        assert!(upd.source_message.is_some(), "sources are told about the change");
        unsafe {
            kani::cover!(FREQ_X[0] == max, "clamped at +max");
            kani::cover!(FREQ_X[0] == -max, "clamped at -max");
            kani::cover!(FREQ_X[0] > -max && FREQ_X[0] < max && FREQ_X[0] != f0, "unclamped change");
            kani::cover!(f0 > max, "kernel frequency outside the maximum at startup");
        }
    }
}

// `change_desired_frequency(new, delta)` as called by the slew start and `time_update`.
harness! {
    fn c02_change_desired() {
        let f0 = any_kernel_freq();
        let max = any_pos_finite();
        let desired = any_finite();
        let new_freq = any_finite();
        let delta = any_finite();
        kani::assume(desired.abs() <= BIG && new_freq.abs() <= BIG && delta.abs() <= BIG);
        let algo = AlgorithmConfig { maximum_frequency_steer: max, ..AlgorithmConfig::default() };
        let mut c = controller(&plain_cfg(), algo, f0, desired);
        arm_freq_policy(max);
        let _ = kh::change_desired_frequency(&mut c, new_freq, delta);
        check_freq_log(&c, max);
        assert!(kh::controller_desired_freq(&c) == new_freq, "the slew frequency becomes the requested one");
        unsafe {
            kani::cover!(FREQ_X[0] == max, "clamped at +max");
            kani::cover!(FREQ_X[0] > -max && FREQ_X[0] < max, "unclamped");
        }
    }
}

// `time_update()` (end of slew).
harness! {
    fn c02_time_update() {
        let f0 = any_kernel_freq();
        let max = any_pos_finite();
        let desired = any_finite();
        let algo = AlgorithmConfig { maximum_frequency_steer: max, ..AlgorithmConfig::default() };
        let mut c = controller(&plain_cfg(), algo, f0, desired);
        arm_freq_policy(max);
        let _ = c.time_update();
        check_freq_log(&c, max);
        assert!(kh::controller_desired_freq(&c) == 0.0, "the slew has ended");
        unsafe {
            kani::cover!(FREQ_X[0] == -max, "clamped at -max");
            kani::cover!(desired != 0.0 && FREQ_X[0] != f0, "frequency moved back");
        }
    }
}

/// ghost: the slew duration was not representable (the real daemon panics there)
pub static mut DURATION_PANIC: bool = false;
/// Replacement for `std::time::Duration::from_secs_f64`: same domain check as the real function
/// (negative, NaN, infinite or >= 2^64 seconds panic = the daemon stops: path ends); the result
/// keeps the whole seconds only (the value is not used by the property).
pub fn duration_from_secs_f64_stub(secs: f64) -> std::time::Duration {
    if !(secs >= 0.0 && secs < 18446744073709551616.0) {
        unsafe {
            DURATION_PANIC = true;
        }
        #[cfg(kani)]
        {
            kani::cover!(true, "slew duration not representable: the daemon panics before touching the clock");
            unsafe {
                assert!(crate::common::FREQ_N == 0 && crate::common::STEP_N == 0, "no clock call before the panic");
            }
            kani::assume(false);
        }
    }
    std::time::Duration::from_secs(secs as u64)
}

pub struct SlewSetup {
    pub sc: StepCfg,
    pub ctl: KalmanClockController<RecClock>,
    pub change: f64,
    pub freq_delta: f64,
    pub max: f64,
    pub slew_max: f64,
}

/// Arbitrary pre-state and configuration for the slew branch of `steer_offset`.
/// Assumptions (part of the claim): the correction is in the slew branch (|change| <= step
/// threshold) and non-zero (a zero correction makes the slew duration 0/0; see props file);
/// magnitudes below 1e300 so that sums of finite frequencies stay finite;
/// invariant |desired_freq| <= slew_maximum_frequency_offset; kernel frequency != -1.
/// A slew duration that `std::time::Duration` cannot represent makes the real
/// `Duration::from_secs_f64` panic (the daemon stops before any clock call): modelled by
/// `duration_from_secs_f64_stub`, which ends the path.
pub fn slew_setup() -> SlewSetup {
    let sc = any_step_cfg();
    let f0 = any_finite();
    let max = any_pos_finite();
    let slew_max = any_pos_finite();
    let slew_min_dur = any_pos_finite();
    let step_threshold: f64 = kani::any();
    let change = any_finite();
    let freq_delta = any_finite();
    let desired = any_finite();
    kani::assume(!(change.abs() > step_threshold));
    kani::assume(slew_max <= BIG && freq_delta.abs() <= BIG);
    kani::assume(desired.abs() <= slew_max);
    kani::assume(change != 0.0);
    kani::assume(f0 != -1.0);
    let algo = AlgorithmConfig {
        maximum_frequency_steer: max,
        slew_maximum_frequency_offset: slew_max,
        slew_minimum_duration: slew_min_dur,
        step_threshold,
        ..AlgorithmConfig::default()
    };
    let ctl = controller(&sc, algo, f0, desired);
    SlewSetup { sc, ctl, change, freq_delta, max, slew_max }
}

// Slew branch of `steer_offset`.
harness! {
    #[kani::stub(std::process::exit, crate::common::exit_unexpected)]
    #[kani::stub(std::time::Duration::from_secs_f64, crate::c02::duration_from_secs_f64_stub)]
    fn c02_slew() {
        let s = slew_setup();
        let mut c = s.ctl;
        arm_freq_policy(s.max);
        let upd = kh::steer_offset(&mut c, s.change, s.freq_delta);
        check_freq_log(&c, s.max);
        let extra = kh::controller_desired_freq(&c);
        assert!(extra >= -s.slew_max && extra <= s.slew_max, "|extra slew frequency| <= slew_maximum_frequency_offset");
        assert!(upd.next_update.is_some(), "the end of the slew is scheduled");
        unsafe {
            kani::cover!(extra == s.slew_max, "slew at the maximum rate (negative correction)");
            kani::cover!(extra < 0.0 && extra > -s.slew_max, "slew below the maximum rate");
            kani::cover!(FREQ_X[0] == s.max, "slew clamped by the absolute maximum");
        }
    }
}

// ---------------------------------------------------------------- start-up sequence (lead)
/// new() followed by take_control() with an arbitrary kernel-reported frequency: whatever is
/// applied to the clock during start-up lies within +-maximum_frequency_steer (on the current code
/// nothing is applied at all before the first steering decision).
harness! {
    fn c02_startup() {
        use ntp_proto::verif::algorithm::InternalTimeSyncController;
        let f0 = any_finite();
        let max = any_pos_finite();
        unsafe {
            CLOCK_FREQ = f0;
        }
        let algo = AlgorithmConfig { maximum_frequency_steer: max, ..AlgorithmConfig::default() };
        arm_freq_policy(max);
        let mut c = match ntp_proto::KalmanClockController::new(RecClock, ntp_proto::SynchronizationConfig::default(), algo) {
            Ok(c) => c,
            Err(_) => return,
        };
        let _ = c.take_control();
        unsafe {
            let mut i = 0;
            while i < FREQ_N && i < 2 {
                assert!(FREQ_X[i] >= -max && FREQ_X[i] <= max, "frequency applied during start-up within +-maximum_frequency_steer");
                i += 1;
            }
            assert!(STEP_N == 0, "start-up never steps the clock");
            assert!(kh::controller_freq_offset(&c) == f0 || f0.is_nan(), "the kernel frequency is remembered as reported");
            kani::cover!(f0 > max, "kernel frequency above the configured maximum");
            kani::cover!(DISABLE_N == 1, "kernel discipline disabled by take_control");
        }
    }
}
