NH = "np_nts_h"
PROP = dict(
    functions=[
        "ntp_proto::cookiestash::CookieStash::{store,get,gap,len,is_empty}",
        "ntp_proto::source::NtpSource<RecCtl>::handle_timer (NTS branch)",
        "ntp_proto::packet::NtpPacket::{nts_poll_message,nts_poll_message_v5}",
    ],
    bounds="stash: ONE store/get from every raw ring state (read<8, valid<=8, arbitrary 1-byte cookies, arbitrary stale free slots) checked through the full "
           "abstraction function (= inductive step for histories of any length), plus 4 (quick) / 6 (thorough) consecutive operations from every raw state; "
           "poll: every stash fill 0..=8, cookie length 0..=64 with symbolic content (handle_timer) / 0..=32 and every count 1..=8 (NTPv4 request builder), NTPv4 and NTPv5, "
           "any reach/tries/poll desire, every random draw",
    outside="the NTPv5 request builder nts_poll_message_v5 (same loop as the v4 builder plus one trailing draft-id field; its harness c13_poll_message_v5 runs out of 12 GB in the solver; kept in c13.rs, not registered). The wire encoding of the request (NtpPacket::serialize) is not part of these queries: the property is decided on (a) what handle_timer hands to the request builder "
            "and (b) the extension-field list the builder creates; handle_timer + builder + encoder in one query does not finish (see C14). Cookie lengths above 64 in the poll "
            "harnesses (count logic for all lengths 0..=1024: c14_poll_timer_*). Arbitrary ring position in the poll harnesses (position 0; arbitrary positions are covered by "
            "the stash harnesses through the abstraction function). Cookie delivery on the response path (C07: stored cookies = exactly the encrypted cookie fields, in order)",
    assumptions=[
        "packet-size limit taken from the implementation's documented margin: floor((1024-300)/max(L,1)) cookies",
    ],
    stub_notes=[
        "c13_poll_timer_*: NtpPacket::nts_poll_message{,_v5} replaced by a recorder (records cookie bytes, count, poll exponent; returns the plain poll message of that version with a unique id from the ghost tape)",
        "thread_rng: ghost tape (unique identifier, origin timestamp, jitter are arbitrary); HashMap::insert on the snapshot publication map: no-op; ExtensionField::write_zeros: single write (c14_write_zeros_model)",
    ],
    harnesses=[
        H(NH, "c13", "c13_stash_init", "a new stash is the empty queue", timeout=600),
        H(NH, "c13", "c13_stash_step", "one store/get from any raw state preserves 'ring window = FIFO of the newest 8' (get = oldest, each position at most once, len/gap agree)", timeout=600),
        H(NH, "c13", "c13_stash_seq4", "4 consecutive symbolic store/get operations from any raw state against a serial-number FIFO model", timeout=600),
        H(NH, "c13", "c13_stash_seq6", "6 consecutive symbolic store/get operations", tier="thorough", timeout=900),
        H(NH, "c13", "c13_poll_timer_v4", "NTPv4 NTS handle_timer, all stash fills: cookie handed to the request builder = oldest (every byte), consumed from the stash, rest keeps order, "
          "count = min(missing, fit), pending uid = the request's", timeout=600),
        H(NH, "c13", "c13_poll_timer_v5", "same for NTPv5", timeout=600),
        H(NH, "c13", "c13_poll_message_v4", "real nts_poll_message: fields = unique id (remembered), the cookie (every byte), count-1 placeholders of the cookie's length, all authenticated", timeout=600),
    ],
)
