//! Verification hooks (guard: cargo feature `pendulum_project_ntpd_rs_verif`). Re-export plumbing only.
#![allow(missing_docs, unused_imports)]
pub use crate::clock::vh_clock as clock;
pub use crate::identifiers::vh_identifiers as identifiers;
pub use crate::time_types::vh_time_types as time_types;
