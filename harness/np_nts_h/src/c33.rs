//! Harnesses for property C33 (see /verif/properties.jsonl):
//! advertised stratum / reference id, and which sources may be used for synchronisation.
use crate::common::*;
use crate::stubs;
use ntp_proto::verif::identifiers as ih;
use ntp_proto::verif::packet::v5::server_reference_id as bh;
use ntp_proto::verif::source as sh;
use ntp_proto::*;
use std::net::{IpAddr, Ipv4Addr, SocketAddr};

/// Everything `accept_synchronization` can look at, drawn up front.
struct AcceptCase {
    stratum: u8,
    local_stratum: u8,
    source_id: u32,
    reference_id: u32,
    reach: u8,
    n_ips: u8,
    ip0: [u8; 4],
    ip1: [u8; 4],
    has_bloom: bool,
    /// the ten 12-bit indices of this daemon's server id (sorted, distinct as `ServerId::new` makes them)
    sid: [u16; 10],
    /// the filter bytes that hold those indices (all other filter bytes are zero)
    bloom_bytes: [u8; 10],
}

fn any_case() -> AcceptCase {
    let c = AcceptCase {
        stratum: kani::any(),
        local_stratum: kani::any(),
        source_id: kani::any(),
        reference_id: kani::any(),
        reach: kani::any(),
        n_ips: kani::any(),
        ip0: kani::any(),
        ip1: kani::any(),
        has_bloom: kani::any(),
        sid: kani::any(),
        bloom_bytes: kani::any(),
    };
    kani::assume(c.n_ips <= 2);
    let mut i = 0;
    while i < 10 {
        kani::assume(c.sid[i] < 4096);
        if i > 0 {
            kani::assume(c.sid[i - 1] < c.sid[i]);
        }
        i += 1;
    }
    c
}

/// local address identifiers, from the property text: an IPv4 address is its own identifier
fn local_id(ip: [u8; 4]) -> u32 {
    ((ip[0] as u32) << 24) | ((ip[1] as u32) << 16) | ((ip[2] as u32) << 8) | ip[3] as u32
}

fn is_local(c: &AcceptCase, id: u32) -> bool {
    (c.n_ips >= 1 && id == local_id(c.ip0)) || (c.n_ips >= 2 && id == local_id(c.ip1))
}

fn run_accept(c: &AcceptCase) -> (Result<(), AcceptSynchronizationError>, bool) {
    // Bloom filter: symbolic content at the bytes holding the server id's indices
    let mut bytes = [0u8; 512];
    let mut i = 0;
    while i < 10 {
        bytes[(c.sid[i] / 8) as usize] |= c.bloom_bytes[i];
        i += 1;
    }
    // independent "filter contains my id": all ten bits set
    let mut contains = true;
    let mut i = 0;
    while i < 10 {
        let byte = bytes[(c.sid[i] >> 3) as usize];
        if (byte >> (c.sid[i] & 7)) & 1 == 0 {
            contains = false;
        }
        i += 1;
    }
    let snapshot = NtpSourceSnapshot {
        source_addr: SocketAddr::new(IpAddr::V4(Ipv4Addr::new(192, 0, 2, 1)), 123),
        source_id: ih::refid_from_raw(c.source_id),
        poll_interval: poll(6),
        reach: sh::reach_from_raw(c.reach),
        stratum: c.stratum,
        reference_id: ih::refid_from_raw(c.reference_id),
        protocol_version: ProtocolVersion::V5,
        bloom_filter: if c.has_bloom { Some(bh::bloom_from_bytes(bytes)) } else { None },
    };
    let ips_all = [
        IpAddr::V4(Ipv4Addr::new(c.ip0[0], c.ip0[1], c.ip0[2], c.ip0[3])),
        IpAddr::V4(Ipv4Addr::new(c.ip1[0], c.ip1[1], c.ip1[2], c.ip1[3])),
    ];
    let ips = &ips_all[..c.n_ips as usize];
    let res = snapshot.accept_synchronization(c.local_stratum, ips, bh::server_id_from_raw(c.sid));
    (res, c.has_bloom && contains)
}

/// The two loop situations the property names explicitly (both were accepted before the fixes
/// f6bea43: the code compared `source_id` only, and not at all when stratum == 1):
///  (a) the source names one of this daemon's addresses as ITS reference (it synchronises to us)
///      at stratum > 1;
///  (b) the source IS this daemon (source id = a local address) and reports stratum 1.
fn loop_by_refid(c: &AcceptCase) -> bool {
    c.stratum > 1 && is_local(c, c.reference_id)
}
fn self_at_stratum1(c: &AcceptCase) -> bool {
    c.stratum == 1 && is_local(c, c.source_id)
}

fn check_accept(c: &AcceptCase) -> bool {
    let (res, bloom_contains) = run_accept(c);
    let ok = res.is_ok();
    if ok {
        assert!(c.stratum < c.local_stratum, "used source has a stratum below the local stratum");
        assert!(c.reach != 0, "used source is reachable");
        assert!(!is_local(c, c.source_id), "used source is not this daemon itself");
        assert!(!(c.stratum > 1 && is_local(c, c.reference_id)), "used source (stratum > 1) does not name this daemon as its reference");
        assert!(!bloom_contains, "used source's Bloom filter does not contain this daemon's server id");
    }
    // a loop is reported as a loop (unless the stratum check already rejected the source)
    if c.stratum < c.local_stratum && (is_local(c, c.source_id) || loop_by_refid(c) || bloom_contains) {
        assert!(res == Err(AcceptSynchronizationError::Loop), "a source that is this daemon or synchronises to it is rejected as a loop");
    }
    ok
}

harness! {
    #[kani::unwind(12)]
    fn c33_accept() {
        let c = any_case();
        let ok = check_accept(&c);
        kani::cover!(ok, "a source is accepted");
        kani::cover!(ok && c.has_bloom && c.n_ips == 2 && c.stratum > 1, "accepted with filter and two local addresses");
        kani::cover!(!ok && c.has_bloom && c.reach != 0 && c.stratum < c.local_stratum && !is_local(&c, c.source_id) && !loop_by_refid(&c), "rejected because of the Bloom filter");
        kani::cover!(!ok && is_local(&c, c.source_id) && c.reach != 0 && c.stratum < c.local_stratum, "rejected as self");
    }
}

harness! {
    #[kani::unwind(12)]
    fn c33_accept_refid() {
        let c = any_case();
        kani::assume(loop_by_refid(&c));
        let ok = check_accept(&c);
        assert!(!ok, "a source at stratum > 1 whose reference id is a local address is never used");
        kani::cover!(c.stratum < c.local_stratum && c.reach != 0 && !c.has_bloom && !is_local(&c, c.source_id), "rejected only because of its reference id");
        kani::cover!(c.n_ips == 2 && c.reference_id == local_id(c.ip1) && c.reference_id != local_id(c.ip0), "second local address");
    }
}

harness! {
    #[kani::unwind(12)]
    fn c33_accept_self_stratum1() {
        let c = any_case();
        kani::assume(self_at_stratum1(&c));
        let ok = check_accept(&c);
        assert!(!ok, "this daemon itself is never used, also when it reports stratum 1");
        kani::cover!(c.local_stratum > 1 && c.reach != 0 && !c.has_bloom, "rejected only because it is this daemon");
    }
}

// ------------------------------------------------------------------------------------------
// c33_adv: what the daemon advertises.

struct Src {
    external: bool,
    stratum: u8,
    source_id: u32,
    v5: bool,
}

fn any_src() -> Src {
    Src { external: kani::any(), stratum: kani::any(), source_id: kani::any(), v5: kani::any() }
}

/// Used sources carry no Bloom filter here: the union of the sources' filters is a 512-iteration
/// loop per source (C34's subject); stratum and reference id do not depend on it.
fn to_snapshot(s: &Src) -> sh::SourceSnapshot {
    if s.external {
        sh::SourceSnapshot::External { stratum: s.stratum, source_id: ih::refid_from_raw(s.source_id) }
    } else {
        sh::SourceSnapshot::Ntp(NtpSourceSnapshot {
            source_addr: SocketAddr::new(IpAddr::V4(Ipv4Addr::new(192, 0, 2, 1)), 123),
            source_id: ih::refid_from_raw(s.source_id),
            poll_interval: poll(6),
            reach: sh::reach_from_raw(1),
            stratum: s.stratum,
            reference_id: ih::refid_from_raw(0x0102_0304),
            protocol_version: if s.v5 { ProtocolVersion::V5 } else { ProtocolVersion::V4 },
            bloom_filter: None,
        })
    }
}

harness! {
    #[kani::unwind(12)]
    fn c33_adv() {
        let n: u8 = kani::any();
        kani::assume(n <= 2);
        let local_stratum: u8 = kani::any();
        let s0 = any_src();
        let s1 = any_src();

        let all = [to_snapshot(&s0), to_snapshot(&s1)];
        let snap = NtpSnapshot::from_used_sources(local_stratum, bh::server_id_fixed(), all.into_iter().take(n as usize));

        let none_id: u32 = u32::from_be_bytes(*b"XNON");
        if n == 0 {
            assert!(snap.stratum == local_stratum, "no source: the configured local stratum is advertised");
            assert!(ih::refid_raw(snap.reference_id) == none_id, "no source: no reference id");
        } else {
            let want = if s0.stratum == 255 { 255 } else { s0.stratum + 1 };
            assert!(snap.stratum == want, "advertised stratum = primary source's stratum + 1 (saturating)");
            assert!(ih::refid_raw(snap.reference_id) == s0.source_id, "advertised reference id = primary source's identifier");
        }
        // this daemon's own id is always in the advertised filter (ids 1..=10 -> bits 1..=10)
        let fb = snap.bloom_filter.as_bytes();
        assert!(fb[0] == 0xFE && fb[1] == 0x07, "own server id is in the advertised filter");

        kani::cover!(n == 2 && s0.stratum == 255, "saturation");
        kani::cover!(n == 2 && s0.external && !s1.external && s1.v5, "external primary, NTPv5 secondary");
        kani::cover!(n == 0, "no sources");
        kani::cover!(n == 1 && !s0.external && s0.stratum == 2, "one NTP source");
    }
}
