NP = "ntp_proto_h"
_quick_scale = ["i8", "u8", "i16", "u16", "i32", "u32", "i64", "isize"]
_wide = ["wide_i8", "wide_u16"]  # wide_i32 / wide_i64 (constants 1e6, 1e9+7, MAX) exceed the 40 min cap: not registered
PROP = dict(
    functions=[
        "ntp_proto::time_types::NtpTimestamp::{add,add_assign,sub,sub_assign,sub<NtpTimestamp>,is_before,truncated_second_bits,from_bits,to_bits,from_seconds_nanos_since_ntp_era}",
        "ntp_proto::time_types::NtpDuration::{add,sub,neg,abs,abs_diff,mul<i8..u32,i64,isize>,div<..>,mul_assign,div_assign,from_seconds,from_bits_short,to_bits_short,from_bits_time32,to_bits_time32,as_seconds_nanos,from_exponent,log2}",
        "ntp_proto::time_types::PollInterval::as_duration, NtpDuration * FrequencyTolerance",
        "statime_base::time_types::{Timestamp<TAI>,Duration} operator impls and constructors",
    ],
    bounds="all 64-bit timestamps and durations for add/sub/neg/abs/wire formats/conversion from seconds (all finite f64); scaling: every 64-bit duration x a list of constant scalars per scalar type (0, +-1, 2, MIN, MAX, and non-powers-of-two in the thorough tier) plus symbolic 8-bit scalar x 12..20-bit duration against a shift-add reference; all 128-bit PTP values for add/sub/timestamp laws; PTP scaling is not decided (see outside). Code is loop-free: no unwinding bound involved.",
    outside="PTP (128-bit) duration scaling, the seconds/nanos constructor division by 1e9, duration * FrequencyTolerance and division by non-power-of-two 64-bit constants: harnesses exist in c32.rs but exceed the 40-minute cap (not registered); symbolic-by-symbolic 64-bit scaling against an independent reference (multiplier/divider equivalence does not terminate: measured 145 s for one query, >10 min overall); PTP scaling by 32/64-bit scalars; division by zero (documented precondition); Debug formatting",
    assumptions=["nanos < 1e9 for the seconds/nanos constructors (documented precondition, debug_assert in the code)", "divisor != 0",
                 "reference for saturating scaling uses std checked_mul/checked_div (same circuit on both sides), so the solver decides the repo's saturation/cast/sign logic, not CBMC's multiplier"],
    harnesses=[
        H(NP, "c32", "c32_ts_sub_add", "timestamp difference is the shortest signed difference across eras and adds back"),
        H(NP, "c32", "c32_ts_add_dur", "timestamp +/- duration wraps modulo 2^64"),
        H(NP, "c32", "c32_ts_bits_truncate", "timestamp wire round trip, truncation"),
        H(NP, "c32", "c32_dur_add_sub", "duration add/sub saturate (i128 reference)"),
        H(NP, "c32", "c32_dur_neg_abs", "negation/abs/abs_diff saturate and never panic"),
    ] + [H(NP, "c32", "c32_dur_scale_" + t, "duration * and / %s constants (0, +-1, 2, MIN) saturate, never panic" % t) for t in _quick_scale] + [
        H(NP, "c32", "c32_dur_scale_" + t, "duration * and / non-power-of-two constants", tier="thorough", timeout_thorough=2400) for t in _wide] + [
        H(NP, "c32", "c32_dur_div_small", "symbolic i8 divisor, 20-bit dividend"),
        H(NP, "c32", "c32_dur_mul_small", "symbolic i8 factor, 12-bit duration, shift-add reference"),
        H(NP, "c32", "c32_from_seconds_sign_saturation", "from_seconds preserves sign and saturates for all finite f64"),
        H(NP, "c32", "c32_from_seconds_monotone_units", "from_seconds keeps integer seconds exact"),
        H(NP, "c32", "c32_roundtrip_small", "from_seconds(to_seconds(d)) within 1 ppb + 1 unit, |d| < 2^33 units"),
        H(NP, "c32", "c32_roundtrip_full", "from_seconds(to_seconds(d)) within 1 ppb + 1 unit, all 64-bit durations"),
        H(NP, "c32", "c32_wire_short_time32", "short and time32 wire encodings round-trip within one unit, saturate"),
        H(NP, "c32", "c32_dur_misc", "as_seconds_nanos, from_exponent, log2, poll interval duration"),
        H(NP, "c32", "c32_ptp_ts", "PTP timestamp wrap laws (128-bit)"),
        H(NP, "c32", "c32_ptp_dur_add_sub", "PTP duration saturating add/sub"),
        H(NP, "c32", "c32_ptp_ctor", "PTP constructors"),
    ],
)
