//! C30 NTS-KE messages are parsed totally, boundedly and round-trip.
//!
//! The parsers are `async fn`s over `tokio::io::AsyncRead`. All readers used here are in-memory and
//! always ready, so the futures complete in the first `poll` with a no-op waker
//! (`block_on_ready` asserts that).
//!
//! Oracles are written from RFC 8915 section 4 / the property text, not from the code:
//!   * a record is `type(2, top bit = critical) | body length(2) | body`;
//!   * Error/Warning/Port bodies are exactly one u16, id lists are whole u16s, algorithm
//!     descriptions whole u16 pairs, fixed keys two halves of equal length, names are UTF-8;
//!   * an accepted record was completely present in the input and was consumed exactly;
//!   * re-serialising an accepted record reproduces the consumed bytes (up to the critical bit
//!     of known types and the ignored bodies of EndOfMessage/KeepAlive) and parses back equal.
use crate::stubs;
use ntp_proto::verif::nts::messages::{KeRequest, Response};
use ntp_proto::verif::nts::record::Record;
use ntp_proto::verif::nts::{Aead, KeErrorCode, KeWarningCode};
use std::borrow::Cow;
use std::future::Future;
use std::pin::{Pin, pin};
use std::task::{Context, Poll, Waker};
use tokio::io::{AsyncRead, ReadBuf};

/// Poll a future once with a no-op waker; every reader/writer in this module is always ready.
/// The completed future is deliberately not dropped: the drop glue of an `async fn` state machine
/// switches over all suspension points and drops every possible sub-future (for
/// `NtsRecord::parse` that is 15 sub-parsers with their buffers), which costs more symbolic
/// execution than the parse itself (measured: 36 s -> see registry notes). A completed future
/// owns nothing any more, so nothing is leaked that matters.
pub fn block_on_ready<F: Future>(fut: F) -> F::Output {
    let mut fut = std::mem::ManuallyDrop::new(fut);
    // Safety: `fut` is a local that is never moved again (and never dropped).
    let pinned = unsafe { Pin::new_unchecked(&mut *fut) };
    let mut cx = Context::from_waker(Waker::noop());
    match pinned.poll(&mut cx) {
        Poll::Ready(v) => v,
        Poll::Pending => panic!("in-memory future was not ready at the first poll"),
    }
}

/// Loop-free equality of byte strings of at most 12 bytes (keeps the unwinding bound small).
fn eq_bytes(a: &[u8], b: &[u8]) -> bool {
    let n = a.len();
    n == b.len()
        && n <= 12
        && (n < 1 || a[0] == b[0])
        && (n < 2 || a[1] == b[1])
        && (n < 3 || a[2] == b[2])
        && (n < 4 || a[3] == b[3])
        && (n < 5 || a[4] == b[4])
        && (n < 6 || a[5] == b[5])
        && (n < 7 || a[6] == b[6])
        && (n < 8 || a[7] == b[7])
        && (n < 9 || a[8] == b[8])
        && (n < 10 || a[9] == b[9])
        && (n < 11 || a[10] == b[10])
        && (n < 12 || a[11] == b[11])
}

fn be16(b: &[u8], at: usize) -> u16 {
    ((b[at] as u16) << 8) | b[at + 1] as u16
}

/// Serialise into a fixed buffer (no Vec growth); returns the number of bytes written.
fn serialize_record(r: &Record<'_>, out: &mut [u8]) -> Option<usize> {
    let mut cur = std::io::Cursor::new(out);
    match block_on_ready(r.serialize(&mut cur)) {
        Ok(()) => Some(cur.position() as usize),
        Err(e) => {
            std::mem::forget(e);
            None
        }
    }
}


/// In-memory reader: a 4-byte record header that is always completely available (copied with
/// concrete lengths, so that a concrete record type stays concrete for the parser's dispatch)
/// followed by a body of symbolic length. Always ready.
pub struct HeadBody<'a> {
    pub head: [u8; 4],
    pub head_pos: usize,
    pub body: &'a [u8],
    pub body_pos: usize,
}
/// Append `src` to the read buffer with plain byte stores. (`ReadBuf::put_slice` is a `memcpy`,
/// which CBMC models with array constraints that hide constants from symbolic execution; then
/// the record type and length read back by the parser are no longer constants, the dispatch is
/// not pruned and every read loop unwinds to the bound.)
fn put_bytes(buf: &mut ReadBuf<'_>, src: &[u8]) {
    let n = src.len();
    assert!(n <= buf.remaining());
    assert!(n <= 8);
    let dst = buf.initialize_unfilled_to(n);
    // unrolled by hand: independent of the harness' unwinding bound
    if n > 0 { dst[0] = src[0]; }
    if n > 1 { dst[1] = src[1]; }
    if n > 2 { dst[2] = src[2]; }
    if n > 3 { dst[3] = src[3]; }
    if n > 4 { dst[4] = src[4]; }
    if n > 5 { dst[5] = src[5]; }
    if n > 6 { dst[6] = src[6]; }
    if n > 7 { dst[7] = src[7]; }
    buf.advance(n);
}
impl AsyncRead for HeadBody<'_> {
    fn poll_read(mut self: Pin<&mut Self>, _cx: &mut Context<'_>, buf: &mut ReadBuf<'_>) -> Poll<std::io::Result<()>> {
        if self.head_pos < 4 {
            let n = std::cmp::min(4 - self.head_pos, buf.remaining());
            let p = self.head_pos;
            put_bytes(buf, &self.head[p..p + n]);
            self.head_pos += n;
        } else {
            let n = std::cmp::min(self.body.len() - self.body_pos, buf.remaining());
            let p = self.body_pos;
            put_bytes(buf, &self.body[p..p + n]);
            self.body_pos += n;
        }
        Poll::Ready(Ok(()))
    }
}

// -------------------------------------------------------------------------------------------
// c30_record_*: one record. Concrete per call: record type and critical bit (a symbolic type
// makes symbolic execution walk all 15 sub-parsers for every input). Symbolic: the announced body
// length (0..=65535), the body bytes and how many of them are available (0..=NB).
// Truncated headers: c30_record_short_header.
fn record_body<const NB: usize>(ty: u16, crit: bool) {
    let body_bytes: [u8; NB] = kani::any();
    let size_field: usize = kani::any();
    let blen: usize = kani::any();
    kani::assume(blen <= NB && size_field <= 65535);
    // header bytes are built from the concrete parameters only (kept apart from the symbolic body
    // so that they stay constants for the parser's dispatch and length handling)
    let head = [(ty >> 8) as u8 | if crit { 0x80 } else { 0 }, ty as u8, (size_field >> 8) as u8, size_field as u8];
    let len = 4 + blen;
    let mut bytes = [0u8; 16];
    bytes[..4].copy_from_slice(&head);
    bytes[4..4 + NB].copy_from_slice(&body_bytes);
    let mut rd = HeadBody { head, head_pos: 0, body: &body_bytes[..blen], body_pos: 0 };
    let res = block_on_ready(Record::parse(&mut rd));
    let consumed = rd.head_pos + rd.body_pos;
    assert!(consumed <= len, "never reads past the input");
    match res {
        Err(e) => {
            // (dropping an `io::Error` walks the drop glue of every `dyn Error` in the program)
            std::mem::forget(e);
            kani::cover!(size_field > blen, "rejected: announced body not completely present");
            // Independent completeness spot checks (RFC 8915): a complete opaque record
            // (NewCookie, unknown type) is never rejected.
            if size_field + 4 <= len {
                assert!(ty != 5 && ty != 11 && ty < 15, "complete opaque record rejected");
            }
        }
        Ok(r) => {
            let critical = crit;
            let size = size_field;
            assert!(4 + size <= len, "accepted a record whose announced body is not completely present");
            assert!(consumed == 4 + size, "an accepted record is consumed exactly (header + announced body)");
            let body = &bytes[4..4 + size];
            // per-type body shape (RFC 8915 section 4.1)
            match ty {
                2 | 3 | 7 => assert!(size == 2, "Error/Warning/Port body must be exactly one u16"),
                1 | 4 | 9 => assert!(size % 2 == 0, "id list body must be whole u16s"),
                10 => assert!(size % 4 == 0, "algorithm description list must be whole (id,keysize) pairs"),
                12 => assert!(size % 2 == 0, "fixed key request carries two keys of equal length"),
                6 | 13 | 14 => assert!(std::str::from_utf8(body).is_ok(), "name bodies must be UTF-8"),
                _ => {}
            }
            // Value checks against the wire bytes. The variant is determined by the (concrete) type;
            // the value is re-materialised with a constant discriminant so that `serialize` and `==`
            // below are executed for this one variant only (the discriminant of the parser's result
            // is opaque to symbolic execution, which would otherwise walk all 15 serialiser arms).
            macro_rules! bad {
                () => {{
                    assert!(false, "record type parsed into the wrong variant");
                    return;
                }};
            }
            let r: Record<'_> = match ty {
                0 => match r {
                    Record::EndOfMessage => Record::EndOfMessage,
                    other => {
                        std::mem::forget(other);
                        bad!()
                    }
                },
                8 => match r {
                    Record::KeepAlive => Record::KeepAlive,
                    other => {
                        std::mem::forget(other);
                        bad!()
                    }
                },
                7 => match r {
                    Record::Port { port } => {
                        assert!(port == be16(body, 0), "port value");
                        Record::Port { port }
                    }
                    other => {
                        std::mem::forget(other);
                        bad!()
                    }
                },
                2 => match r {
                    Record::Error { errorcode } => {
                        assert!(u16::from(errorcode) == be16(body, 0), "error code value");
                        Record::Error { errorcode }
                    }
                    other => {
                        std::mem::forget(other);
                        bad!()
                    }
                },
                3 => match r {
                    Record::Warning { warningcode } => {
                        assert!(u16::from(warningcode) == be16(body, 0), "warning code value");
                        Record::Warning { warningcode }
                    }
                    other => {
                        std::mem::forget(other);
                        bad!()
                    }
                },
                5 => match r {
                    Record::NewCookie { cookie_data } => {
                        assert!(eq_bytes(cookie_data.as_ref(), body), "cookie bytes");
                        Record::NewCookie { cookie_data }
                    }
                    other => {
                        std::mem::forget(other);
                        bad!()
                    }
                },
                6 => match r {
                    Record::Server { name } => {
                        assert!(eq_bytes(name.as_bytes(), body), "server name bytes");
                        Record::Server { name }
                    }
                    other => {
                        std::mem::forget(other);
                        bad!()
                    }
                },
                13 => match r {
                    Record::NtpServerDeny { denied } => {
                        assert!(eq_bytes(denied.as_bytes(), body), "denied name bytes");
                        Record::NtpServerDeny { denied }
                    }
                    other => {
                        std::mem::forget(other);
                        bad!()
                    }
                },
                14 => match r {
                    Record::Authentication { key } => {
                        assert!(eq_bytes(key.as_bytes(), body), "authentication key bytes");
                        Record::Authentication { key }
                    }
                    other => {
                        std::mem::forget(other);
                        bad!()
                    }
                },
                12 => match r {
                    Record::FixedKeyRequest { c2s, s2c } => {
                        assert!(c2s.len() == size / 2 && s2c.len() == size / 2, "key halves");
                        assert!(eq_bytes(c2s.as_ref(), &body[..size / 2]) && eq_bytes(s2c.as_ref(), &body[size / 2..]), "key bytes");
                        Record::FixedKeyRequest { c2s, s2c }
                    }
                    other => {
                        std::mem::forget(other);
                        bad!()
                    }
                },
                4 => match r {
                    Record::AeadAlgorithm { algorithm_ids } => {
                        assert!(algorithm_ids.len() == size / 2, "algorithm id count");
                        if size >= 2 {
                            assert!(u16::from(algorithm_ids[0]) == be16(body, 0), "algorithm id value");
                        }
                        if size >= 4 {
                            assert!(u16::from(algorithm_ids[1]) == be16(body, 2), "algorithm id value");
                        }
                        Record::AeadAlgorithm { algorithm_ids }
                    }
                    other => {
                        std::mem::forget(other);
                        bad!()
                    }
                },
                // element types of these three lists are private to ntp-proto: cannot be rebuilt
                // here; their values are checked through the serialised bytes below
                1 => match r {
                    Record::NextProtocol { .. } => r,
                    other => {
                        std::mem::forget(other);
                        bad!()
                    }
                },
                9 => match r {
                    Record::SupportedNextProtocolList { .. } => r,
                    other => {
                        std::mem::forget(other);
                        bad!()
                    }
                },
                10 => match r {
                    Record::SupportedAlgorithmList { .. } => r,
                    other => {
                        std::mem::forget(other);
                        bad!()
                    }
                },
                _ => match r {
                    Record::Unknown { record_type, critical: c, data } => {
                        assert!(record_type == ty && c == critical && eq_bytes(data.as_ref(), body), "unknown record fields");
                        Record::Unknown { record_type, critical: c, data }
                    }
                    other => {
                        std::mem::forget(other);
                        bad!()
                    }
                },
            };
            // re-serialise: reproduces the consumed bytes and parses back to the same value
            let mut out = [0u8; 16];
            let n = serialize_record(&r, &mut out);
            assert!(n.is_some(), "an accepted record can be serialised");
            let n = n.unwrap();
            assert!(be16(&out, 0) & 0x7fff == ty, "record type preserved");
            if ty == 11 || ty >= 15 {
                assert!((out[0] & 0x80 != 0) == critical, "critical bit of unknown records preserved");
            }
            if ty == 0 || ty == 8 {
                assert!(n == 4 && be16(&out, 2) == 0, "EndOfMessage/KeepAlive serialise with an empty body");
            } else {
                assert!(n == 4 + size, "serialised length equals consumed length");
                assert!(eq_bytes(&out[2..n], &bytes[2..n]), "serialised length field and body equal the consumed bytes");
            }
            // (header bytes rebuilt from the concrete type so that the dispatch stays concrete; their
            // equality with `out` is asserted above / here)
            let crit2 = out[0] & 0x80 != 0;
            let h0 = (ty >> 8) as u8;
            assert!(out[0] & 0x7f == h0 && out[1] == ty as u8);
            let mut rd2 = HeadBody { head: [if crit2 { h0 | 0x80 } else { h0 }, ty as u8, out[2], out[3]], head_pos: 0, body: &out[4..n], body_pos: 0 };
            let back = if crit2 {
                rd2.head[0] = h0 | 0x80;
                block_on_ready(Record::parse(&mut rd2))
            } else {
                rd2.head[0] = h0;
                block_on_ready(Record::parse(&mut rd2))
            };
            match back {
                Ok(r2) => {
                    assert!(r2 == r, "serialise . parse is the identity on accepted records");
                    std::mem::forget(r2);
                }
                Err(e) => {
                    std::mem::forget(e);
                    assert!(false, "re-serialised record is rejected");
                }
            }
            assert!(rd2.head_pos + rd2.body_pos == n, "re-parse consumes the whole serialisation");
            kani::cover!(size == NB || ((ty == 2 || ty == 3 || ty == 7) && size == 2), "accepted a record with the largest body in bounds");
            kani::cover!(crit, "accepted with the critical bit set");
            kani::cover!(!crit, "accepted with the critical bit clear");
            std::mem::forget(r);
        }
    }
}

macro_rules! record_harness {
    ($name:ident, $ty:expr, $n:expr, $unwind:expr) => {
        #[kani::proof]
        #[kani::unwind($unwind)]
        fn $name() {
            record_body::<$n>($ty, false);
            record_body::<$n>($ty, true);
        }
    };
}
record_harness!(c30_record_00_end_of_message, 0, 8, 14);
record_harness!(c30_record_01_next_protocol, 1, 4, 4);
record_harness!(c30_record_02_error, 2, 4, 14);
record_harness!(c30_record_03_warning, 3, 4, 14);
record_harness!(c30_record_04_aead_algorithm, 4, 8, 14);
record_harness!(c30_record_05_new_cookie, 5, 8, 14);
record_harness!(c30_record_06_server, 6, 4, 14);
record_harness!(c30_record_07_port, 7, 4, 4);
record_harness!(c30_record_08_keep_alive, 8, 8, 14);
record_harness!(c30_record_09_supported_protocols, 9, 8, 14);
record_harness!(c30_record_10_supported_algorithms, 10, 8, 14);
record_harness!(c30_record_11_unassigned, 11, 8, 14);
record_harness!(c30_record_12_fixed_key_request, 12, 8, 14);
record_harness!(c30_record_13_server_deny, 13, 4, 14);
record_harness!(c30_record_14_authentication, 14, 4, 14);
record_harness!(c30_record_15_unknown_low, 15, 8, 14);
record_harness!(c30_record_7fff_unknown_high, 0x7fff, 8, 14);
record_harness!(c30_record_4d2_unknown_mid, 0x04d2, 8, 14);

/// Truncated headers (0..=3 bytes available): always an error, nothing beyond the input consumed.
#[kani::proof]
#[kani::unwind(8)]
fn c30_record_short_header() {
    let bytes: [u8; 3] = kani::any();
    let mut len = 0;
    while len < 4 {
        let mut rd: &[u8] = &bytes[..len];
        let res = block_on_ready(Record::parse(&mut rd));
        assert!(res.is_err(), "accepted a record without a complete header");
        len += 1;
    }
}


#[kani::proof]
#[kani::unwind(4)]
fn probe_port_min() {
    let body_bytes: [u8; 4] = kani::any();
    let size_field: usize = kani::any();
    let blen: usize = kani::any();
    kani::assume(blen <= 4 && size_field <= 65535);
    let head = [0x80, 7, (size_field >> 8) as u8, size_field as u8];
    let mut rd = HeadBody { head, head_pos: 0, body: &body_bytes[..blen], body_pos: 0 };
    let res = block_on_ready(Record::parse(&mut rd));
    match res {
        Ok(r) => {
            assert!(size_field == 2 && blen >= 2);
            std::mem::forget(r);
        }
        Err(e) => std::mem::forget(e),
    }
}

async fn my_port(mut reader: tokio::io::Take<impl AsyncRead + Unpin>) -> Result<u16, std::io::Error> {
    use tokio::io::AsyncReadExt;
    let port = reader.read_u16().await?;
    if reader.limit() != 0 { Err(std::io::ErrorKind::InvalidData.into()) } else { Ok(port) }
}
async fn my_parse(mut reader: impl AsyncRead + Unpin) -> Result<u16, std::io::Error> {
    use tokio::io::AsyncReadExt;
    let ty = reader.read_u16().await?;
    let size = reader.read_u16().await?;
    let body = reader.take(size.into());
    match ty & 0x7fff {
        7 => my_port(body).await,
        _ => Err(std::io::ErrorKind::InvalidData.into()),
    }
}
#[kani::proof]
#[kani::unwind(4)]
fn probe_port_mine() {
    let body_bytes: [u8; 4] = kani::any();
    let size_field: usize = kani::any();
    let blen: usize = kani::any();
    kani::assume(blen <= 4 && size_field <= 65535);
    let head = [0x80, 7, (size_field >> 8) as u8, size_field as u8];
    let mut rd = HeadBody { head, head_pos: 0, body: &body_bytes[..blen], body_pos: 0 };
    let res = block_on_ready(my_parse(&mut rd));
    match res {
        Ok(r) => {
            assert!(size_field == 2 && blen >= 2);
        }
        Err(e) => std::mem::forget(e),
    }
}
