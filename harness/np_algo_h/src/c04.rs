//! Harnesses for property C04 (see /verif/properties.jsonl): the leap indicator is the one a
//! strict majority of the selected sources report, ignoring sources whose status is unknown.
use crate::common::*;
use crate::stubs;
use ntp_proto::verif::algorithm::kalman as kh;
use ntp_proto::verif::time_types as tt;
use ntp_proto::{NtpDuration, NtpLeapIndicator, NtpTimestamp};

pub fn snap_with_leap(index: u64, leap: NtpLeapIndicator) -> kh::SnapH {
    kh::snapshot_from_raw(
        index,
        [0.0, 0.0],
        [[0.0, 0.0], [0.0, 0.0]],
        tt::ts_from_raw(0),
        0.0,
        0.0,
        None,
        tt::dur_from_raw(0),
        tt::dur_from_raw(0),
        leap,
        tt::ts_from_raw(0),
    )
}

const N: usize = 6;

// `vote_leap` on up to 6 selected sources with arbitrary leap values (selection never contains
// `Unsynchronized`: asserted by c03_select).
#[kani::proof]
#[kani::unwind(8)]
fn c04_vote() {
    let n: usize = kani::any();
    kani::assume(n <= N);
    let codes: [u8; N] = kani::any();
    let mut sel = kh::SnapVecH::with_capacity(N);
    // independent recount
    let mut cnt = [0usize; 4];
    let mut i = 0;
    while i < N {
        kani::assume(codes[i] <= 3);
        sel.push(snap_with_leap(i as u64 + 1, leap_from_code(codes[i])));
        if i < n {
            cnt[codes[i] as usize] += 1;
        }
        i += 1;
    }
    sel.truncate(n);
    let got = kh::combiner::vote_leap_hook(&sel);
    let known = n - cnt[3];
    // strict majority among the sources whose leap status is known
    let mut want: Option<u8> = None;
    let mut k = 0u8;
    while k < 3 {
        if 2 * cnt[k as usize] > known {
            assert!(want.is_none(), "two strict majorities are impossible");
            want = Some(k);
        }
        k += 1;
    }
    match (got, want) {
        (Some(l), Some(w)) => assert!(leap_code(l) == w, "the announced leap indicator is the majority's"),
        (None, None) => {}
        (Some(_), None) => assert!(false, "a leap indicator is announced without a strict majority"),
        (None, Some(_)) => assert!(false, "a strict majority is ignored"),
    }
    kani::cover!(got == Some(NtpLeapIndicator::Leap61) && cnt[3] > 0 && 2 * cnt[1] <= n, "Leap61 wins only because unknown votes are ignored");
    kani::cover!(got == Some(NtpLeapIndicator::Leap59) && n == 6, "Leap59 majority of six");
    kani::cover!(got.is_none() && n == 4 && cnt[0] == 2 && cnt[1] == 2, "tie gives no announcement");
    kani::cover!(got.is_none() && known == 0 && n > 0, "all unknown gives no announcement");
    kani::cover!(got == Some(NtpLeapIndicator::NoWarning) && n == 1, "single source");
}
