NP = "np_algo_h"
_EXIT = "std::process::exit -> common::exit_stub: records 'the daemon stopped', asserts that no step_clock call preceded it, ends the path (inert in native replay)"
PROP = dict(
    extractors=['step_clock_call_sites', 'in_startup_only_cleared'],
    functions=[
        "ntp_proto::algorithm::kalman::KalmanClockController::<RecClock>::{steer_offset, check_offset_steer, new} (real code, reached through hooks; RecClock = recording NtpClock of the harness crate)",
        "ntp_proto::config::StepThreshold::is_within, ntp_proto::time_types::NtpDuration::{from_seconds, abs, add_assign, neg, partial_cmp}",
        "call-site census (syntactic, by reading: `grep -rn 'step_clock(' /repo --include=*.rs`): in ntp-proto the only caller of NtpClock::step_clock is KalmanClockController::steer_offset (algorithm/kalman/mod.rs:279), which is only called from update_clock; other callers in the repository are outside this property: ntpd/src/force_sync/mod.rs:99 (ntp-ctl force-sync, interactive), ntpd/src/daemon/clock.rs:46 (the libc adapter implementing the trait), statime-algo/src/lib.rs:359 (PTP, property C43). `in_startup` is assigned only in new() (true) and update_clock (false).",
    ],
    bounds="one correction (one call of steer_offset / check_offset_steer) from an arbitrary pre-state: arbitrary in_startup, accumulated_steps >= 0, startup and single-step thresholds forward/backward in {None, Some(d >= 0)} (all i64 duration units), accumulated limit None | Some(any i64), arbitrary step_threshold, arbitrary finite freq_delta, empty source map. c01_step/c01_check (quick): real from_seconds, correction = any whole number of seconds s in i32 or 256*s (covers both saturating arms; expected amount known in integer arithmetic); c01_step_any (quick): any finite f64 correction with the f64->duration conversion replaced by an arbitrary deterministic function (any i64 result); c01_step_real/c01_check_real (thorough): any finite f64 correction with the real conversion",
    outside="how measurement histories produce `change` (Kalman filter, C06 territory); the link update_clock -> steer_offset beyond the call-site census; per-source state updates after a step (source map is empty); ntpd/src/daemon/clock.rs (libc adapter); ntp-ctl force-sync; what the f64 -> duration conversion computes (C32)",
    assumptions=[
        "thresholds and accumulated_steps are non-negative durations (configuration parser guarantees; -v overflows for v = i64::MIN in the dev profile)",
        "|change| > step_threshold for the step harnesses (the slew branch is c01_slew_no_step)",
        "c01_slew_no_step: assumptions of C02's slew set-up (non-zero correction, representable slew duration, kernel frequency != -1)",
    ],
    stub_notes=[
        _EXIT,
        "c01_step_any only: ntp_proto::NtpDuration::from_seconds -> c01::from_seconds_uf (arbitrary deterministic function: same input, same output)",
        "c01_slew_no_step: std::time::Duration::from_secs_f64 -> c02::duration_from_secs_f64_stub (same domain check; an unrepresentable duration ends the path = the real function panics)",
    ],
    harnesses=[
        H(NP, "c01", "c01_step", "steer_offset, step branch, real conversion: every step_clock(d) obeys the thresholds in force at the moment of the call, accumulated' = accumulated + |d| <= limit, d is the requested amount, no step before an exit", timeout=600),
        H(NP, "c01", "c01_step_any", "same oracle for an arbitrary finite correction and an arbitrary converted amount (conversion uninterpreted)", timeout=600),
        H(NP, "c01", "c01_check", "check_offset_steer returns only for allowed corrections and has then accumulated |d|", timeout=600),
        H(NP, "c01", "c01_slew_no_step", "slew branch: no step, no exit, nothing accumulated", timeout=600),
        H(NP, "c01", "c01_init", "after new(): accumulated_steps == 0, in_startup, limit published, clock untouched"),
        H(NP, "c01", "c01_step_real", "steer_offset step branch, any finite correction, real conversion (three copies of the conversion circuit)", tier="thorough", timeout=1800),
        H(NP, "c01", "c01_check_real", "check_offset_steer, any finite correction, real conversion", tier="thorough", timeout=1800),
        H("np_algo_h", "cupd", "cupd_consensus_step", "update_clock control logic (select/combine replaced by environment models): steps obey the thresholds, startup ends unconditionally after a consensus", timeout=900, native_check="native::native_consensus_leaves_startup"),
    H("np_algo_h", "cupd", "cupd_no_consensus", "update_clock without consensus touches neither clock nor startup flag", timeout=600),
],
)
