NS = "np_source_h"
_stubs = [
    "std::collections::HashMap::insert on the source's own publication map = no-op (hashbrown does not finish symbolically)",
    "core::str::from_utf8 = unchecked Ok (the only caller, the NTPv5 draft-identification decoder, re-checks is_ascii and rejects non-ASCII exactly like invalid UTF-8)",
    "core::slice::ascii::is_ascii = the same predicate as a plain loop (the SSE2 path does not finish symbolically)",
    "the drained action iterator returned by handle_incoming/handle_timer is leaked (mem::forget) instead of dropped: Kani 0.68 leaves the capacity of the empty vec![] iterator on the accept path unconstrained and reports a spurious __rust_dealloc failure",
]
_bounds48 = ("one handle_incoming, plain (non-NTS) NtpSource<RecCtl> with SourceConfig::default(); pre-state: protocol_version any of V4 / V4UpgradingToV5{1..=8} / UpgradedToV5 / V5, "
             "pending request none or (any 64-bit id, no uid, deadline = clock reading +/- d with 1.25 s <= d < 2^20 s), reach any u8, tries any usize, last/remote-min poll any i8 (remote-min <= 126), deny flag any; "
             "clock: one arbitrary instant for all readings of a run (the deadline is arbitrary relative to it); packet: 48 bytes, octets 1..47 symbolic, octet 0 (LI|VN|Mode) dispatched over literal values")
PROP = dict(
    functions=[
        "ntp_proto::source::NtpSource::<RecCtl>::handle_incoming (incl. process_message, measurements_from_packet)",
        "ntp_proto::source::NtpSource::<RecCtl>::handle_timer (request identifier + deadline)",
        "ntp_proto::packet::NtpPacket::{deserialize, valid_server_response, is_kiss*, stratum, mode, version}",
        "ntp_proto::source::ProtocolVersion::is_expected_incoming_version",
    ],
    bounds=_bounds48 + "; quick: octet 0 in {v4 server/client/broadcast, v3 server/client, v5} (other harnesses: {v4 server, v4 client, v3 server, v5}); thorough adds v4 x 8 modes, v4 server with LI=3, v3 broadcast, versions 2 and 7 and the 76-byte NTPv5 template (48 symbolic header octets, parse-deciding octets 0,12,14,15 dispatched over 4 literal combinations (server: synchronized / auth-NAK flag, request mode, wrong draft text), concrete draft-identification field incl. one wrong draft text)",
    outside="NTS sources and unique identifiers (C07); packets with extension fields other than the NTPv5 draft identification, MACs, lengths other than 48 / 76 bytes; octet-0 values outside the dispatched lists (the `all` list of 256 values exists but costs ~10 s of symbolic execution per value); histories longer than two packets (covered inductively: acceptance requires a pending id and clears it)",
    assumptions=[
        "remote_min_poll_interval <= 126 (see C09)",
        "V4UpgradingToV5.tries_left in 1..=8 (inductive invariant, asserted by C12)",
        "a V4 association also takes version-3 answers (what old servers send); an upgrading one only version 4",
        "the pending deadline is at least 1.25 s away from the harness's clock reading and its sub-second part lies in [0.25 s, 0.75 s] (never within 0.25 s of a whole-second offset): keeps every deadline comparison stable against native timing jitter, so counterexamples replay under the real clock; deadlines within 1.25 s of `now` are outside the claim",
        "deadline comparisons use a clock reading taken before the call (necessary conditions) and one taken after it (sufficient conditions), so the oracle is also valid under the real clock in native replay",
    ],
    stub_notes=_stubs,
    harnesses=[
        H(NS, "c08", "c08_accept", "measurement pair => pending, fresh, origin equal, expected version, server mode, stratum 1..=16, pending cleared; unsolicited/stale/forged packets change nothing (48-byte packets)", timeout=600, bounds="octet 0 in {0x24,0x23,0x25} (v4 server / client / broadcast)"),
        H(NS, "c08", "c08_accept_b", "as c08_accept for octet 0 in {0x1C,0x1B,0x2C} (v3 server / client, v5)", timeout=600),
        H(NS, "c08", "c08_replay", "in the state an acceptance leaves behind (no pending request) no 48-byte packet is measured or changes the source; with c08_accept (acceptance needs and clears the pending id, rejection keeps it) this gives at most one pair per request", timeout=600),
        H(NS, "c08", "c08_request", "the id the timer stores is the one in the request it sends, deadline = now + poll window (v4 family)", timeout=600),
        H(NS, "c08", "c08_accept_full", "as c08_accept, 12 octet-0 values: v4 in all eight modes, v4 server with LI=3, v3 broadcast, versions 2 and 7", tier="thorough"),
        H(NS, "c08", "c08_accept_v5", "as c08_accept for the 76-byte NTPv5 template (client cookie)", tier="thorough"),
        H(NS, "c08", "c08_replay_v5", "c08_replay for the NTPv5 template", tier="thorough"),
    ],
)
