//! Safe-Rust verification hooks for this module (accessors/wrappers only; no logic).
#![allow(unused_imports, dead_code)]
use super::*;

// ---- C13/C14 (np_nts_h): name the writer trait and the field type from outside, and expose the
// private zero-filling helper (thin wrapper) so that a harness can compare it with its model.
pub use crate::io::NonBlockingWrite;
pub use super::ExtensionField as ExtField;
pub fn write_zeros_hook<W: NonBlockingWrite>(w: W, n: usize) -> std::io::Result<()> {
    ExtensionField::write_zeros(w, n)
}
pub use super::ExtensionHeaderVersion as EhVersion;
pub fn ef_serialize_hook(ef: &ExtensionField<'_>, w: &mut Cursor<&mut [u8]>, minimum_size: u16, version: ExtensionHeaderVersion) -> std::io::Result<()> {
    ef.serialize(w, minimum_size, version)
}

// ---- C25 (np_packet_h): thin wrapper around the private NTS authenticator encoder.
pub fn encode_encrypted_hook(
    w: &mut Cursor<&mut [u8]>,
    fields_to_encrypt: &[ExtensionField<'_>],
    cipher: &dyn Cipher,
    version: ExtensionHeaderVersion,
) -> std::io::Result<()> {
    ExtensionField::encode_encrypted(w, fields_to_encrypt, cipher, version)
}

// ---------------------------------------------------------------- C23/C25 encrypted-field framing (lead)
/// `RawEncryptedField::from_message_bytes`: Ok -> (nonce offset/len, ciphertext offset/len) relative
/// to `message_bytes`; Err -> None. Offsets are recovered from the returned slices' positions.
pub fn encrypted_field_frame(message_bytes: &[u8]) -> Option<(usize, usize, usize, usize)> {
    match RawEncryptedField::from_message_bytes(message_bytes) {
        Ok(f) => {
            let base = message_bytes.as_ptr() as usize;
            Some((
                f.nonce.as_ptr() as usize - base,
                f.nonce.len(),
                f.ciphertext.as_ptr() as usize - base,
                f.ciphertext.len(),
            ))
        }
        Err(_) => None,
    }
}

/// One extension field from raw bytes: `RawExtensionField::deserialize` then `ExtensionField::decode`
/// (the two private steps the packet decoder performs per field). None = rejected.
pub fn ef_decode_one<'a>(data: &'a [u8], minimum_size: usize, version: ExtensionHeaderVersion) -> Option<(ExtensionField<'a>, usize)> {
    let raw = RawExtensionField::deserialize(data, minimum_size, version).ok()?;
    let wire = raw.wire_length(version);
    let ef = ExtensionField::decode(&raw, version).ok()?;
    Some((ef, wire))
}
pub fn ef_is_refid_request(ef: &ExtensionField<'_>) -> bool {
    matches!(ef, ExtensionField::ReferenceIdRequest(_))
}
pub fn ef_is_padding(ef: &ExtensionField<'_>) -> bool {
    matches!(ef, ExtensionField::Padding(_))
}
