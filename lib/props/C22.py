NS = "np_server_h"
PROP = dict(
    functions=[
        "ntp_proto::server::Server<SymClock>::handle and everything it reaches (parser, policy, response construction, serialiser) under Kani's panic/overflow/bounds/unwrap checks",
        "ntp_proto::time_types::NtpDuration::{from_seconds, to_bits_short, to_bits_time32} on the root-dispersion value (c22_encode_dispersion)",
    ],
    bounds=("answered and mode-rejected datagrams only: all harnesses of C15/C16/C21 (48/52 B, templates up to 120 B) plus: NTPv4 56 B (8-byte trailer), NTPv3 53/54/55 B; "
            "buffers request-sized and larger; synchronisation state: any stratum 1..255, reference id, leap indicator, precision >= 0, 0 <= root delay <= 65535 s, "
            "root dispersion any non-negative duration <= 65535 s; root dispersion as f64 in [0, 65535)."),
    outside=("paths Kani could not execute within 8 GB / 15 min (kept in the crate, not registered; exercised natively only by `cargo test --release native_`): "
             "EVERY DATAGRAM THE PARSER REJECTS (too short, trailing bytes, unknown version, NTPv5 without draft identification; see C15 for the measurement), "
             "serialisation failure (answer does not fit), undecryptable NTS field (DecryptError -> NAK), NTPv5 answers; unstructured datagrams longer than 56 bytes (templates only); symbolic LI/version/mode bits within one call; NTS requests with valid cookies (np_srvnts_h); "
             "negative root delay or precision in the published snapshot (Server::handle WOULD panic: to_bits_short/to_bits_time32 assert!(duration >= 0) - the snapshot is "
             "produced by the clock controller, C06 not applicable; reported to the lead); dev-profile-only panics: root delay/dispersion > 65535 s (debug_assert in "
             "to_bits_short), NaN/inf root variance (debug_assert in from_seconds); NtpClock::now() returning Err (expect); poisoned RwLock (unwrap)"),
    assumptions=[
        "published root delay and precision are non-negative",
        "root delay and root dispersion <= 65535 s (dev-only debug_assert; release saturates)",
    ],
    stub_notes=["as C15/C16; TimeSnapshot::root_dispersion replaced by an arbitrary non-negative duration, its f64 -> wire conversion checked separately"],
    harnesses=[
        H(NS, "c22", "c22_any_v4_56", "NTPv4 56 B end-to-end"),
        H(NS, "c22", "c22_encode_dispersion", "root dispersion f64 -> NtpDuration -> 16.16/time32 never hits the non-negativity assert; value = floor"),
        H(NS, "c15", "c15_reject_mode4", "non-client datagram, every policy"),
        H(NS, "c15", "c15_policy_v4", "every policy on an accepted request (policy half)"),
        H(NS, "c15", "c15_policy_v6", "IPv6 / IPv4-mapped clients"),
        H(NS, "c16", "c16_wire_v4_time", "time answer end-to-end"),
        H(NS, "c16", "c16_wire_v4_deny", "DENY end-to-end"),
        H(NS, "c16", "c16_wire_v4_uid36_time", "unique identifier echoed"),
        H(NS, "c21", "c21_once", "buffer larger than the request; rejects"),
        H(NS, "c22", "c22_any_v3_53_55", "NTPv3 53/54/55 B", tier="thorough"),
        H(NS, "c16", "c16_wire_v4_uid36x2_time", "NTPv4 120 B template", tier="thorough"),
    ],
)
