//! Kani harnesses for ntp-proto (external crate, path dependency on /repo/ntp-proto).
#![allow(unused)]
#[cfg(kani)]
mod c32;
