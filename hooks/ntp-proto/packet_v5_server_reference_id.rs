//! Safe-Rust verification hooks for this module (accessors/wrappers only; no logic).
#![allow(unused_imports, dead_code)]
use super::*;

/// ServerId from 10 raw 12-bit values (caller is responsible for `< 4096`, sorted, distinct when
/// it wants a value `ServerId::new` could have produced).
pub fn server_id_from_raw(v: [u16; 10]) -> ServerId {
    ServerId(v.map(U12))
}
pub fn server_id_raw(id: &ServerId) -> [u16; 10] {
    id.0.map(|x| x.0)
}
pub fn bloom_from_bytes(b: [u8; BloomFilter::BYTES]) -> BloomFilter {
    BloomFilter(b)
}
pub fn bloom_bytes_mut(b: &mut BloomFilter) -> &mut [u8; BloomFilter::BYTES] {
    &mut b.0
}
pub type Remote = RemoteBloomFilter;
pub fn remote_from_raw(
    filter: BloomFilter,
    chunk_size: u16,
    last_requested: Option<(u16, NtpClientCookie)>,
    next_to_request: u16,
    is_filled: bool,
) -> RemoteBloomFilter {
    RemoteBloomFilter { filter, chunk_size, last_requested, next_to_request, is_filled }
}
pub fn remote_raw(r: &RemoteBloomFilter) -> (&BloomFilter, u16, Option<(u16, NtpClientCookie)>, u16, bool) {
    (&r.filter, r.chunk_size, r.last_requested, r.next_to_request, r.is_filled)
}

// ---- C34 (np_packet_h): name the types from outside the private module.
pub use super::{BloomFilter, ResponseHandlingError, ServerId};
pub use crate::packet::v5::NtpClientCookie;
pub use crate::packet::v5::extension_fields::{ReferenceIdRequest, ReferenceIdResponse};

// ---- C13/C14 (np_nts_h): a fixed ServerId built without any loop (`[T; 10]::map` is a loop and
// would force a larger global unwind bound on every harness that builds a source).
pub fn server_id_fixed() -> ServerId {
    ServerId([U12(1), U12(2), U12(3), U12(4), U12(5), U12(6), U12(7), U12(8), U12(9), U12(10)])
}
