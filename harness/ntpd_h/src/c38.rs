//! Harnesses for property C38 (see /verif/properties.jsonl).
use crate::stubs;
