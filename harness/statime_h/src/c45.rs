//! C45 CSPTP servers answer only requests, with correct echoes.
//!
//! The private `handle_packet` is polled to completion with a recording in-memory socket. All
//! checks read the raw bytes handed to `send_event` / `send_general` at the offsets of the
//! IEEE 1588 header and of the CSPTP response TLV (type 0xff01: reqIngressTimestamp(10) +
//! reqCorrectionField(8)).
use crate::common::*;
use core::future::Future;
use core::task::{Context, Poll};
use ntp_proto::{NtpLeapIndicator, TimeSnapshot};
use statime_csptp::verif::{manager as mh, messages as gh, platform as ph, server as vh};
use statime_csptp::{CsptpConfig, CsptpManager, CsptpState, InternalState, ServerRecvResult, ServerSocket};
use statime_wire::{ClockAccuracy, ClockIdentity, ClockQuality, Timestamp};
use std::cell::RefCell;

const CAP: usize = 128;

struct Rec {
    ev_calls: u8,
    ev: [u8; CAP],
    ev_len: usize,
    ev_from: u8,
    ev_to: u8,
    gen_calls: u8,
    gn: [u8; CAP],
    gen_len: usize,
    gen_from: u8,
    gen_to: u8,
    // scripted results
    ev_result: Result<Timestamp, ()>,
    gen_result: Result<(), ()>,
}

struct RecSock<'a>(&'a RefCell<Rec>);

fn copy_into(dst: &mut [u8; CAP], src: &[u8]) -> usize {
    dst[..src.len()].copy_from_slice(src);
    src.len()
}

impl ServerSocket for RecSock<'_> {
    type Addr = u8;
    type Error = ();
    fn recv(&mut self, _buf: &mut [u8]) -> impl Future<Output = Result<ServerRecvResult<u8>, ()>> {
        core::future::pending()
    }
    fn send_event(&mut self, buf: &[u8], from: u8, to: u8) -> impl Future<Output = Result<Timestamp, ()>> {
        let mut r = self.0.borrow_mut();
        r.ev_calls += 1;
        assert!(buf.len() <= CAP, "response fits the recording buffer");
        r.ev_len = copy_into(&mut r.ev, buf);
        r.ev_from = from;
        r.ev_to = to;
        core::future::ready(r.ev_result)
    }
    fn send_general(&mut self, buf: &[u8], from: u8, to: u8) -> impl Future<Output = Result<(), ()>> {
        let mut r = self.0.borrow_mut();
        r.gen_calls += 1;
        assert!(buf.len() <= CAP, "follow-up fits the recording buffer");
        r.gen_len = copy_into(&mut r.gn, buf);
        r.gen_from = from;
        r.gen_to = to;
        core::future::ready(r.gen_result)
    }
}

struct Env {
    state: CsptpState,
    leap: NtpLeapIndicator,
    rx: Timestamp,
    remote: u8,
    local: u8,
    ev_result: Result<Timestamp, ()>,
    gen_result: Result<(), ()>,
}

fn any_env() -> Env {
    let leap = match kani::any::<u8>() {
        0 => NtpLeapIndicator::NoWarning,
        1 => NtpLeapIndicator::Leap61,
        2 => NtpLeapIndicator::Leap59,
        _ => NtpLeapIndicator::Unknown,
    };
    let state = CsptpState {
        grandmaster_identity: ClockIdentity(kani::any()),
        grandmaster_priority_1: kani::any(),
        grandmaster_priority_2: kani::any(),
        grandmaster_clock_quality: ClockQuality {
            clock_class: kani::any(),
            clock_accuracy: ClockAccuracy::from_primitive(kani::any()),
            offset_scaled_log_variance: kani::any(),
        },
        steps_removed: kani::any(),
        ptp_timescale: kani::any(),
        time_traceable: kani::any(),
        frequency_traceable: kani::any(),
    };
    let rx = any_timestamp();
    let tx = any_timestamp();
    let ev_ok: bool = kani::any();
    let gen_ok: bool = kani::any();
    Env {
        state,
        leap,
        rx,
        remote: kani::any(),
        local: kani::any(),
        ev_result: if ev_ok { Ok(tx) } else { Err(()) },
        gen_result: if gen_ok { Ok(()) } else { Err(()) },
    }
}

/// Runs `handle_packet` on `packet` and returns what the socket saw.
fn run(env: &Env, packet: &[u8]) -> Rec {
    let snapshot = TimeSnapshot { leap_indicator: env.leap, ..TimeSnapshot::default() };
    let manager: CsptpManager<RefCell<InternalState>> =
        mh::manager_from_parts(CsptpConfig::default(), ph::internal_state_from_parts(env.state, snapshot, None));
    let rec = RefCell::new(Rec {
        ev_calls: 0,
        ev: [0; CAP],
        ev_len: 0,
        ev_from: 0,
        ev_to: 0,
        gen_calls: 0,
        gn: [0; CAP],
        gen_len: 0,
        gen_from: 0,
        gen_to: 0,
        ev_result: env.ev_result,
        gen_result: env.gen_result,
    });
    {
        let mut sock = RecSock(&rec);
        let fut = vh::handle_packet_hook(&mut sock, &manager, packet, env.remote, env.local, env.rx);
        let mut fut = core::pin::pin!(fut);
        let mut cx = Context::from_waker(std::task::Waker::noop());
        let p = fut.as_mut().poll(&mut cx);
        assert!(p.is_ready(), "handling one datagram completes without waiting when the socket does");
    }
    rec.into_inner()
}

/// Echo checks shared by both harnesses: `req` is the request datagram (already known to have been answered).
fn check_answer(env: &Env, req: &[u8], rec: &Rec, status_requested: bool) {
    assert!(rec.ev_calls == 1, "exactly one response on the event socket");
    let a = &rec.ev;
    let want_len = 34 + 10 + 22 + if status_requested { 22 } else { 0 };
    assert!(rec.ev_len == want_len && be16(a, 2) as usize == want_len, "response length: Sync + response TLV (+ status TLV when requested)");
    assert!(a[0] == 0x30 && a[5] == 0 && a[1] & 0x0f == 2, "response is a PTPv2 Sync with sdoId 0x300");
    assert!(a[4] == req[4], "response echoes the request's domain");
    assert!(be16(a, 30) == be16(req, 30), "response echoes the request's sequence id");
    assert!(a[6] & 0x02 != 0, "response announces a follow-up (two-step)");
    assert!(a[6] & 0x04 != 0, "response is unicast");
    assert!((a[7] & 1 != 0) == (env.leap == NtpLeapIndicator::Leap61) && (a[7] & 2 != 0) == (env.leap == NtpLeapIndicator::Leap59), "leap flags follow the server's leap indicator");
    assert!(be16(a, 44) == 0xff01 && be16(a, 46) == 18, "first TLV is the CSPTP response TLV");
    assert!(be48(a, 48) == env.rx.seconds() && be32(a, 54) == env.rx.nanos(), "reqIngressTimestamp = reception time of the request");
    assert!(be64(a, 58) == be64(req, 8), "reqCorrectionField = correctionField of the request");
    assert!(rec.ev_from == env.local && rec.ev_to == env.remote, "response goes from the address the request was sent to, to its sender");
    if status_requested {
        assert!(be16(a, 66) == 0xf002 && be16(a, 68) == 18, "second TLV is the CSPTP status TLV");
        assert!(a[70] == env.state.grandmaster_priority_1 && a[75] == env.state.grandmaster_priority_2, "status TLV priorities");
        assert!(be16(a, 76) == env.state.steps_removed, "status TLV stepsRemoved");
        assert!(be64(a, 80) == u64::from_be_bytes(env.state.grandmaster_identity.0), "status TLV grandmaster identity");
    }
    match env.ev_result {
        Ok(tx) => {
            assert!(rec.gen_calls == 1, "a follow-up is sent on the general socket after a successful send");
            let f = &rec.gn;
            assert!(rec.gen_len == 44 && be16(f, 2) == 44, "follow-up has no TLVs");
            assert!(f[0] == 0x38 && f[5] == 0 && f[1] & 0x0f == 2, "follow-up is a PTPv2 Follow_Up with sdoId 0x300");
            assert!(f[4] == req[4] && be16(f, 30) == be16(req, 30), "follow-up echoes domain and sequence id");
            assert!(be48(f, 34) == tx.seconds() && be32(f, 40) == tx.nanos(), "preciseOriginTimestamp = send time reported by the event socket");
            assert!(rec.gen_from == env.local && rec.gen_to == env.remote, "follow-up addresses");
        }
        Err(()) => assert!(rec.gen_calls == 0, "no follow-up without a send timestamp"),
    }
}

/// Template request as in `c45_handle`.
fn any_request() -> ([u8; 52], bool) {
    let mut req: [u8; 52] = kani::any();
    req[0] = 0x30; // sdoId high nibble 3 (CSPTP), messageType Sync
    put16(&mut req, 2, 52);
    put16(&mut req, 44, 0xff00);
    put16(&mut req, 46, 4);
    // the parser and Timestamp::new disagree at nanoseconds == 10^9 exactly; excluded (see report)
    kani::assume(be32(&req, 40) != 1_000_000_000);
    let well_formed = req[5] == 0 && req[1] & 0x0f == 2 && be32(&req, 40) < 1_000_000_000;
    (req, well_formed)
}

/// Steps 1-3 of `handle_packet` through thin hook wrappers: parse the template request,
/// `is_request`, `new_response` with the reception time and the server state; the response is
/// inspected as a `statime_wire::Message` (its serialisation is C41's subject).
#[kani::proof]
#[kani::unwind(5)]
fn c45_response() {
    let (req, well_formed) = any_request();
    let env = any_env();
    let snapshot = TimeSnapshot { leap_indicator: env.leap, ..TimeSnapshot::default() };
    let parsed = gh::msg_deserialize(&req);
    assert!(parsed.is_some() == well_formed, "template parses as a CSPTP message iff sdoId 0x300, PTP version 2, valid timestamp");
    let Some(request) = parsed else { return };
    assert!(gh::msg_is_request(&request) && !gh::msg_is_response(&request), "a Sync with a request TLV is a request");
    let mut tlvbuf = [0u8; 64];
    let Some(response) = gh::msg_new_response(&mut tlvbuf, &request, env.rx, None, &snapshot, &env.state) else {
        assert!(false, "a response can be built for every request");
        return;
    };
    assert!(gh::msg_is_response(&response) && !gh::msg_is_request(&response), "the answer is a response");
    let m = gh::msg_message(&response);
    let h = &m.header;
    assert!(h.domain_number == req[4], "response echoes the request's domain");
    assert!(h.sequence_id == be16(&req, 30), "response echoes the request's sequence id");
    assert!(u16::from(h.sdo_id) == 0x300 && h.version.major() == 2, "CSPTP sdoId and PTP version 2");
    assert!(h.two_step_flag && h.unicast_flag, "two-step (a follow-up will carry the send time), unicast");
    assert!(h.leap61 == (env.leap == NtpLeapIndicator::Leap61) && h.leap59 == (env.leap == NtpLeapIndicator::Leap59), "leap flags follow the server's leap indicator");
    assert!(h.ptp_timescale == env.state.ptp_timescale && h.time_tracable == env.state.time_traceable && h.frequency_tracable == env.state.frequency_traceable, "timescale / traceability flags from the server state");
    assert!(matches!(m.body, statime_wire::MessageBody::Sync(_)), "response is a Sync");
    let status_requested = req[48] & 1 != 0;
    let mut it = m.suffix.tlvs();
    let first = it.next();
    let Some(t) = first else {
        assert!(false, "response carries a TLV");
        return;
    };
    assert!(t.tlv_type == statime_wire::TlvType::CsptpResponse && t.value.len() == 18, "first TLV is the CSPTP response TLV");
    assert!(be48(&t.value, 0) == env.rx.seconds() && be32(&t.value, 6) == env.rx.nanos(), "reqIngressTimestamp = reception time of the request");
    assert!(be64(&t.value, 10) == be64(&req, 8), "reqCorrectionField = correctionField of the request");
    let second = it.next();
    if status_requested {
        let Some(s) = second else {
            assert!(false, "status TLV present when requested");
            return;
        };
        assert!(s.tlv_type == statime_wire::TlvType::CsptpStatus && s.value.len() == 18, "second TLV is the CSPTP status TLV");
        assert!(s.value[0] == env.state.grandmaster_priority_1 && s.value[5] == env.state.grandmaster_priority_2, "status TLV priorities");
        assert!(be16(&s.value, 6) == env.state.steps_removed, "status TLV stepsRemoved");
        assert!(be64(&s.value, 10) == u64::from_be_bytes(env.state.grandmaster_identity.0), "status TLV grandmaster identity");
        assert!(it.next().is_none(), "no further TLVs");
    } else {
        assert!(second.is_none(), "no status TLV unless requested");
    }
    kani::cover!(status_requested && be64(&req, 8) != 0, "response with status TLV, non-zero correction echoed");
}

/// Steps 4-6 on a response built from a request made by the client-side constructor
/// (`new_request`: concrete shape, symbolic domain and sequence id): `new_follow_up` with the
/// send timestamp, serialised, read back at the wire offsets.
#[kani::proof]
#[kani::unwind(5)]
fn c45_follow_up() {
    let domain: u8 = kani::any();
    let seq: u16 = kani::any();
    let env = any_env();
    let tx = any_timestamp();
    let snapshot = TimeSnapshot { leap_indicator: env.leap, ..TimeSnapshot::default() };
    let mut reqbuf = [0u8; 8];
    let Some(request) = gh::msg_new_request(&mut reqbuf, domain, seq) else {
        assert!(false, "a request can be built");
        return;
    };
    let mut tlvbuf = [0u8; 64];
    let Some(response) = gh::msg_new_response(&mut tlvbuf, &request, env.rx, None, &snapshot, &env.state) else {
        assert!(false, "a response can be built for every request");
        return;
    };
    let Some(fu) = gh::msg_new_follow_up(&response, tx) else {
        assert!(false, "a follow-up can be built for every two-step response");
        return;
    };
    let mut f = [0u8; 64];
    let n = gh::msg_serialize(&fu, &mut f);
    assert!(n == Some(44) && be16(&f, 2) == 44, "follow-up has no TLVs");
    assert!(f[0] == 0x38 && f[5] == 0 && f[1] & 0x0f == 2, "follow-up is a PTPv2 Follow_Up with sdoId 0x300");
    assert!(f[4] == domain && be16(&f, 30) == seq, "follow-up echoes domain and sequence id");
    assert!(f[6] & 0x02 != 0, "follow-up keeps the two-step flag");
    assert!(be48(&f, 34) == tx.seconds() && be32(&f, 40) == tx.nanos(), "preciseOriginTimestamp = the send time handed to new_follow_up");
    // a one-step response (send timestamp known up front) has no follow-up
    let mut tlvbuf2 = [0u8; 64];
    if let Some(one_step) = gh::msg_new_response(&mut tlvbuf2, &request, env.rx, Some(tx), &snapshot, &env.state) {
        assert!(!gh::msg_message(&one_step).header.two_step_flag, "one-step response");
        assert!(gh::msg_new_follow_up(&one_step, tx).is_none(), "no follow-up for a one-step response");
    }
    kani::cover!(domain == 128 && seq == 0xffff, "default domain, last sequence id");
}

/// Template: Sync + CSPTP request TLV (4 value bytes), 52 bytes; type/length fields concrete, rest symbolic.
#[kani::proof]
#[kani::unwind(5)]
fn c45_handle() {
    let (req, well_formed) = any_request();
    let env = any_env();

    let rec = run(&env, &req);
    if !well_formed {
        assert!(rec.ev_calls == 0 && rec.gen_calls == 0, "nothing is sent for a datagram that is not a CSPTP request");
        return;
    }
    check_answer(&env, &req, &rec, req[48] & 1 != 0);
    kani::cover!(req[48] & 1 != 0 && env.ev_result.is_ok(), "answered with status TLV and follow-up");
}

/// Raw-byte scan: does the datagram contain, inside messageLength, a CSPTP request TLV?
/// (N <= 56: at most three TLV headers fit behind the Sync body.)
fn looks_like_request<const N: usize>(b: &[u8; N], n: usize) -> bool {
    if n < 44 {
        return false;
    }
    let ml = be16(b, 2) as usize;
    if b[0] != 0x30 || b[5] != 0 || b[1] & 0x0f != 2 || ml > n || ml < 44 {
        return false;
    }
    let mut off = 44;
    let mut found = false;
    let mut guard = 0;
    while guard < 3 {
        if off + 4 <= ml {
            let len = be16(b, off + 2) as usize;
            if be16(b, off) == 0xff00 && len >= 1 && off + 4 + len <= ml {
                found = true;
            }
            off += 4 + len;
        }
        guard += 1;
    }
    found
}

/// Unstructured datagram with a concrete first octet (sdoId high nibble + messageType): with a
/// symbolic first octet the parser explores all ten body types and the run exhausts 8 GB.
fn handle_other<const N: usize>(byte0: u8) {
    let mut pkt: [u8; N] = kani::any();
    pkt[0] = byte0;
    let n: usize = kani::any();
    kani::assume(n <= N);
    let env = any_env();
    let rec = run(&env, &pkt[..n]);
    assert!(rec.ev_calls == 0 && rec.gen_calls == 0, "nothing is sent for a datagram that is not a CSPTP Sync");
}

fn handle_any<const N: usize>(byte0: u8) {
    let mut pkt: [u8; N] = kani::any();
    pkt[0] = byte0;
    let n: usize = kani::any();
    kani::assume(n <= N);
    let env = any_env();
    let rec = run(&env, &pkt[..n]);
    if rec.ev_calls == 0 {
        assert!(rec.gen_calls == 0, "no follow-up without a response");
        return;
    }
    assert!(looks_like_request(&pkt, n), "something was sent => the datagram is a PTPv2/CSPTP Sync carrying a request TLV");
    // status flag: first value byte of the request TLV; with N <= 56 the request TLV sits at offset 44, 48 or 50
    let tlv_at = if be16(&pkt, 44) == 0xff00 { 44 } else if be16(&pkt, 46) == 0 { 48 } else { 50 };
    check_answer(&env, &pkt, &rec, pkt[tlv_at + 4] & 1 != 0);
    kani::cover!(true, "an arbitrary Sync datagram was answered");
}

/// Every CSPTP (sdoId 0x3xx) Sync-typed datagram of length <= 52.
#[kani::proof]
#[kani::unwind(5)]
fn c45_handle_any() {
    handle_any::<52>(0x30);
}

#[kani::proof]
#[kani::unwind(5)]
fn c45_handle_any_56() {
    handle_any::<56>(0x30);
}

/// Every other first octet class: the nine non-Sync message types and an undefined type under the
/// CSPTP sdoId, and a Sync under a foreign sdoId: never answered.
#[kani::proof]
#[kani::unwind(13)]
fn c45_handle_other() {
    let firsts: [u8; 11] = [0x31, 0x32, 0x33, 0x38, 0x39, 0x3a, 0x3b, 0x3c, 0x3d, 0x34, 0x00];
    let mut i = 0;
    while i < 11 {
        handle_other::<52>(firsts[i]);
        i += 1;
    }
    kani::cover!(true, "all first-octet classes visited");
}
