NH = "np_nts_h"
_T = "layout template (fixed type/length framing, symbolic content): "
PROP = dict(
    functions=[
        "ntp_proto::source::NtpSource<RecCtl>::{handle_incoming,process_message}",
        "ntp_proto::packet::NtpPacket::{deserialize,valid_server_response,new_cookies,is_kiss_*,authenticated_extension_fields}",
        "ntp_proto::packet::extension_fields::{ExtensionFieldData::deserialize,RawEncryptedField::{from_message_bytes,decrypt},RawExtensionField::deserialize_sequence,ExtensionField::decode}",
        "ntp_proto::packet::check_uid_extensionfield, ntp_proto::cookiestash::CookieStash::store, RemoteBloomFilter::handle_response",
    ],
    bounds="ONE datagram against an NTS source (NTPv4 or NTPv5: the versions an NTS key exchange yields) with a request in flight: arbitrary pending unique id (32 bytes), "
           "origin timestamp / client cookie, deadline (see assumptions) and clock; arbitrary stash fill 0..=8, server-requested minimum 4..=17, reach, tries, deny flag, stratum. Datagram = "
           + _T + "header48 [+draft-id (v5)] + uid field(36) [+ field Y of 16/20 bytes, cookie (v4) / reference-id response (v5)] [+ authenticator field with 16-byte nonce and 1..2 encrypted 16-byte fields, each a cookie or an unknown field] "
           "[+ trailing field X of 16..28 bytes, cookie / reference-id response]; header bytes symbolic except byte 0 (leap 0, version, mode server) and, for NTPv5, timescale/flag bytes (flag byte 15 fixed per harness: authnak or synchronized); the attacker may copy uid and origin from the request. "
           "One datagram per pending request suffices: every observable that a datagram can change is part of the arbitrary pre-state.",
    outside="handle_incoming on a datagram WITH an authenticator field (genuine or forged) is NOT decided: symbolic execution exceeds 8 GB (c07_v4_genuine/forged/..., kept in c07.rs, not registered); that part of the claim is decided one level down on NtpPacket::deserialize (c07_parse_*: which fields become authenticated/encrypted/untrusted, what new_cookies() yields, forged => no packet) - process_message stores exactly new_cookies() and handle_incoming returns on every deserialize error (read, not solver-decided). real AES-SIV (ideal-AEAD model, below); datagrams with other field lengths/counts than the templates; version bits other than the source's version (dropped before "
            "anything else: C12), leap bits, mode other than server, field kinds other than those listed; the AEAD outcome is fixed per harness (genuine / forged) instead of symbolic; "
            ""
            "NTS sources in the V4UpgradingToV5/UpgradedToV5 states (an NTS key exchange never yields them)",
    assumptions=[
        "pending-request deadline = one reading of the clock +/- a symbolic distance of 1 s .. 2^20 s (in time / expired); distances below 1 s to the boundary are not covered (so that a native replay against the real clock cannot flip)",
        "IDEAL AEAD (trusted base): decrypt under s2c succeeds iff the ghost flag says the server really produced exactly this (associated data, nonce, ciphertext) triple - "
        "identified by the lengths of the three slices (AAD = everything before the authenticator field, starting at byte 0; nonce = 16 bytes; ciphertext = the field's ciphertext length) "
        "plus the first nonce byte and the first and last ciphertext byte; any other call (other lengths/bytes, other key, flag unset = forgery) fails. The flag is fixed per harness (genuine / forged); within 'genuine' the uid/origin are arbitrary, so replays of genuine responses to other requests are covered; "
        "within 'forged' all content is arbitrary. Confidentiality is not modelled.",
        "'bound to the pending request' = unique-identifier field (in front of the authenticator) equals the pending one AND origin timestamp (v4) / client cookie (v5) equals the pending one",
        "pre-state set through hooks (set_pending etc.); that handle_timer leaves exactly such a state (pending uid = uid on the wire) is checked by c13_poll_struct_*/c13_poll_wire_*",
    ],
    stub_notes=[
        "core::str::from_utf8 / <[u8]>::is_ascii: ASCII-only models (exact at their only call site, decode_draft_identification)",
        "clock: ghost non-decreasing instants (deadline check of the pending request is real code)",
    ],
    harnesses=[
        H(NH, "c07", "c07_v4_plain", "handle_incoming, NTPv4, no authenticator: hdr+uid+cookie field in clear (28). Nothing is accepted, no state change at all (incl. NTS-NAK and other kiss codes)", timeout=600),
        H(NH, "c07", "c07_v5_plain_authnak", "handle_incoming, NTPv5 with the authnak flag, no authenticator: hdr+draft+uid+reference-id response(16): nothing accepted, no state change (incl. poll bytes that read as RATE/DENY)", timeout=600),
        H(NH, "c07", "c07_v5_plain_sync", "handle_incoming, NTPv5 without authnak flag, no authenticator: nothing accepted, no state change", timeout=600),
        H(NH, "c07", "c07_v5_plain_authnak_kiss", "focused: unauthenticated NTPv5 datagram (hdr+draft+uid) with stratum 0 + authnak flag + poll 127 / > own interval and the (clear-text) "
          "unique id and client cookie of the request (the region in which the tree before fix 9b98367 raised the poll rate or demobilised the source): no action, no state change", timeout=600),
    ],
)
