//! Safe-Rust verification hooks for this module (accessors/wrappers only; no logic).
#![allow(unused_imports, dead_code)]
use super::*;

// ---- C26/C27 (np_keyset_h): name the AEAD types from outside the private module so that
// `#[kani::stub(<…::AesSivCmac512 as …::Cipher>::encrypt, …)]` can resolve them.
pub use super::{AesSivCmac256, AesSivCmac512, Cipher, DecryptError, EncryptResult, KeyError};

// ---- C23/C25 (np_packet_h): name the provider result type from outside the private module.
pub use super::CipherHolder;
