//! Safe-Rust verification hooks for this module (accessors/wrappers only; no logic).
#![allow(missing_docs, unused_imports, dead_code)]
use super::*;

// ---- statime_h (C45): InternalState from its parts
pub fn internal_state_from_parts(csptp_state: CsptpState, time_snapshot: TimeSnapshot, active_source: Option<ClockId>) -> InternalState {
    InternalState { csptp_state, time_snapshot, active_source }
}
pub fn internal_state_parts(s: &InternalState) -> (CsptpState, TimeSnapshot, Option<ClockId>) {
    (s.csptp_state, s.time_snapshot, s.active_source)
}
