//! Safe-Rust verification hooks for this module (accessors/wrappers only; no logic).
#![allow(unused_imports, dead_code)]
use super::*;
pub use super::messages::verif_hooks as messages;
pub use super::record::verif_hooks as record;

// --- C30 (np_misc_h): code enums used in NTS-KE records (re-export only).
pub use super::{AeadAlgorithm as Aead, ErrorCode as KeErrorCode, WarningCode as KeWarningCode};
