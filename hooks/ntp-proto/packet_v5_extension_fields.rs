//! Safe-Rust verification hooks for this module (accessors/wrappers only; no logic).
#![allow(unused_imports, dead_code)]
use super::*;

// ---- C24/C34 (np_packet_h): raw constructor (no validation) for a reference-id request.
pub fn refid_request_from_raw(payload_len: u16, offset: u16) -> ReferenceIdRequest {
    ReferenceIdRequest { payload_len, offset }
}
