//! Safe-Rust verification hooks for this module (accessors/wrappers only; no logic).
#![allow(missing_docs, unused_imports, dead_code)]
use super::*;

// --- C38 (ntpd_h): the cap constant, for reporting only (the harness oracle uses 1 MiB from the property text).
pub const MAX_JSON: u64 = MAX_JSON_MESSAGE_SIZE;
pub use super::{read_json, write_json};
