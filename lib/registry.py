"""Registry: which harnesses decide which property, with bounds and trusted base.
One file per property under /verif/lib/props/<ID>.py defining PROP = dict(...)."""
import glob
import importlib.util
import os

PROPS = {}


def H(crate, module, name, what, tier="quick", timeout=300, timeout_thorough=None, bounds="", **kw):
    """One Kani harness = one set of solver queries.
    tier: 'quick' (run in both tiers) or 'thorough' (thorough tier only).
    timeout: wall cap in seconds in the quick tier; timeout_thorough in the thorough tier."""
    d = dict(crate=crate, module=module, name=name, what=what, tier=tier, timeout=timeout,
             timeout_thorough=timeout_thorough or max(timeout, 1800), bounds=bounds)
    d.update(kw)
    return d


for _f in sorted(glob.glob(os.path.join(os.path.dirname(__file__), "props", "C*.py"))):
    _spec = importlib.util.spec_from_file_location("prop_" + os.path.basename(_f)[:-3], _f)
    _m = importlib.util.module_from_spec(_spec)
    _m.H = H
    _spec.loader.exec_module(_m)
    PROPS[os.path.basename(_f)[:-3]] = _m.PROP

NOT_APPLICABLE = {
    "C06": "per-measurement Kalman update multiplies/divides/inverts symbolic f64 (2x2 inverse, exp, sqrt) over histories with feedback; bit-blasting one update is out of reach and no inductive finite invariant is available without real-number reasoning",
    "C28": "negotiation logic sits inside exchange_keys/handle_connection behind a real TLS 1.3 handshake (rustls + aws-lc FFI); no seam to enter symbolically",
    "C29": "token/keep-alive logic sits inside the TLS connection handler (rustls, tokio semaphores); not encodable",
    "C35": "PoolSpawner::try_spawn awaits DNS and tokio mpsc send (single send measured at 26 GB / 20 min in CBMC)",
    "C36": "pacing loop is tokio::time + channel receive under a runtime; Kani has no runtime/time driver and no concurrency",
    "C37": "property is about interleavings of tasks through tokio channels and select!; Kani does not handle concurrency and tokio's coop TLS ICEs the compiler",
}
