ST = "statime_h"
_kinds = [("sync", "Sync"), ("delay_req", "Delay_Req"), ("pdelay_req", "Pdelay_Req"), ("pdelay_resp", "Pdelay_Resp"),
          ("follow_up", "Follow_Up"), ("delay_resp", "Delay_Resp"), ("pdelay_resp_fu", "Pdelay_Resp_Follow_Up"),
          ("announce", "Announce"), ("signaling", "Signaling"), ("management", "Management")]
_quick_kinds = ("sync", "announce")
PROP = dict(
    functions=[
        "statime_wire::Message::{deserialize,serialize,wire_size}",
        "statime_wire::Header::{deserialize_header,serialize_header}, MessageBody::{deserialize,serialize}, all ten body codecs",
        "statime_wire::TlvSet::{deserialize,serialize,tlvs}, TlvSetIterator::next, Tlv::{serialize,deserialize}, TlvSetBuilder::{add,build}, TlvType::{from_primitive,to_primitive}",
        "statime_wire::{Timestamp,TimeInterval,PortIdentity,ClockIdentity,ClockQuality,ClockAccuracy,TimeSource,ManagementAction} codecs",
    ],
    bounds="parse direction: per message type (first octet concrete: messageType, sdoId high nibble 0), all remaining bytes unstructured, symbolic length <= header+body+12 (<= 64): all TLV chains that fit; "
           "build direction: each of the ten body types with every public field symbolic (header: all 19 fields), a TlvSet built with TlvSetBuilder from 0, 1 or 2 TLVs, each with a symbolic type "
           "(7 named types + Reserved/Experimental/Legacy payload ranges) and a symbolic value of symbolic length 0..=4",
    outside="fully unstructured first octet (sdoId high nibble != 0 in the parse direction; the build direction covers all sdoId values): the unstructured U(52) run (c41_parse_u52, not registered) did not finish in 25 min; byte strings longer than 64 bytes and TLV chains longer than 12 bytes (property text: up to 4096 bytes); TLV values longer than 4 bytes; non-canonical enum payloads that the type system allows but that alias another "
            "variant on the wire (ClockAccuracy::ProfileSpecific(v>=0x7e), TimeSource::ProfileSpecific/Reserved holding a named code, TlvType::Reserved/Legacy/Experimental holding a code of another class); serde impls; "
            "meaning of reserved bits: the oracle requires equality on the defined bits of IEEE 1588-2019 and zero on reserved bits (flagField 0x98/0x80, messageTypeSpecific, controlField, Announce/Pdelay_Req reserved octets)",
    assumptions=[
        "c41_build_*: TLV value lengths even and the last TLV non-empty (the complements are the finding harnesses c41_build_kf_odd_tlv_length / c41_build_kf_trailing_empty_tlv)",
        "c41_build_*: enum payloads canonical (ClockAccuracy/TimeSource values drawn from the image of the public from_primitive; TlvType::Reserved/Experimental/Legacy payloads inside their own code ranges)",
        "header fields within the ranges their public constructors enforce (SdoId <= 0xfff, version nibbles < 16, Timestamp::new)",
    ],
    stub_notes=["no stubs: plain #[kani::proof] harnesses over the public API (+ hook statime_wire::verif::common::tlv::tlv_type_to_primitive to read a TLV type code)"],
    harnesses=[
        H(ST, "c41", "c41_parse_" + k, "%s-typed datagrams (first octet fixed, sdoId high nibble 0), every other byte and the length symbolic (<= 34+body+12, capped at 64): Ok(m) => serialize writes messageLength bytes equal to the input on all defined bits "
                                        "(reserved bits zero), header fields at their wire offsets, TLV iterator walks exactly the raw suffix; no panic" % n,
          tier=("quick" if k in ("sync",) else "thorough"), timeout=900) for k, n in _kinds
    ] + [
        H(ST, "c41", "c41_build_" + k, "%s body, symbolic header/body/TLVs: serialise (length, messageLength, TLV headers at their offsets) and parse back to an equal message; TLVs iterate in order" % n,
          tier=("quick" if k in _quick_kinds else "thorough"), timeout=900) for k, n in _kinds
    ] + [
        H(ST, "c41", "c41_build_kf_trailing_empty_tlv", "FINDING (expected to fail until fixed): a message whose last TLV has an empty value serialises but does not parse back", timeout=900),
        H(ST, "c41", "c41_build_kf_odd_tlv_length", "FINDING (expected to fail until fixed): TlvSetBuilder accepts odd-length TLV values; the serialised message is rejected by the parser (debug assertion in dev)", timeout=900),
    ],
)
