//! Harnesses for property C39 (see /verif/properties.jsonl).
use crate::stubs;
