//! Harnesses for property C01 (see /verif/properties.jsonl): clock steps never exceed the
//! configured panic thresholds; when a correction would violate one the daemon stops instead.
//!
//! The oracle (`common::step_allowed`) is written from the property text in exact integer
//! arithmetic and is evaluated by the recording clock at the moment `step_clock` is called.
use crate::common::*;
use crate::stubs;
use ntp_proto::verif::algorithm::kalman as kh;
use ntp_proto::verif::algorithm::InternalTimeSyncController;
use ntp_proto::verif::time_types as tt;
use ntp_proto::{AlgorithmConfig, KalmanClockController, NtpDuration, SynchronizationConfig};

/// How the correction (f64 seconds) and its conversion to duration units are modelled.
#[derive(Clone, Copy, PartialEq)]
enum Conv {
    /// real `NtpDuration::from_seconds`, arbitrary finite correction; the expected amount is the
    /// conversion of the same value (what the conversion computes is C32's subject). Thorough
    /// tier: the solver needs minutes to identify the copies of the conversion circuit.
    Real,
    /// real `NtpDuration::from_seconds`; the correction is a whole number of seconds (any i32, or
    /// any i32 times 256, so that both the in-range and the saturating arm are reached). The
    /// expected amount is then known in integer arithmetic: clamp(s) << 32.
    WholeSeconds,
    /// arbitrary finite correction; `NtpDuration::from_seconds` is replaced by an arbitrary
    /// deterministic function (same input, same output) - the threshold logic must hold for
    /// whatever amount the conversion yields
    Uninterpreted,
}

/// ghost state of the uninterpreted conversion
pub static mut CONV_IN: u64 = 0;
pub static mut CONV_OUT: i64 = 0;
pub static mut CONV_OTHER: i64 = 0;
pub fn from_seconds_uf(seconds: f64) -> NtpDuration {
    unsafe {
        // same input, same output; any other input (configuration defaults built during set-up)
        // maps to an unrelated arbitrary value
        if seconds.to_bits() == CONV_IN { tt::dur_from_raw(CONV_OUT) } else { tt::dur_from_raw(CONV_OTHER) }
    }
}

/// (correction in seconds, its value in duration units)
fn any_correction(conv: Conv) -> (f64, i64) {
    match conv {
        Conv::Real => {
            let change = any_finite();
            (change, tt::dur_raw(NtpDuration::from_seconds(change)))
        }
        Conv::WholeSeconds => {
            let s32: i32 = kani::any();
            let far: bool = kani::any();
            let s: i64 = if far { (s32 as i64) << 8 } else { s32 as i64 };
            let d = if s < i32::MIN as i64 {
                i64::MIN
            } else if s > i32::MAX as i64 {
                i64::MAX
            } else {
                s << 32
            };
            (s as f64, d)
        }
        Conv::Uninterpreted => {
            let change = any_finite();
            let d: i64 = kani::any();
            let other: i64 = kani::any();
            unsafe {
                CONV_IN = change.to_bits();
                CONV_OUT = d;
                CONV_OTHER = other;
            }
            (change, d)
        }
    }
}

/// One call of `steer_offset` in the step branch from an arbitrary pre-state.
fn step_body(conv: Conv) {
    let sc = any_step_cfg();
    let step_threshold: f64 = kani::any();
    let freq_delta = any_finite();
    let (change, d_want) = any_correction(conv);
    // this harness drives the step branch; the slew branch is c01_slew_no_step / C02
    kani::assume(change.abs() > step_threshold);
    let algo = AlgorithmConfig { step_threshold, ..AlgorithmConfig::default() };
    let mut c = controller(&sc, algo, 0.0, 0.0);
    arm_step_policy(&sc);

    let upd = kh::steer_offset(&mut c, change, freq_delta);

    // reached only if the daemon did not stop
    unsafe {
        assert!(!EXITED, "no exit on a returning path");
        assert!(STEP_N <= 1, "at most one step per correction");
        if STEP_N == 1 {
            let d = STEP_D[0];
            assert!(step_allowed(d), "a recorded step respects the thresholds in force");
            assert!(d == d_want, "the step applied is the correction that was asked for");
            let acc = tt::dur_raw(kh::controller_timedata(&c).accumulated_steps);
            if sc.in_startup {
                assert!(within(sc.start_fwd, sc.start_bwd, d), "startup: -bwd < d < fwd (startup threshold)");
                assert!(acc == sc.acc0, "startup steps are not accumulated");
            } else {
                assert!(within(sc.single_fwd, sc.single_bwd, d), "running: -bwd < d < fwd (single-step threshold)");
                assert!(acc == acc_after(sc.acc0, d), "accumulated' = accumulated + |d| (saturating)");
                if let Some(l) = sc.acc_limit {
                    assert!(acc <= l, "accumulated' within the accumulated-step threshold");
                }
            }
            match &upd.source_message {
                Some(m) => assert!(kh::message_step(m) == Some(change), "sources are told about the step"),
                None => assert!(false, "step without a message to the sources"),
            }
        }
        assert!(kh::controller_in_startup(&c) == sc.in_startup, "steer_offset does not touch in_startup");
        assert!(FREQ_N == 0, "a step does not change the frequency");
        kani::cover!(STEP_N == 1 && sc.in_startup, "step during startup");
        kani::cover!(STEP_N == 1 && !sc.in_startup && sc.acc_limit.is_some() && sc.acc0 > 0, "step after startup with an accumulated limit");
        kani::cover!(STEP_N == 1 && STEP_D[0] < 0 && sc.single_bwd.is_some() && !sc.in_startup, "backward step under a finite backward threshold");
        kani::cover!(STEP_N == 1 && sc.start_fwd.is_none() && sc.in_startup && STEP_D[0] == i64::MAX, "saturated forward step with infinite threshold");
        kani::cover!(STEP_N == 1 && !sc.in_startup && STEP_D[0] == i64::MIN, "most negative step after startup (|d| saturates in the accumulated total)");
    }
}

harness! {
    #[kani::stub(std::process::exit, crate::common::exit_stub)]
    fn c01_step() {
        step_body(Conv::WholeSeconds);
    }
}

harness! {
    #[kani::stub(std::process::exit, crate::common::exit_stub)]
    fn c01_step_real() {
        step_body(Conv::Real);
    }
}

harness! {
    #[kani::stub(std::process::exit, crate::common::exit_stub)]
    #[kani::stub(ntp_proto::NtpDuration::from_seconds, crate::c01::from_seconds_uf)]
    fn c01_step_any() {
        step_body(Conv::Uninterpreted);
    }
}

/// `check_offset_steer` alone (the threshold decision): it returns only if the step is allowed,
/// and then the accumulated total has been updated.
fn check_body(conv: Conv) {
        let sc = any_step_cfg();
        let (change, d_want) = any_correction(conv);
        let mut c = controller(&sc, AlgorithmConfig::default(), 0.0, 0.0);
        arm_step_policy(&sc);
        kh::check_offset_steer(&mut c, change);
        unsafe {
            assert!(!EXITED, "no exit on a returning path");
            assert!(step_allowed(d_want), "the check returns only for corrections within the thresholds");
            assert!(STEP_N == 0, "the check itself does not step");
            let acc = tt::dur_raw(kh::controller_timedata(&c).accumulated_steps);
            if sc.in_startup {
                assert!(acc == sc.acc0, "startup steps are not accumulated");
            } else {
                assert!(acc == acc_after(sc.acc0, d_want), "accumulated' = accumulated + |d|");
            }
            kani::cover!(!sc.in_startup && d_want < 0 && sc.acc_limit == Some(acc), "accumulated total exactly at the limit is accepted");
            kani::cover!(sc.in_startup && sc.start_bwd.is_some() && d_want < 0, "startup backward step accepted");
        }
    }

harness! {
    #[kani::stub(std::process::exit, crate::common::exit_stub)]
    fn c01_check() {
        check_body(Conv::WholeSeconds);
    }
}
harness! {
    #[kani::stub(std::process::exit, crate::common::exit_stub)]
    fn c01_check_real() {
        check_body(Conv::Real);
    }
}

/// Slew branch: never steps, never accumulates (set-up shared with C02).
harness! {
    #[kani::stub(std::process::exit, crate::common::exit_unexpected)]
    #[kani::stub(std::time::Duration::from_secs_f64, crate::c02::duration_from_secs_f64_stub)]
    fn c01_slew_no_step() {
        let s = crate::c02::slew_setup();
        let sc = s.sc;
        let mut c = s.ctl;
        arm_step_policy(&sc);
        let _ = kh::steer_offset(&mut c, s.change, s.freq_delta);
        unsafe {
            assert!(STEP_N == 0, "a slew never steps the clock");
            assert!(!EXITED, "a slew never stops the daemon");
            assert!(tt::dur_raw(kh::controller_timedata(&c).accumulated_steps) == sc.acc0, "slews do not accumulate");
            kani::cover!(FREQ_N == 1, "slew started");
        }
    }
}

/// After `new()`: nothing accumulated, in startup, the accumulated limit is the configured one,
/// and no clock call has been made.
harness! {
    fn c01_init() {
        let sc = any_step_cfg();
        let f = any_finite();
        unsafe { CLOCK_FREQ = f; }
        let c: KalmanClockController<RecClock> =
            match <KalmanClockController<RecClock> as InternalTimeSyncController>::new(RecClock, sync_config(&sc), AlgorithmConfig::default()) {
                Ok(c) => c,
                Err(_) => { assert!(false, "new() fails"); return; }
            };
        let td = kh::controller_timedata(&c);
        assert!(tt::dur_raw(td.accumulated_steps) == 0, "accumulated_steps starts at zero");
        assert!(td.accumulated_steps_threshold.map(tt::dur_raw) == sc.acc_limit, "published limit is the configured one");
        assert!(kh::controller_in_startup(&c), "starts in startup");
        assert!(kh::controller_desired_freq(&c) == 0.0, "no slew in progress");
        assert!(kh::controller_freq_offset(&c) == f, "frequency offset is what the kernel reported");
        assert!(kh::controller_source_count(&c) == 0, "no sources yet");
        unsafe {
            assert!(STEP_N == 0 && FREQ_N == 0, "construction does not touch the clock");
        }
        kani::cover!(sc.acc_limit.is_some(), "with an accumulated limit");
    }
}


