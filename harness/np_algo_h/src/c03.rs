//! Harnesses for property C03 (see /verif/properties.jsonl).
use crate::stubs;
