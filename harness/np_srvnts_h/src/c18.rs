//! Harnesses for property C18 (see /verif/properties.jsonl): server answers echo the request
//! correctly and reflect nothing else.
//!
//! Shape of every harness (forced by what CBMC's symbolic execution can fold, all measured):
//! * symbolic: every content byte of the request (header fields, timestamps, identifiers, field
//!   bodies), the reception time, the clock reading and the server's synchronisation state;
//! * constant per run: the request's first byte (LI/version/mode), its length and the type/length
//!   words of its extension fields (layout template), and the policy outcome (`Policy`). A
//!   symbolic policy makes `handle_inner`'s `Result` symbolic and everything behind the `?`
//!   is then an ite with uninitialised data (unbounded phantom loops in the serializer).
//!   The modes are run one after the other inside a harness, on the same symbolic inputs.
use crate::common::*;
use crate::stubs;
use ntp_proto::verif::packet::v5::server_reference_id as bh;
use ntp_proto::*;

/// Plain (non-NTS) request without extension fields: handle once and check the answer.
fn echo_plain(msg: &[u8], env: &Env) -> Option<Kind> {
    let mut server = env.server(v5::BloomFilter::new(), empty_keyset());
    let mut stats = RecStats::default();
    let mut backing = [0u8; BUF + SLACK];
    let buf = &mut backing[..BUF];
    let out = handle_once(&mut server, env, msg, buf, &mut stats);
    std::mem::forget(server);

    let len = msg.len();
    let ver = (msg[0] >> 3) & 7;
    // v3/v4: 48-byte header + optional MAC of 4..=24 bytes (in v4 <= 24 trailing bytes are a MAC)
    let well_formed = (len == 48 || (len >= 52 && len <= 72)) && (ver == 3 || ver == 4) && msg[0] & 7 == 3;
    match out {
        None => {
            assert!(!(well_formed && env.require_nts != 2), "well-formed client request is answered");
        }
        Some(n) => {
            assert!(ver == 3 || ver == 4, "only v3/v4 requests can be answered without extension fields");
            assert!(msg[0] & 7 == 3, "only client-mode requests are answered");
            assert!(well_formed, "only well-formed requests are answered");
            assert!(n == 48, "no extension fields, no MAC in the answer");
            let expect = if env.deny_client || env.require_nts == 1 { Kind::Deny } else { Kind::Time };
            assert!(env.require_nts != 2, "non-NTS request ignored when NTS is required (ignore)");
            check_header_v34(&buf[..n], msg, expect, env);
            kani::cover!(expect == Kind::Time && env.stratum == 0, "time answer with stratum 0 still carries timestamps");
            assert!(stats.calls == 1, "statistics registered exactly once");
            return Some(expect);
        }
    }
    assert!(stats.calls == 1, "statistics registered exactly once");
    None
}

srv_harness! {
    #[kani::unwind(3)]
    fn c18_echo_v3() {
        // header + nothing / + 4-byte MAC, first byte = LI 0, version 3, client mode
        let mut msg: [u8; 52 + SLACK] = kani::any();
        msg[0] = 0x1B;
        let env = Env::any();
        let a = echo_plain(&msg[..48], &env.with(Policy::Serve));
        let b = echo_plain(&msg[..52], &env.with(Policy::Serve));
        let c = echo_plain(&msg[..48], &env.with(Policy::DenyAddress));
        let d = echo_plain(&msg[..48], &env.with(Policy::DenyNonNts));
        let e = echo_plain(&msg[..48], &env.with(Policy::IgnoreNonNts));
        kani::cover!(a == Some(Kind::Time), "time answer");
        kani::cover!(b == Some(Kind::Time), "time answer to a request with a 4-byte MAC");
        kani::cover!(c == Some(Kind::Deny), "DENY by address policy");
        kani::cover!(d == Some(Kind::Deny), "DENY because NTS is required");
        kani::cover!(e.is_none(), "ignored because NTS is required");
    }
}

srv_harness! {
    #[kani::unwind(3)]
    fn c18_echo_v4() {
        // header + nothing / + 4-byte MAC, first byte = LI 0, version 4, client mode
        let mut msg: [u8; 52 + SLACK] = kani::any();
        msg[0] = 0x23;
        let env = Env::any();
        let a = echo_plain(&msg[..48], &env.with(Policy::Serve));
        let b = echo_plain(&msg[..52], &env.with(Policy::Serve));
        let c = echo_plain(&msg[..48], &env.with(Policy::DenyAddress));
        let d = echo_plain(&msg[..48], &env.with(Policy::DenyNonNts));
        let e = echo_plain(&msg[..48], &env.with(Policy::IgnoreNonNts));
        kani::cover!(a == Some(Kind::Time), "time answer");
        kani::cover!(b == Some(Kind::Time), "time answer to a request with a 4-byte MAC");
        kani::cover!(c == Some(Kind::Deny), "DENY by address policy");
        kani::cover!(d == Some(Kind::Deny), "DENY because NTS is required");
        kani::cover!(e.is_none(), "ignored because NTS is required");
        kani::cover!(a == Some(Kind::Time) && rd64(&msg, 16) == UPGRADE_MAGIC, "v5 upgrade marker requested and answered");
    }
}

/// Other first bytes (48-byte requests, serving policy): the LI bits of a request are ignored;
/// everything that is not a v3/v4 client-mode request is dropped. Unrolled by macro (a
/// harness-level loop would raise the unwind bound of every loop), five runs per harness (memory).
macro_rules! first_byte_harness {
    ($name:ident, $($b:expr => $answered:expr),*) => {
        srv_harness! {
            #[kani::unwind(3)]
            fn $name() {
                let mut msg: [u8; 48 + SLACK] = kani::any();
                let env = Env::any().with(Policy::Serve);
                let mut answered = 0;
                let mut dropped = 0;
                $(
                    msg[0] = $b;
                    let r = echo_plain(&msg[..48], &env);
                    assert!(r.is_some() == $answered, "answered iff v3/v4 client request");
                    if r.is_some() { answered += 1; } else { dropped += 1; }
                )*
                kani::cover!(answered + dropped == 5, "all five first bytes handled");
            }
        }
    };
}
// LI 3 (v4, v3), v4 modes 0, 1, 2
first_byte_harness!(c18_echo_first_byte_a, 0xE3 => true, 0xDB => true, 0x20 => false, 0x21 => false, 0x22 => false);
// v4 modes 4..7, version 0
first_byte_harness!(c18_echo_first_byte_b, 0x24 => false, 0x25 => false, 0x26 => false, 0x27 => false, 0x03 => false);
// versions 1, 2, 6, 7 and v3 server mode (a v5 first byte is not in the list: the v5 header parser
// rejects symbolic timescale/flag bytes through `?`, which makes the parse result symbolic: > 6 GB)
first_byte_harness!(c18_echo_first_byte_c, 0x0B => false, 0x13 => false, 0x33 => false, 0x3B => false, 0x1C => false);

srv_harness! {
    #[kani::unwind(3)]
    fn c18_echo_mac_sizes() {
        // v4 request with a 20-byte and a 24-byte MAC
        let mut msg: [u8; 72 + SLACK] = kani::any();
        let env = Env::any().with(Policy::Serve);
        msg[0] = 0x23;
        let r = echo_plain(&msg[..68], &env);
        kani::cover!(r == Some(Kind::Time), "20-byte MAC");
        let r = echo_plain(&msg[..72], &env);
        kani::cover!(r == Some(Kind::Time), "24-byte MAC");
    }
}

/// type of the "other" (not to be reflected) extension field in the templates
pub const OTHER_TYPE: u16 = 0x0ABC;

/// Walk the extension fields of an NTPv4 answer with an independent reader and require that
/// they are exactly the echoes of the request's unique-identifier fields `uids` = (offset of the
/// payload in the request, payload length), in order, zero padded, and nothing else.
pub fn check_v4_fields_are_uid_echoes(resp: &[u8], n: usize, req: &[u8], uids: &[(usize, usize)]) {
    let mut pos = 48;
    let mut k = 0;
    while k < uids.len() {
        let (off, plen) = uids[k];
        assert!(pos + 4 <= n, "answer holds an echo for every unique identifier of the request");
        assert!(rd16(resp, pos) == EF_UID, "answer field is a unique identifier");
        let l = rd16(resp, pos + 2) as usize;
        assert!(l >= 4 + plen && l % 4 == 0 && l <= 64 && pos + l <= n, "echoed field is well-formed");
        assert!(same(resp, pos + 4, req, off, plen), "unique identifier echoed unchanged");
        assert!(all_zero(resp, pos + 4 + plen, l - 4 - plen), "padding of the echoed field is zero (nothing else reflected)");
        pos += l;
        k += 1;
    }
    assert!(pos == n, "nothing follows the echoed unique identifiers");
}

fn reflect_v4_once(msg: &[u8], env: &Env) -> Option<Kind> {
    let mut server = env.server(v5::BloomFilter::new(), empty_keyset());
    let mut stats = RecStats::default();
    let mut buf_backing = [0u8; BUF + SLACK];
    let buf = &mut buf_backing[..BUF];
    let out = handle_once(&mut server, env, msg, buf, &mut stats);
    std::mem::forget(server);
    match out {
        None => {
            assert!(env.require_nts == 2, "well-formed client request is answered");
            None
        }
        Some(n) => {
            let expect = if env.deny_client || env.require_nts == 1 { Kind::Deny } else { Kind::Time };
            check_header_v34(&buf[..n], msg, expect, env);
            check_v4_fields_are_uid_echoes(buf, n, msg, &[(68, 32)]);
            Some(expect)
        }
    }
}

/// T{ header48 | other(unknown type, 12 bytes) | uid(32) }: every byte symbolic, then the constant
/// words written element-wise (CBMC keeps per-element constants only for element-wise stores):
/// first byte, field types and lengths. Two fields only: every loop that iterates by pointer
/// (Vec::into_iter, slice iterators, drop glue) is unrolled up to the unwind bound whatever its
/// real trip count, nested, so the bound (= number of fields + 1) decides the cost.
fn reflect_v4(policy: Policy) -> Option<Kind> {
    const LEN: usize = 48 + 16 + 36;
    let mut backing: [u8; LEN + SLACK] = kani::any();
    let msg = &mut backing[..LEN];
    let env = Env::any();
    msg[0] = 0x23; // LI 0, version 4, client mode
    put_ef(msg, 48, OTHER_TYPE, 16);
    put_ef(msg, 64, EF_UID, 36);
    reflect_v4_once(msg, &env.with(policy))
}

srv_harness! {
    #[kani::unwind(3)]
    fn c18_reflect_v4_time() {
        let r = reflect_v4(Policy::Serve);
        kani::cover!(r == Some(Kind::Time), "time answer with echoed identifier");
    }
}

srv_harness! {
    #[kani::unwind(3)]
    fn c18_reflect_v4_deny() {
        let r = reflect_v4(Policy::DenyAddress);
        kani::cover!(r == Some(Kind::Deny), "DENY answer with echoed identifier");
    }
}

fn reflect_v5_once(msg: &[u8], env: &Env, bloom: &[u8; 512]) {
    let mut server = env.server(bh::bloom_from_bytes(*bloom), empty_keyset());
    let mut stats = RecStats::default();
    let mut buf_backing = [0u8; BUF + SLACK];
    let buf = &mut buf_backing[..BUF];
    let out = handle_once(&mut server, env, msg, buf, &mut stats);
    std::mem::forget(server);

    let bloom_off = rd16(msg, 64) as usize;
    match out {
        None => {
            assert!(env.require_nts == 2, "well-formed client request is answered");
        }
        Some(n) => {
            let resp = &buf[..n];
            let expect = if env.deny_client || env.require_nts == 1 { Kind::Deny } else { Kind::Time };
            check_header_v5(resp, msg, expect, env);
            // independent field walk
            let mut pos = 48;
            let mut uid_seen = 0;
            let mut ref_seen = 0;
            let mut draft_seen = 0;
            let mut fields = 0;
            while pos < n && fields < 5 {
                assert!(pos + 4 <= n, "field header inside the answer");
                let ty = rd16(resp, pos);
                let l = rd16(resp, pos + 2) as usize;
                let padded = (l + 3) & !3;
                assert!(l >= 4 && l <= 64 && pos + padded <= n, "answer field is well-formed");
                if ty == EF_UID {
                    assert!(uid_seen == 0 && ref_seen == 0 && draft_seen == 0, "identifier echo comes first, once");
                    assert!(l == 12 && same(resp, pos + 4, msg, 52, 8), "unique identifier echoed unchanged");
                    uid_seen += 1;
                } else if ty == EF_V5_REFID_RESP {
                    assert!(expect == Kind::Time && ref_seen == 0, "one reference-id response, in time answers only");
                    assert!(l == 12 && bloom_off + 8 <= 512, "response covers the requested slice");
                    let mut i = 0;
                    while i < 8 {
                        assert!(resp[pos + 4 + i] == bloom[bloom_off + i], "response carries the requested bloom filter bytes");
                        i += 1;
                    }
                    ref_seen += 1;
                } else if ty == EF_V5_DRAFT {
                    assert!(l == 27 && same(resp, pos + 4, DRAFT, 0, 23) && resp[pos + 27] == 0, "draft identification is the constant");
                    draft_seen += 1;
                } else if ty == EF_V5_PADDING {
                    assert!(expect == Kind::Time && all_zero(resp, pos + 4, padded - 4), "padding is zero");
                } else {
                    assert!(false, "answer contains a field that is not an echo, a reference-id response, the draft id or padding");
                }
                pos += padded;
                fields += 1;
            }
            assert!(pos == n, "fields cover the answer exactly");
            assert!(uid_seen == 1 && draft_seen == 1, "identifier echoed, draft id present");
            if expect == Kind::Time {
                assert!((ref_seen == 1) == (bloom_off + 8 <= 512), "reference-id response iff the requested slice exists");
            }
            kani::cover!(expect == Kind::Time && ref_seen == 1 && bloom_off > 0, "time answer with bloom filter slice");
            kani::cover!(expect == Kind::Time && ref_seen == 0, "time answer, slice out of range");
            kani::cover!(expect == Kind::Deny, "v5 DENY");
        }
    }
}

srv_harness! {
    #[kani::unwind(9)]
    fn c18_reflect_v5() {
        // T{ header48 | uid(8) | refid-request(offset, 8 bytes) | other(unknown type, 4 bytes) | draft-id }
        // constant: first byte, timescale/flags (the v5 header parser rejects other values through
        // `?`, which would make the parse result symbolic), field types/lengths, draft string.
        const LEN: usize = 48 + 12 + 12 + 8 + 28;
        let mut backing: [u8; LEN + SLACK] = kani::any();
        let msg = &mut backing[..LEN];
        let bloom: [u8; 512] = kani::any();
        let env = Env::any();
        msg[0] = 0x2B; // LI 0, version 5, request mode
        msg[12] = 0; // timescale UTC
        msg[14] = 0; // flags
        msg[15] = 0;
        put_ef(msg, 48, EF_UID, 12);
        put_ef(msg, 60, EF_V5_REFID_REQ, 12);
        put_ef(msg, 72, OTHER_TYPE, 8);
        put_ef(msg, 80, EF_V5_DRAFT, 27);
        macro_rules! put_draft { ($($i:expr),*) => { $( msg[84 + $i] = DRAFT[$i]; )* } }
        put_draft!(0, 1, 2, 3, 4, 5, 6, 7, 8, 9, 10, 11, 12, 13, 14, 15, 16, 17, 18, 19, 20, 21, 22);
        msg[107] = 0;
        // bloom filter offset of the reference-id request: constant per run (a symbolic offset
        // makes `to_response`'s Option symbolic): inside, last valid slice, out of range
        wr16(msg, 64, 8);
        reflect_v5_once(msg, &env.with(Policy::Serve), &bloom);
        reflect_v5_once(msg, &env.with(Policy::DenyAddress), &bloom);
        wr16(msg, 64, 504);
        reflect_v5_once(msg, &env.with(Policy::Serve), &bloom);
        wr16(msg, 64, 510);
        reflect_v5_once(msg, &env.with(Policy::Serve), &bloom);
    }
}

// ==========================================================================================
// Packet-level reflection harnesses: the answer *before* serialization (hook
// `server_handle_inner`, a thin wrapper around the private `Server::handle_inner`). The
// byte-level versions above (c18_reflect_*) are kept for reference but are NOT registered: symbolic
// execution of the serializer for an answer with even one echoed field needs 570 s of symex and
// then > 8 GB in the solver (measured). What is decided here: which extension fields the answer
// is made of. Their wire encoding is C24's subject.
use ntp_proto::verif::packet::{self as ph, Ef};
use ntp_proto::verif::server as sh;
use ntp_proto::verif::time_types as th;

fn is_uid_echo(ef: &Ef<'_>, req: &[u8], off: usize, len: usize) -> bool {
    match ef {
        Ef::UniqueIdentifier(d) => d.len() == len && same(d, 0, req, off, len),
        _ => false,
    }
}

/// NTPv4 T{ header48 | uid(8) | other(unknown type, 12 bytes) | uid(32) }
fn reflect_v4_inner(policy: Policy) -> Option<Kind> {
    const LEN: usize = 48 + 12 + 16 + 36;
    let mut backing: [u8; LEN + SLACK] = kani::any();
    let msg = &mut backing[..LEN];
    let env = Env::any().with(policy);
    msg[0] = 0x23; // LI 0, version 4, client mode
    put_ef(msg, 48, EF_UID, 12);
    put_ef(msg, 60, OTHER_TYPE, 16);
    put_ef(msg, 76, EF_UID, 36);
    let msg: &[u8] = msg;
    let mut server = env.server(v5::BloomFilter::new(), empty_keyset());
    let mut stats = RecStats::default();
    let res = sh::server_handle_inner(&mut server, env.client_ip(), env.recv(), msg, &mut stats);
    let out = match res {
        Err(_) => {
            assert!(false, "well-formed client request is answered");
            None
        }
        Ok(d) => {
            let p = &d.packet;
            let expect = if env.deny_client { Kind::Deny } else { Kind::Time };
            assert!(d.action == if env.deny_client { ServerResponse::Deny } else { ServerResponse::ProvideTime }, "policy outcome");
            assert!(d.cipher.is_none() && !d.nts, "plain answer");
            assert!(p.mode() == NtpAssociationMode::Server && p.version() == NtpVersion::V4, "server mode, request's version");
            if expect == Kind::Time {
                assert!(p.stratum() == env.stratum && th::ts_raw(p.receive_timestamp()) == env.recv_raw && th::ts_raw(p.transmit_timestamp()) == env.now_raw,
                    "time answer carries stratum, reception time, clock reading");
                assert!(p.poll() == th::poll_from_raw(msg[2] as i8), "poll echoed");
            } else {
                assert!(p.stratum() == 0 && th::ts_raw(p.receive_timestamp()) == 0 && th::ts_raw(p.transmit_timestamp()) == 0 && p.reference_id() == ReferenceId::KISS_DENY,
                    "DENY: stratum 0, no server timestamps");
            }
            let u = ph::packet_untrusted(p);
            assert!(ph::packet_authenticated(p).len() == 0 && ph::packet_encrypted(p).len() == 0, "nothing authenticated/encrypted in a plain answer");
            assert!(u.len() == 2, "C18: exactly the two unique identifiers are echoed, the unknown field is not reflected");
            assert!(is_uid_echo(&u[0], msg, 52, 8) && is_uid_echo(&u[1], msg, 80, 32), "identifiers echoed unchanged, in order");
            std::mem::forget(d);
            Some(expect)
        }
    };
    std::mem::forget(server);
    out
}

srv_harness! {
    #[kani::unwind(5)]
    fn c18_fields_v4_time() {
        let r = reflect_v4_inner(Policy::Serve);
        kani::cover!(r == Some(Kind::Time), "time answer made of the two identifier echoes");
    }
}

srv_harness! {
    #[kani::unwind(5)]
    fn c18_fields_v4_deny() {
        let r = reflect_v4_inner(Policy::DenyAddress);
        kani::cover!(r == Some(Kind::Deny), "DENY made of the two identifier echoes");
    }
}
