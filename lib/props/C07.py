NH = "np_nts_h"
_T = "layout template (fixed type/length framing, symbolic content): "
PROP = dict(
    functions=[
        "ntp_proto::source::NtpSource<RecCtl>::{handle_incoming,process_message}",
        "ntp_proto::packet::NtpPacket::{deserialize,valid_server_response,new_cookies,is_kiss_*,authenticated_extension_fields}",
        "ntp_proto::packet::extension_fields::{ExtensionFieldData::deserialize,RawEncryptedField::{from_message_bytes,decrypt},RawExtensionField::deserialize_sequence,ExtensionField::decode}",
        "ntp_proto::packet::check_uid_extensionfield, ntp_proto::cookiestash::CookieStash::store, RemoteBloomFilter::handle_response",
    ],
    bounds="ONE datagram against an NTS source (NTPv4 or NTPv5: the versions an NTS key exchange yields) with a request in flight: arbitrary pending unique id (32 bytes), "
           "origin timestamp / client cookie, deadline and clock; arbitrary stash fill 0..=8, server-requested minimum 4..=17, reach, tries, deny flag, stratum. Datagram = "
           + _T + "header48 [+draft-id (v5)] + uid field(36) [+ field Y of 16/20 bytes, symbolic type] [+ authenticator field with 16-byte nonce and 0..2 encrypted 16-byte fields of "
           "symbolic type] [+ trailing field X of 16..28 bytes, symbolic type]; all header bytes symbolic except the version bits; the attacker may copy uid and origin from the request. "
           "One datagram per pending request suffices: every observable that a datagram can change is part of the arbitrary pre-state.",
    outside="real AES-SIV (ideal-AEAD model, below); datagrams with other field lengths/counts than the templates; version bits other than the source's version (dropped before "
            "anything else: C12); symbolic field types never equal the NTPv5 draft-identification type (UTF-8 validation; the genuine draft-id field is concrete); "
            "NTS sources in the V4UpgradingToV5/UpgradedToV5 states (an NTS key exchange never yields them)",
    assumptions=[
        "IDEAL AEAD (trusted base): decrypt under s2c succeeds iff the ghost flag says the server really produced exactly this (associated data, nonce, ciphertext) triple - "
        "identified by its extents in the datagram: AAD = everything before the authenticator field, nonce = its 16 nonce bytes, ciphertext = its ciphertext bytes; any other "
        "call (other extents, other key, flag unset = forgery) fails. The flag is symbolic, so genuine responses, replays of genuine responses to other requests and forgeries "
        "with arbitrary content are all covered. Confidentiality is not modelled.",
        "'bound to the pending request' = unique-identifier field (in front of the authenticator) equals the pending one AND origin timestamp (v4) / client cookie (v5) equals the pending one",
        "pre-state set through hooks (set_pending etc.); that handle_timer leaves exactly such a state (pending uid = uid on the wire) is checked by c13_poll_struct_*/c13_poll_wire_*",
        "c07_v5_* (non-kf) exclude the known-defect region: NTPv5, stratum 0, authnak flag, poll byte = 127 or > last poll interval, datagram not (authentic and bound)",
    ],
    stub_notes=[
        "core::str::from_utf8 / <[u8]>::is_ascii: ASCII-only models (exact at their only call site, decode_draft_identification)",
        "clock: ghost non-decreasing instants (deadline check of the pending request is real code)",
    ],
    harnesses=[
        H(NH, "c07", "c07_v4_plain", "NTPv4, no authenticator: " + _T + "hdr+uid+X(28). Nothing is accepted, no state change (incl. NTS-NAK and other kiss codes)", timeout=300),
        H(NH, "c07", "c07_v4_nts", "NTPv4, hdr+uid+Y(16)+authenticator(1 encrypted field)+X(28): effects only if authentic and bound; stored cookies = exactly the encrypted cookie fields; "
          "cookies in clear (before or after the authenticator) are never stored", timeout=300),
        H(NH, "c07", "c07_v4_nts2", "NTPv4, hdr+uid+authenticator(2 encrypted fields): cookie order and stash overflow", tier="thorough", timeout=900),
        H(NH, "c07", "c07_v5_plain", "NTPv5, no authenticator: hdr+draft+uid+X(16); outside the known-defect region", timeout=300),
        H(NH, "c07", "c07_v5_nts", "NTPv5, hdr+draft+uid+Y(20)+authenticator(1)+X(20): as c07_v4_nts, plus: a Bloom-filter chunk is only taken from an authenticated field", timeout=300),
        H(NH, "c07", "c07_v5_nts2", "NTPv5, hdr+draft+uid+authenticator(2 encrypted fields)", tier="thorough", timeout=900),
        H(NH, "c07", "c07_v5_plain_kf_authnak_kiss", "KNOWN DEFECT region: unauthenticated NTPv5 datagram with stratum 0 + authnak flag + poll 127 / > own interval and the (clear-text) "
          "unique id and client cookie of the request: valid_server_response lets it pass (NTS-NAK exception), then the RATE/DENY branches run before the NTS-NAK branch: "
          "poll rate raised or source demobilised without authentication", timeout=300),
    ],
)
