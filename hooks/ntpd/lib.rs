//! Verification hooks (guard: cargo feature `pendulum_project_ntpd_rs_verif`). Re-export plumbing only.
#![allow(missing_docs, unused_imports)]
pub use crate::ctl::vh_ctl as ctl;
pub use crate::daemon::vh_daemon_mod as daemon;
pub use crate::metrics::vh_metrics_mod as metrics;
