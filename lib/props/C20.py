NS = "np_server_h"
PROP = dict(
    functions=[
        "ntp_proto::server::TimestampedCache<IpAddr>::{new, index, is_allowed} (real, through hook wrapper CacheH)",
        "position in the policy: ntp_proto::server::Server::intended_action via handle_inner (c15_policy_ratelimit)",
    ],
    bounds=("cache size N = 0, 1, 2, 3 (one harness each); 3 calls (address, instant) with symbolic IPv4 addresses symbolic SipHash keys, "
            "non-decreasing instants < 2^40 s, symbolic cutoff < 2^41 s. Reference model keyed by the slot each call is observed to use: call i is refused iff the "
            "previous call that used the same slot had the same address and arrived less than cutoff earlier; N = 0 never refuses; every call touches exactly one "
            "slot and records (address, arrival time); equal addresses use the same slot. Server level: cache size 1, slot pre-state arbitrary, one call."),
    outside=("more than 3 calls / more than 3 slots; SipHash finalisation (modelled, see stub_notes); IPv6 addresses at the cache level (c20_cache_v6_n2/n3: 15 min cap hit; IPv6 and IPv4-mapped clients are covered at the server level with N = 1); "
             "Instant::now() itself (ghost clock)"),
    assumptions=["instants are non-decreasing (monotonic clock)", "hash finalisation model (stub_notes)"],
    stub_notes=[
        "<DefaultHasher as Hasher>::finish -> 8-bit XOR fold of the SipHash state (keys, compression state after the real write() calls, tail, length): deterministic in "
        "(keys, data), not injective. Reason: index = hash % len with a 64-bit symbolic hash is a 64x64 multiplier constraint (h = q*len + r) the SAT solver has to invert "
        "(>10 min per query, measured); with 8 bits: seconds",
        "RandomState::new -> ghost keys (symbolic); Instant values built by transmute (stubs::make_instant)",
    ],
    harnesses=[
        H(NS, "c20", "c20_cache_n0", "cache size 0: never refuses"),
        H(NS, "c20", "c20_cache_n1", "1 slot, 3 calls vs. reference model", timeout=400),
        H(NS, "c20", "c20_cache_n2", "2 slots, 3 calls vs. reference model (slot sharing, eviction by another address)", timeout=400),
        H(NS, "c15", "c15_policy_ratelimit", "Server level: rate limit sits after both lists; listed clients never touch the cache; RateLimit reason recorded", timeout=400),
        H(NS, "c20", "c20_cache_n3", "3 slots, 3 calls", tier="thorough"),
    ],
)
