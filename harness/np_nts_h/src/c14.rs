//! Harnesses for property C14 (see /verif/properties.jsonl):
//! producing the next request either yields a packet that fits the 1024-byte send buffer or asks
//! for a reset; it never crashes (Kani checks every panic, `expect`, index and overflow on the way).
//!
//! Encoding a request with many extension fields symbolically is out of reach (measured on
//! `NtpSource::handle_timer` with NTS: global unwind 8 = 17 s, unwind 10 > 5 min and > 4 GB, because
//! the encoder dispatches on a symbolic field kind at a symbolic cursor position in every
//! iteration). The claim is therefore decided in pieces, each a solver query over its whole space:
//!   * c14_poll_wire_* / c14_poll_edge_*: the REAL `handle_timer` + REAL encoder for every request
//!     with at most 3 (NTPv4) / 2 (NTPv5) cookie-sized fields: all stash fills when the cookie is
//!     long (L >= 242: at most 2 fit), stash fill 6..=8 / 7..=8 otherwise;
//!   * c14_ef_size: the REAL per-field encoder for the cookie-dependent fields, every L <= 1024 and
//!     every remaining buffer size: writes exactly E(L) bytes or fails cleanly;
//!   * c14_budget: with the sizes established above, the number of fields `handle_timer` asks for
//!     (its margin rule, recomputed here from the property text) never exceeds the buffer — for all
//!     L <= 1024, all stash fills, both wire formats (arithmetic over the harness's own formula,
//!     tied to the code by the two harness groups above);
//!   * c14_write_zeros_model: the loop-free model of `write_zeros` used in the poll harnesses equals
//!     the real loop;
//!   * c14_poll_plain: sources without NTS, all protocol versions.
use crate::common::*;
use crate::stubs;
use ntp_proto::verif::packet::extension_fields as eh;
use ntp_proto::verif::source as sh;
use ntp_proto::*;
use std::borrow::Cow;
use std::io::Cursor;

/// wire size of a cookie / placeholder field for a cookie of length l (RFC 7822: 4-byte header,
/// value padded to a word, at least 16 bytes)
fn ef_wire(l: usize) -> usize {
    core::cmp::max((l + 3) / 4 * 4 + 4, 16)
}

/// number of cookies requested (property text + documented margin): min(missing, floor(724/max(L,1)))
fn asked(valid: usize, l: usize) -> usize {
    let missing = MAX_COOKIES - (valid - 1);
    core::cmp::min(missing, 724 / core::cmp::max(l, 1))
}

/// One NTS `handle_timer` with the real encoder. The oldest cookie (the one that is sent and that
/// sizes the placeholders) has length `l` (zero content: content does not influence sizes).
fn c14_wire_body(l: usize, cap: usize, valid_lo: usize, version_sel: u8) {
    stubs::symbolic_clock();
    sym_rng();
    let valid: usize = kani::any();
    kani::assume(valid <= MAX_COOKIES && (valid == 0 || valid >= valid_lo));
    let tries_left: u8 = kani::any();
    let desired: i8 = kani::any();
    kani::assume(desired >= 0 && desired <= 17);
    let reach: u8 = kani::any();
    let tries: usize = kani::any();
    kani::assume(tries <= 4);
    kani::assume(l <= cap);

    let mut oldest = vec![0u8; cap];
    oldest.truncate(l);
    let nts = sh::nts_data_with_stash(stash0(valid, oldest), c2s(), s2c());
    let version = version_from(version_sel, tries_left);
    let v5 = version_sel != 0;
    let mut src = new_source(version, SourceConfig::default(), poll(desired), Some(nts));
    sh::set_reach(&mut src, reach);
    sh::set_tries(&mut src, tries);

    let (acts, n) = collect_actions(src.handle_timer());

    let sent = match &acts[0] {
        Some(NtpSourceAction::Send(p)) => {
            assert!(n == 2 && matches!(acts[1], Some(NtpSourceAction::SetTimer(_))), "Send is followed by SetTimer only");
            assert!(p.len() <= 1024, "request fits the 1024-byte send buffer");
            assert!(valid >= 1 && l <= 724, "a request is only built when a cookie that leaves room exists");
            let fixed = if v5 { 48 + 36 + 28 + 20 + 40 } else { 48 + 36 + 40 };
            assert!(p.len() == fixed + asked(valid, l) * ef_wire(l), "datagram size = fixed part + one field per requested cookie");
            true
        }
        Some(NtpSourceAction::Reset) => {
            assert!(n == 1, "Reset stands alone");
            assert!(valid == 0 || l > 724 || (reach == 0 && tries >= 3), "reset only without cookie, with an oversize cookie, or when unreachable");
            false
        }
        _ => {
            assert!(false, "either Send+SetTimer or Reset");
            false
        }
    };
    if cap <= 724 {
        kani::cover!(sent && valid == 8, "request from a full stash");
        kani::cover!(sent && valid == valid_lo && l == cap, "request with the most fields of this harness");
        kani::cover!(!sent && valid == 0, "reset: no cookies");
    } else {
        kani::cover!(!sent && valid == 8 && reach != 0, "reset: oversize cookie");
    }
}

nharness! {
    #[kani::unwind(8)]
    fn c14_poll_wire_v4() {
        let l: usize = kani::any();
        c14_wire_body(l, 64, 6, 0);
    }
}

nharness! {
    #[kani::unwind(8)]
    fn c14_poll_wire_v5() {
        let l: usize = kani::any();
        let sel: u8 = kani::any();
        kani::assume(sel >= 1 && sel <= 3);
        c14_wire_body(l, 64, 7, sel);
    }
}

// boundary lengths, concrete (each harness: all stash fills that keep the field count within the
// unwind bound, all random draws, poll/reach states):
//   L >= 242: at most 2 cookies fit -> every stash fill 0..=8
//   L <  242: stash fill 6..=8 (v4) / 7..=8 (v5)
macro_rules! edge {
    ($name4:ident, $name5:ident, $l:expr) => {
        nharness! {
            #[kani::unwind(8)]
            fn $name4() {
                c14_wire_body($l, $l, if $l >= 242 { 1 } else { 6 }, 0);
            }
        }
        nharness! {
            #[kani::unwind(8)]
            fn $name5() {
                c14_wire_body($l, $l, if $l >= 242 { 1 } else { 7 }, 3);
            }
        }
    };
}
// u8 wrap of the fit computation (255/256), steps of floor(724/L) (90/91, 103/104, 120/121,
// 144/145, 181/182, 241/242, 361/362/363), the margin (723/724/725), the buffer (1020/1024)
edge!(c14_poll_edge_v4_90, c14_poll_edge_v5_90, 90);
edge!(c14_poll_edge_v4_91, c14_poll_edge_v5_91, 91);
edge!(c14_poll_edge_v4_103, c14_poll_edge_v5_103, 103);
edge!(c14_poll_edge_v4_104, c14_poll_edge_v5_104, 104);
edge!(c14_poll_edge_v4_120, c14_poll_edge_v5_120, 120);
edge!(c14_poll_edge_v4_121, c14_poll_edge_v5_121, 121);
edge!(c14_poll_edge_v4_144, c14_poll_edge_v5_144, 144);
edge!(c14_poll_edge_v4_145, c14_poll_edge_v5_145, 145);
edge!(c14_poll_edge_v4_181, c14_poll_edge_v5_181, 181);
edge!(c14_poll_edge_v4_182, c14_poll_edge_v5_182, 182);
edge!(c14_poll_edge_v4_241, c14_poll_edge_v5_241, 241);
edge!(c14_poll_edge_v4_242, c14_poll_edge_v5_242, 242);
edge!(c14_poll_edge_v4_255, c14_poll_edge_v5_255, 255);
edge!(c14_poll_edge_v4_256, c14_poll_edge_v5_256, 256);
edge!(c14_poll_edge_v4_361, c14_poll_edge_v5_361, 361);
edge!(c14_poll_edge_v4_362, c14_poll_edge_v5_362, 362);
edge!(c14_poll_edge_v4_363, c14_poll_edge_v5_363, 363);
edge!(c14_poll_edge_v4_723, c14_poll_edge_v5_723, 723);
edge!(c14_poll_edge_v4_724, c14_poll_edge_v5_724, 724);
edge!(c14_poll_edge_v4_725, c14_poll_edge_v5_725, 725);
edge!(c14_poll_edge_v4_1020, c14_poll_edge_v5_1020, 1020);
edge!(c14_poll_edge_v4_1024, c14_poll_edge_v5_1024, 1024);

// ------------------------------------------------------------------------------------------
// the per-field encoder, every cookie length and every remaining buffer size
#[kani::proof]
#[kani::unwind(36)]
fn c14_ef_size() {
    let l: usize = kani::any();
    kani::assume(l <= 1024);
    let room: usize = kani::any();
    kani::assume(room <= 1100);
    let kind: u8 = kani::any();
    kani::assume(kind <= 1);
    let v5: bool = kani::any();
    let fill: u8 = kani::any();
    let j: usize = kani::any();

    let mut value = vec![fill; 1024];
    value.truncate(l);
    let ef = if kind == 0 { eh::ExtField::NtsCookie(Cow::Owned(value)) } else { eh::ExtField::NtsCookiePlaceholder { cookie_length: l as u16 } };
    let mut buf = [0xEEu8; 1100];
    let mut w = Cursor::new(&mut buf[..room]);
    let version = if v5 { ExtensionHeaderVersion::V5 } else { ExtensionHeaderVersion::V4 };
    // minimum size 16: what the encoder uses for fields in front of the authenticator
    let r = eh::ef_serialize_hook(&ef, &mut w, 16, version);
    let pos = w.position() as usize;
    let want = ef_wire(l);
    if room >= want {
        assert!(r.is_ok(), "the field is written when it fits");
        assert!(pos == want, "a cookie-sized field occupies exactly max(16, 4 + L rounded up to a word) bytes");
        let len_field = ((buf[2] as usize) << 8) | buf[3] as usize;
        if v5 {
            assert!(len_field == core::cmp::max(l + 4, 16), "NTPv5 length field: unpadded length, at least 16");
        } else {
            assert!(len_field == want, "NTPv4 length field: padded length");
        }
        if j >= 4 && j < want {
            let expect = if kind == 0 && j - 4 < l { fill } else { 0 };
            assert!(buf[j] == expect, "value, then zero padding");
        }
    } else {
        assert!(r.is_err(), "a field that does not fit is an error, never a panic");
        assert!(pos <= room);
    }
    kani::cover!(r.is_ok() && l == 1024 && kind == 1, "largest placeholder");
    kani::cover!(r.is_ok() && l == 0, "empty cookie: padded to the minimum");
    kani::cover!(r.is_err() && room > 16, "does not fit");
    kani::cover!(r.is_ok() && v5 && l % 4 == 1, "v5 unpadded length");
}

// ------------------------------------------------------------------------------------------
// the margin rule against the sizes: arithmetic over all cookie lengths and stash fills
#[kani::proof]
fn c14_budget() {
    let l: usize = kani::any();
    kani::assume(l <= 1024);
    let valid: usize = kani::any();
    kani::assume(valid >= 1 && valid <= MAX_COOKIES);
    let v5: bool = kani::any();
    let n = asked(valid, l);
    let fixed = if v5 { 48 + 36 + 28 + 20 + 40 } else { 48 + 36 + 40 };
    if n >= 1 {
        assert!(fixed + n * ef_wire(l) <= 1024, "header + identifier + requested cookie fields + authenticator fit 1024 bytes");
    } else {
        assert!(l > 724, "no cookie can be requested only for cookies longer than the margin allows");
    }
    kani::cover!(n == 8 && v5 && fixed + n * ef_wire(l) > 900, "close to the limit with eight fields");
    kani::cover!(n == 1 && l == 724, "largest cookie that is still sent");
}

// ------------------------------------------------------------------------------------------
// the write_zeros model used by the poll harnesses (common.rs) against the real loop
#[kani::proof]
#[kani::unwind(36)]
fn c14_write_zeros_model() {
    let n: usize = kani::any();
    kani::assume(n <= 1100);
    let room: usize = kani::any();
    kani::assume(room <= 1100);
    let start: usize = kani::any();
    kani::assume(start <= room);
    let j: usize = kani::any();
    kani::assume(j < 1100);
    let mut a = [0xEEu8; 1100];
    let mut b = [0xEEu8; 1100];
    let (ra, pa) = {
        let mut w = Cursor::new(&mut a[..room]);
        w.set_position(start as u64);
        let r = eh::write_zeros_hook(&mut w, n);
        (r.is_ok(), w.position() as usize)
    };
    let (rb, pb) = {
        let mut w = Cursor::new(&mut b[..room]);
        w.set_position(start as u64);
        let r = write_zeros_single(&mut w, n);
        (r.is_ok(), w.position() as usize)
    };
    assert!(ra == rb, "model and loop succeed/fail together");
    assert!(ra == (start + n <= room), "fails exactly when the zeros do not fit");
    if ra {
        assert!(pa == pb && pa == start + n, "same final position");
        assert!(a[j] == b[j], "same bytes");
        assert!(a[j] == if j >= start && j < start + n { 0 } else { 0xEE }, "exactly n zero bytes");
    }
    kani::cover!(ra && n == 1100 && start == 0, "largest run");
    kani::cover!(!ra && n > 32, "does not fit");
    kani::cover!(ra && n == 0, "nothing to write");
}

// ------------------------------------------------------------------------------------------
// sources without NTS: all protocol versions
harness! {
    #[kani::unwind(12)]
    #[kani::stub(std::collections::HashMap::insert, crate::stubs::hashmap_insert_noop)]
    fn c14_poll_plain() {
        stubs::symbolic_clock();
        stubs::symbolic_rng();
        let version_sel: u8 = kani::any();
        kani::assume(version_sel <= 3);
        let tries_left: u8 = kani::any();
        let desired: i8 = kani::any();
        let remote: i8 = kani::any();
        let reach: u8 = kani::any();
        let tries: usize = kani::any();
        let have_deny: bool = kani::any();

        let mut src = new_source(version_from(version_sel, tries_left), SourceConfig::default(), poll(desired), None);
        sh::set_remote_min_poll_interval(&mut src, poll(remote));
        sh::set_reach(&mut src, reach);
        sh::set_tries(&mut src, tries);
        sh::set_have_deny(&mut src, have_deny);

        let (acts, n) = collect_actions(src.handle_timer());
        let sent = match &acts[0] {
            Some(NtpSourceAction::Send(p)) => {
                assert!(n == 2 && matches!(acts[1], Some(NtpSourceAction::SetTimer(_))), "Send is followed by SetTimer only");
                assert!(p.len() <= 1024, "request fits the 1024-byte send buffer");
                true
            }
            Some(NtpSourceAction::Reset) | Some(NtpSourceAction::Demobilize) => {
                assert!(n == 1, "Reset/Demobilize stands alone");
                assert!(reach == 0 && tries >= 3, "only an unreachable source gives up");
                false
            }
            _ => {
                assert!(false, "Send+SetTimer, Reset or Demobilize");
                false
            }
        };
        kani::cover!(sent && version_sel == 3, "v5 request");
        kani::cover!(sent && version_sel == 1, "upgrade request");
        kani::cover!(sent && version_sel == 0 && desired == -128, "extreme poll exponent");
        kani::cover!(!sent && have_deny, "demobilize");
    }
}

// ---- probes (not registered)
fn probe_body(valid: usize, l: usize, v5: bool) {
    sym_rng();
    let oldest = vec![0u8; l];
    let stash = stash0(valid, oldest);
    let nts = sh::nts_data_with_stash(stash, c2s(), s2c());
    let mut src = new_source(if v5 { ProtocolVersion::V5 } else { ProtocolVersion::V4 }, SourceConfig::default(), poll(6), Some(nts));
    let (acts, n) = collect_actions(src.handle_timer());
    match &acts[0] {
        Some(NtpSourceAction::Send(p)) => assert!(p.len() <= 1024),
        _ => assert!(false),
    }
}
nharness! {
    #[kani::unwind(10)]
    fn probe_u10() { probe_body(4, 4, false); }
}
nharness! {
    #[kani::unwind(8)]
    fn probe_v4_6_64() { probe_body(6, 64, false); }
}
nharness! {
    #[kani::unwind(8)]
    fn probe_v5_8_64() { probe_body(8, 64, true); }
}
