//! Safe-Rust verification hooks for `cookiestash` (accessors/wrappers only; no logic).
#![allow(unused_imports, dead_code)]
use super::*;

/// Public wrapper so that an external crate can hold the crate-private `CookieStash`.
pub struct StashH(pub(crate) CookieStash);

impl StashH {
    pub fn new() -> Self {
        StashH(CookieStash::default())
    }
    pub fn from_raw(cookies: [Vec<u8>; MAX_COOKIES], read: usize, valid: usize) -> Self {
        StashH(CookieStash { cookies, read, valid })
    }
    pub fn read(&self) -> usize {
        self.0.read
    }
    pub fn valid(&self) -> usize {
        self.0.valid
    }
    pub fn slot(&self, i: usize) -> &Vec<u8> {
        &self.0.cookies[i]
    }
    pub fn store(&mut self, c: Vec<u8>) {
        self.0.store(c);
    }
    pub fn get(&mut self) -> Option<Vec<u8>> {
        self.0.get()
    }
    pub fn gap(&self) -> u8 {
        self.0.gap()
    }
    pub fn len(&self) -> usize {
        self.0.len()
    }
    pub fn is_empty(&self) -> bool {
        self.0.is_empty()
    }
}

pub(crate) fn peek(s: &CookieStash, i: usize) -> &Vec<u8> {
    &s.cookies[(s.read + i) % MAX_COOKIES]
}
