//! Safe-Rust verification hooks for this module (accessors/wrappers only; no logic).
#![allow(unused_imports, dead_code)]
use super::*;
pub use super::crypto::verif_hooks as crypto;
pub use super::extension_fields::verif_hooks as extension_fields;
pub use super::mac::verif_hooks as mac;
pub use super::v5::verif_hooks as v5;

pub fn request_identifier(t: NtpTimestamp, uid: Option<[u8; 32]>) -> RequestIdentifier {
    RequestIdentifier { expected_origin_timestamp: t, uid }
}
pub fn request_identifier_parts(id: RequestIdentifier) -> (NtpTimestamp, Option<[u8; 32]>) {
    (id.expected_origin_timestamp, id.uid)
}
