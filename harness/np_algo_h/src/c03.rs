//! Harnesses for property C03 (see /verif/properties.jsonl): the selection that feeds clock
//! steering is non-empty only if at least `minimum_agreeing_sources` eligible sources
//! (non-periodic, synchronised, radius <= maximum_source_uncertainty) have confidence intervals
//! with a common point and they are a strict majority of all eligible sources; unsynchronised or
//! too uncertain sources are never returned.
//!
//! The oracle is an independent O(n^2) recount that uses only comparisons on the interval
//! end points. The end points are computed in the harness from the documented definition
//! (radius = uncertainty * range_statistical_weight + delay * range_delay_weight); IEEE arithmetic
//! is deterministic, so the oracle and the code see identical floats.
use crate::common::*;
use crate::stubs;
use ntp_proto::verif::algorithm::kalman as kh;
use ntp_proto::verif::time_types as tt;
use ntp_proto::{AlgorithmConfig, NtpLeapIndicator, SynchronizationConfig};

pub struct Cand {
    pub offset: f64,
    pub variance: f64,
    pub delay: f64,
    pub leap: u8,
    pub periodic: bool,
}

fn snap(index: u64, c: &Cand) -> kh::SnapH {
    kh::snapshot_from_raw(
        index,
        [c.offset, 0.0],
        [[c.variance, 0.0], [0.0, 0.0]],
        tt::ts_from_raw(0),
        0.0,
        c.delay,
        if c.periodic { Some(1.0) } else { None },
        tt::dur_from_raw(0),
        tt::dur_from_raw(0),
        leap_from_code(c.leap),
        tt::ts_from_raw(0),
    )
}

/// `exact_sqrt`: variance restricted to 0.0 (sqrt is exact and cheap; the radius varies through
/// the delay term). Otherwise the variance is an arbitrary finite non-negative number.
fn select_body<const N: usize>(zero_variance: bool, symbolic_weights: bool, grid: bool, part: u8) {
    // ---- all symbolic values first
    // exactly N candidates; smaller candidate sets are the cases where some candidates are
    // unsynchronised (those are skipped by both passes of `select`, i.e. behave as absent)
    let n: usize = N;
    let min_agree: usize = kani::any();
    let limit: f64 = kani::any();
    kani::assume(!limit.is_nan());
    let (w_stat, w_delay) = if symbolic_weights {
        let a: f64 = kani::any();
        let b: f64 = kani::any();
        kani::assume(a.is_finite() && a >= 0.0 && b.is_finite() && b >= 0.0);
        (a, b)
    } else {
        (AlgorithmConfig::default().range_statistical_weight, AlgorithmConfig::default().range_delay_weight)
    };
    let mut cands: [Cand; N] = std::array::from_fn(|_| Cand { offset: 0.0, variance: 0.0, delay: 0.0, leap: 0, periodic: false });
    let mut i = 0;
    while i < N {
        let offset: f64 = kani::any();
        let variance: f64 = kani::any();
        let delay: f64 = kani::any();
        let leap: u8 = kani::any();
        let periodic: bool = kani::any();
        let grid_offset: i8 = kani::any();
        let grid_radius: u8 = kani::any();
        // grid: offsets are whole seconds in i16, delays are 4*k seconds (k in u8) so that with the
        // default weights every interval end point is a small integer (exact arithmetic, and the
        // SAT solver can identify the copies of the end-point computation; with arbitrary f64 it
        // cannot: measured > 10 min for two candidates)
        kani::assume(grid_radius < 16);
        let (offset, delay) = if grid { (grid_offset as f64, (grid_radius as u32 * 4) as f64) } else { (offset, delay) };
        kani::assume(offset.is_finite());
        kani::assume(delay.is_finite() && delay >= 0.0);
        kani::assume(variance.is_finite() && variance >= 0.0);
        kani::assume(leap <= 4);
        // zero_variance: the drawn value is ignored and the variance is the constant 0.0, so that
        // sqrt(0.0) * weight folds to a constant (every re-evaluation of the radius inside the
        // filter iterator would otherwise carry CBMC's sqrt model: two 53-bit multipliers each)
        let variance = if zero_variance { 0.0 } else { variance };
        cands[i] = Cand { offset, variance, delay, leap, periodic };
        i += 1;
    }

    let sync = SynchronizationConfig { minimum_agreeing_sources: min_agree, ..SynchronizationConfig::default() };
    let algo = AlgorithmConfig {
        maximum_source_uncertainty: limit,
        range_statistical_weight: w_stat,
        range_delay_weight: w_delay,
        ..AlgorithmConfig::default()
    };
    let mut v = kh::SnapVecH::with_capacity(N);
    let mut lo = [0.0f64; N];
    let mut hi = [0.0f64; N];
    let mut radius = [0.0f64; N];
    let mut elig = [false; N];
    let mut n_elig = 0usize;
    let mut i = 0;
    while i < N {
        {
            let s = snap(i as u64 + 1, &cands[i]);
            // documented definition of the confidence interval
            let r = s.offset_uncertainty() * w_stat + cands[i].delay * w_delay;
            kani::assume(!r.is_nan());
            radius[i] = r;
            lo[i] = cands[i].offset - r;
            hi[i] = cands[i].offset + r;
            // lemma (true for r >= 0 by monotonicity of IEEE rounding); stated so that the solver
            // need not derive it from the adder circuits
            kani::assume(lo[i] <= hi[i]);
            elig[i] = i < n && !cands[i].periodic && cands[i].leap != 4 && r <= limit;
            if elig[i] {
                n_elig += 1;
            }
            v.push(s);
        }
        i += 1;
    }

    // ---- code under test
    let sel = kh::select::select_hook(&sync, &algo, &v);

    // ---- oracle
    // (a) every returned source is one of the candidates, synchronised and not too uncertain
    let mut k = 0;
    while part & 1 != 0 && k < N {
        if k < sel.len() {
            let idx = sel.index_at(k);
            assert!(idx >= 1 && idx <= n as u64, "returned source is a candidate");
            let j = (idx - 1) as usize;
            assert!(cands[j].leap != 4, "an unsynchronised source is never selected");
            assert!(radius[j] <= limit, "a source above the uncertainty limit is never selected");
            // distinct: returned in candidate order
            if k + 1 < sel.len() {
                assert!(sel.index_at(k + 1) > idx, "no source is returned twice");
            }
        }
        k += 1;
    }
    assert!(sel.len() <= n, "not more sources than candidates");
    // (b) non-empty selection => an agreeing strict majority of the eligible sources exists
    if part & 2 != 0 && !sel.is_empty() {
        let mut witness = false;
        let mut i = 0;
        while i < N {
            if elig[i] {
                // sources whose interval contains the left end point of source i
                let mut cnt = 0usize;
                let mut j = 0;
                while j < N {
                    if elig[j] && lo[j] <= lo[i] && lo[i] <= hi[j] {
                        cnt += 1;
                    }
                    j += 1;
                }
                if cnt >= min_agree && cnt >= 1 && 2 * cnt > n_elig {
                    witness = true;
                }
            }
            i += 1;
        }
        assert!(witness, "selection non-empty only with an agreeing strict majority of at least the configured minimum");
    }
    kani::cover!(sel.len() == n && n == N, "all candidates selected");
    kani::cover!(sel.is_empty() && n_elig >= 2 && min_agree <= 1, "no majority: eligible sources disagree");
    kani::cover!(!sel.is_empty() && sel.len() < n_elig, "majority found, an outlier dropped");
    kani::cover!(!sel.is_empty() && n_elig < n, "ineligible candidate present while selecting");
    kani::cover!(sel.is_empty() && n_elig > 0 && n_elig < min_agree && min_agree <= N, "too few agreeing sources");
}

/// Geometry harness body: N candidates whose *eligibility is syntactically concrete* (given by
/// `kinds`), so that the first pass of `select` has concrete control flow and a concrete number
/// of interval bounds. kinds[i]: 0 = eligible (radius RADII[i] <= limit), 1 = unsynchronised,
/// 2 = periodic, 3 = too uncertain (radius 1.0 > limit 0.25).
/// Offsets are symbolic multiples of 1/16 s in [-8, 8) (exact binary fractions), radii are the
/// fixed dyadic values 0, 1/16, 1/8, 1/4 (different sizes: nesting and partial overlap are
/// reachable; candidates 2 and 3 get part of their radius from the statistical term), default
/// weights and uncertainty limit, symbolic minimum_agreeing_sources.
fn geometry_body<const N: usize>(kinds: [u8; N]) {
    // radius = sqrt(variance) * 2 + delay * 0.25 (default weights): 0, 1/16, 2/16, 4/16
    const DELAYS: [f64; 4] = [0.0, 0.25, 0.0, 0.5];
    const VARIANCES: [f64; 4] = [0.0, 0.0, 0.00390625, 0.00390625];
    // the uninterpreted sqrt is given its true value on the one non-zero variance used: sqrt(1/256) = 1/16
    sqrt_uf_define(0, 0.00390625, 0.0625);
    let min_agree: usize = kani::any();
    let mut grid = [0i32; N];
    let mut i = 0;
    while i < N {
        let g: i8 = kani::any();
        grid[i] = g as i32;
        i += 1;
    }
    let algo = AlgorithmConfig::default();
    let sync = SynchronizationConfig { minimum_agreeing_sources: min_agree, ..SynchronizationConfig::default() };
    let mut v = kh::SnapVecH::with_capacity(N);
    // integer picture of the intervals in units of 1/16 s
    let mut lo = [0i32; N];
    let mut hi = [0i32; N];
    let mut elig = [false; N];
    let mut n_elig = 0usize;
    let mut i = 0;
    while i < N {
        let delay = if kinds[i] == 3 { 4.0 } else { DELAYS[i % 4] };
        let r16: i32 = if kinds[i] == 3 { 16 } else { [0, 1, 2, 4][i % 4] };
        let variance = if kinds[i] == 3 { 0.0 } else { VARIANCES[i % 4] };
        let c = Cand { offset: (grid[i] as f64) * 0.0625, variance, delay, leap: if kinds[i] == 1 { 4 } else { 0 }, periodic: kinds[i] == 2 };
        v.push(snap(i as u64 + 1, &c));
        lo[i] = grid[i] - r16;
        hi[i] = grid[i] + r16;
        elig[i] = kinds[i] == 0;
        if elig[i] {
            n_elig += 1;
        }
        i += 1;
    }
    let sel = kh::select::select_hook(&sync, &algo, &v);
    // (a) returned sources: candidates, synchronised, within the uncertainty limit, no duplicates
    let mut k = 0;
    let mut prev = 0u64;
    while k < N {
        if k < sel.len() {
            let idx = sel.index_at(k);
            assert!(idx >= 1 && idx <= N as u64, "returned source is a candidate");
            let j = (idx - 1) as usize;
            assert!(kinds[j] != 1, "an unsynchronised source is never selected");
            assert!(kinds[j] != 3, "a source above the uncertainty limit is never selected");
            assert!(idx > prev, "no source is returned twice");
            prev = idx;
        }
        k += 1;
    }
    assert!(sel.len() <= N, "not more sources than candidates");
    // (b) non-empty => agreeing strict majority of at least the configured minimum
    if !sel.is_empty() {
        let mut witness = false;
        let mut i = 0;
        while i < N {
            if elig[i] {
                let mut cnt = 0usize;
                let mut j = 0;
                while j < N {
                    if elig[j] && lo[j] <= lo[i] && lo[i] <= hi[j] {
                        cnt += 1;
                    }
                    j += 1;
                }
                if cnt >= min_agree && cnt >= 1 && 2 * cnt > n_elig {
                    witness = true;
                }
            }
            i += 1;
        }
        assert!(witness, "selection non-empty only with an agreeing strict majority of at least the configured minimum");
    }
    // witnesses (a goal that the concrete pattern cannot reach is trivially satisfied)
    let mut has_periodic = false;
    let mut i = 0;
    while i < N {
        has_periodic = has_periodic || kinds[i] == 2;
        i += 1;
    }
    kani::cover!(sel.len() == n_elig && n_elig >= 2, "all eligible candidates selected");
    kani::cover!(sel.is_empty() && n_elig >= 2 && min_agree <= 1, "no majority: eligible sources disagree");
    kani::cover!(n_elig < 3 || (!sel.is_empty() && sel.len() < n_elig), "majority found, an outlier dropped (patterns with >= 3 eligible)");
    kani::cover!(sel.is_empty() && n_elig >= 2 && min_agree == n_elig, "minimum number of agreeing sources not reached");
    kani::cover!(!has_periodic || (!sel.is_empty() && sel.len() > n_elig), "a periodic source joins the selection without having voted (patterns with a periodic source)");
}


/// Stubs shared by all `select` harnesses (see common.rs for the reason of each):
/// stable sort model, sqrt as an uninterpreted function, Vec growth asserted away,
/// `collect()` as one `for_each` pass.
macro_rules! select_harness {
    ($name:ident, $unwind:literal, $body:expr) => {
        #[kani::proof]
        #[kani::unwind($unwind)]
        #[kani::stub(alloc::slice::stable_sort, crate::common::stable_sort_stub)]
        #[kani::stub(f64::sqrt, crate::common::sqrt_uf)]
        #[kani::stub(std::vec::Vec::push, crate::common::vec_push_nogrow)]
        #[kani::stub(std::vec::Vec::reserve, crate::common::vec_reserve_nogrow)]
        #[kani::stub(std::iter::Iterator::collect, crate::common::CollectOnePass::collect_one_pass)]
        fn $name() {
            $body;
        }
    };
}

// quick tier: 3 candidates, symbolic geometry, one concrete eligibility pattern each
select_harness!(c03_geo3_all, 7, geometry_body::<3>([0, 0, 0]));
select_harness!(c03_geo3_unsync, 7, geometry_body::<3>([0, 1, 0]));
select_harness!(c03_geo3_periodic, 7, geometry_body::<3>([2, 0, 0]));
select_harness!(c03_geo3_uncertain, 7, geometry_body::<3>([0, 0, 3]));
// thorough tier: 3 candidates with symbolic eligibility (leap, periodic flag, radius against a
// symbolic limit) on an integer grid; 4 candidates with concrete eligibility patterns
select_harness!(c03_select, 7, select_body::<3>(true, false, true, 3));
select_harness!(c03_geo4_all, 9, geometry_body::<4>([0, 0, 0, 0]));
select_harness!(c03_geo4_mixed, 9, geometry_body::<4>([0, 1, 0, 3]));
select_harness!(c03_geo4_periodic, 9, geometry_body::<4>([0, 0, 2, 0]));
