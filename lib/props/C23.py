NP = "np_packet_h"
_STUBS = [
    "core::str::from_utf8 -> common::from_utf8_stub (Ok iff all bytes ASCII; the only caller rejects non-ASCII strings anyway; the real word-at-a-time/SIMD validation does not finish symbolic execution)",
    "core::slice::ascii::is_ascii -> common::is_ascii_stub (plain byte test instead of the SIMD path)",
    "<AesSivCmac256/512 as Cipher>::{encrypt,decrypt}, zeroize::{barrier::optimization_barrier, volatile_set}: stubbed in every packet harness (dyn Cipher calls are resolved over all implementations; zeroize uses inline asm); not reached with NoCipher",
    "Cargo.toml [package.metadata.kani]: --max-field-sensitivity-array-size 160, --unwindset memcmp.0:520, drop_glue<[ExtensionField]>.0:6 and the two loops of RawEncryptedField::decrypt's collect():3 (per-loop bounds; unwinding assertions stay on)",
    "hooks: packet_authenticated/untrusted getters (field count sanity check only)",
]
PROP = dict(
    functions=[
        "ntp_proto::packet::NtpPacket::deserialize<NoCipher> (v3/v4/v5 header parsers, Mac::deserialize)",
        "ntp_proto::packet::extension_fields::{ExtensionFieldData::deserialize, RawExtensionField::{deserialize,wire_length}, ExtensionFieldStreamer::next, RawEncryptedField::from_message_bytes, ExtensionField::decode + decode_*}",
        "ntp_proto::packet::v5::{NtpHeaderV5::deserialize, extension_fields::{ReferenceIdRequest::decode, ReferenceIdResponse::decode}}",
    ],
    bounds="layout templates of 48..116 bytes, key context NoCipher: total length, first header byte (leap/version/mode) and, for NTPv5, timescale+flags bytes concrete per image, all other header bytes symbolic; 0-3 extension fields whose type and length words are concrete per image and whose bodies/padding/MAC bytes are symbolic. Registered images: v3/v4 header alone and + 4-byte MAC; v4 one field (unique id 28; cookie 28 + 24-byte MAC; unknown 4 + 24-byte MAC; draft-type 8 + 17-byte MAC; reference-id-type 24 + 4-byte MAC; empty placeholder + MAC); v4 field one byte longer than the packet; v4 cookie + 52-byte NTS field (no keys: decrypt error); v5 draft field + field of 4,5,6,7,8,17 bytes (unique id, cookie, reference-id request/response, padding, unknown; both orders; request and response headers, 6 timescale/flag combinations); v5 without draft field. Expected outcome asserted per image (accepted / refused / decrypt error).",
    outside="DOES NOT REACH (symbolic execution or solver memory exhausted, measured; harnesses kept unregistered in c23.rs): unstructured inputs (U(52): 3.0M SSA steps, out of memory at 12 GB), symbolic length words, NTPv5 header validation errors combined with the field parser (1.5M steps, OOM), every path on which an NTS field is decrypted successfully (client cipher or server KeySet: 2.5-3.1M steps, OOM) - i.e. the key contexts 'client session keys' and 'server cookie keys' are covered only up to the refusal of the AEAD (not registered either: not re-verified in time); further prepared but not verified in time: impossible length words (0,3,30,0xFFFF), cut-off v5 padding, placeholders with symbolic bodies, draft field with symbolic content, multi-field v4 images. Byte strings of 117..4096 bytes; more than 3 fields.",
    assumptions=[
        "(for the unregistered key-context harnesses) successful decryption only with a 16-byte nonce: ExtensionFieldData::deserialize has debug_assert_eq!(nonce.len(), 16) after a successful decrypt; with a peer that holds the keys and sends another nonce length this is a dev-profile-only panic (release: no effect)",
    ],
    stub_notes=_STUBS,
    harnesses=[
        H(NP, "c23", "c23_s_v3_n", 'v3 header 48 bytes / + 4-byte MAC', timeout=900),  # measured 10 s CBMC under load
        H(NP, "c23", "c23_s_v4_n", 'v4 header 48 bytes / + 4-byte MAC', timeout=900),  # measured 8 s CBMC under load
        H(NP, "c23", "c23_t_v4_q_n", 'v4 well-formed: unique id 28; cookie 28 + 24-byte MAC', timeout=900),  # measured 40 s CBMC under load
        H(NP, "c23", "c23_t_v5_q_n", 'v5 well-formed: draft + 5-byte cookie; 17-byte unknown + draft', timeout=900),  # measured 81 s CBMC under load
        H(NP, "c23", "c23_t_v4_ok_n", 'v4 well-formed: one field (unique id, cookie, unknown, draft type, reference-id type, placeholder) +/- MAC 4/17/24', tier="thorough", timeout_thorough=3600),  # measured 155 s CBMC under load
        H(NP, "c23", "c23_t_v5_ok_n", 'v5 well-formed: draft + field of 4,5,6,7,8,17 bytes (all types), both orders', tier="thorough", timeout_thorough=3600),  # measured 223 s CBMC under load
        H(NP, "c23", "c23_t_v4_trunc_n", 'v4 field one byte longer than the packet', tier="thorough", timeout_thorough=3600),  # measured 117 s CBMC under load
        H(NP, "c23", "c23_t_v5_nodraft_n", 'v5 without draft identification', tier="thorough", timeout_thorough=3600),  # measured 46 s CBMC under load
        H(NP, "c23", "c23_t_nts_v4_n", 'v4 cookie + NTS field, no keys', tier="thorough", timeout_thorough=3600),  # measured 60 s CBMC under load
        H("ntp_proto_h", "c23f", "c23_encrypted_field_frame", "function level: RawEncryptedField::from_message_bytes (the framing of an NTS encrypted field body, run in every key context before any key lookup) is total and exact for every body of up to 32 bytes with symbolic nonce/ciphertext length words", timeout=300),
],
    # prepared in the harness crate but NOT registered (did not finish / not re-verified in time / expected to fail):
    # c23_s_short_n, c23_s_short45_n, c23_s_mac_short_n, c23_s_version_n, c23_s_v5_n, c23_s_v5_mode0_n, c23_s_v5_mode7_n, c23_s_v5_timescale_n, c23_s_v5_flags0_n, c23_s_v5_flags1_n, c23_t_v4_multi_n, c23_t_v4_placeholder_n, c23_t_v4_long_n, c23_t_v4_multi_trunc_n, c23_t_v4_len0_n, c23_t_v4_len3_n, c23_t_v4_len30_n, c23_t_v4_lenmax_n, c23_t_v5_placeholder_n, c23_t_v5_nopad5_n, c23_t_v5_nopad17_n, c23_t_v5_len3_n, c23_t_v5_lenmax_n, c23_t_v5_refid_short_n, c23_t_v5_draft_sym_n, c23_t_v5_draft_second_n, c23_t_v5_draft_first_wrong_n, c23_t_nts_v4_long_n, c23_t_nts_v4_short_n, c23_t_nts_v5_n, c23_t_nts_v4_c, c23_t_nts_v4_mac_c, c23_t_nts_v4_notag_c, c23_t_nts_v4_nonce_c, c23_t_nts_v4_huge_c, c23_t_nts_v5_c, c23_t_nts_v5_odd_c, c23_t_nts_v5_long_c, c23_t_nts_v4_k, c23_t_nts_v4_nocookie_k, c23_t_nts_v4_twocookies_k, c23_t_nts_v5_k
)
