//! Safe-Rust verification hooks for this module (accessors/wrappers only; no logic).
#![allow(unused_imports, dead_code)]
use super::*;

// ---------------------------------------------------------------- C04 (np_algo_h)
/// Thin wrapper around the private `vote_leap`.
pub fn vote_leap_hook(selection: &super::super::verif_hooks::SnapVecH) -> Option<NtpLeapIndicator> {
    vote_leap(&selection.0)
}
/// Thin wrapper around `combine`: returns (used source ids, leap vote) of the combination.
pub fn combine_sources_leap(
    selection: &super::super::verif_hooks::SnapVecH,
    algo_config: &AlgorithmConfig,
) -> Option<(Vec<u64>, Option<NtpLeapIndicator>)> {
    combine(&selection.0, algo_config).map(|c| (c.sources.iter().map(|id| id.0).collect(), c.leap_indicator))
}
