//! Harnesses for property C09 (see /verif/properties.jsonl): kiss-o'-death handling of a plain
//! (unauthenticated) source. The NTS half ("DENY/RSTR demobilises an NTS source") is with C07.
//!
//! A *valid KISS answer* is built from the wire format: it answers the pending request (origin /
//! client cookie equal, request still fresh, expected version), is in server mode and has
//! stratum 0. v3/v4: the code is the ASCII reference id (RATE, DENY, RSTR, NTSN, anything else).
//! v5 has no codes: the auth-NAK flag is NTSN (and overrides the rest), "poll larger than ours
//! (and not 127)" asks to slow down (RATE), "poll == 127" is a refusal (DENY); the rest is unknown.
use crate::common::*;
use crate::stubs;
use ntp_proto::*;

#[derive(Clone, Copy, PartialEq, Eq)]
enum Kiss {
    Rate,
    Deny,
    Rstr,
    Ntsn,
    Unknown,
}

/// classification of a stratum-0 packet from its raw bytes
fn kiss_class(p: &[u8], last_poll: i8) -> Kiss {
    if version_bits(p) == 5 {
        let poll = poll_byte(p);
        if p[15] & 0b100 != 0 {
            // an auth-NAK is matched on unauthenticated data: nothing else in it counts
            Kiss::Ntsn
        } else if poll > last_poll && poll != 127 {
            Kiss::Rate
        } else if poll == 127 {
            Kiss::Deny
        } else {
            Kiss::Unknown
        }
    } else {
        match &refid4(p) {
            b"RATE" => Kiss::Rate,
            b"DENY" => Kiss::Deny,
            b"RSTR" => Kiss::Rstr,
            b"NTSN" => Kiss::Ntsn,
            _ => Kiss::Unknown,
        }
    }
}

/// Restrict to valid KISS answers for the pending request of `pre` (the harness has already
/// written the pending id into the origin / client-cookie field and set stratum 0).
#[cfg(kani)]
fn make_valid_kiss(pkt: &[u8], pre: &Pre) {
    assert!(origin_field(pkt) == pre.pending_id && stratum_byte(pkt) == 0);
    kani::assume(mode_bits(pkt) == 4);
    kani::assume(version_expected(pre.pv, version_bits(pkt)));
    kani::assume(decodable(pkt));
    kani::assume(pre.has_pending);
}

struct Out {
    before: sh::SourceState,
    post: sh::SourceState,
    acts: Acts,
    n_meas: u8,
    fresh: bool,
    after_t: tokio::time::Instant,
}

#[cfg(kani)]
fn deliver(src: &mut Src, pre: &Pre, pkt: &[u8]) -> Out {
    let before = sh::state(src);
    let acts = collect(src.handle_incoming(pkt, th::ts_from_raw(1), th::ts_from_raw(2)));
    let after_t = tokio::time::Instant::now();
    let post = sh::state(src);
    Out { before, post, acts, n_meas: sh::controller(src).n_meas, fresh: pre.deadline >= after_t, after_t }
}

/// everything except the version-negotiation state (a valid answer of any kind advances the
/// upgrade state machine, C12) and the field `skip_remote_min` asks to skip
fn same_sync_state(a: &sh::SourceState, b: &sh::SourceState, skip_remote_min: bool, skip_deny: bool) -> bool {
    a.last_poll_interval == b.last_poll_interval
        && (skip_remote_min || a.remote_min_poll_interval == b.remote_min_poll_interval)
        && a.pending == b.pending
        && (skip_deny || a.have_deny_rstr_response == b.have_deny_rstr_response)
        && a.stratum == b.stratum
        && a.reference_id == b.reference_id
        && a.source_id == b.source_id
        && a.reach == b.reach
        && a.tries == b.tries
}

// ------------------------------------------------------------------ RATE
#[cfg(kani)]
fn rate_body(src: &mut Src, pre: &Pre, pkt: &[u8]) -> i8 {
    make_valid_kiss(pkt, pre);
    kani::assume(kiss_class(pkt, pre.last_poll) == Kiss::Rate);
    let o = deliver(src, pre, pkt);
    kani::assume(o.fresh);
    let rm = th::poll_raw(o.post.remote_min_poll_interval);
    assert!(o.acts.n == 0 && o.n_meas == 0, "C09: RATE yields no action and no measurement");
    assert!(rm >= pre.last_poll, "C09: after RATE the source never polls faster than it just did");
    assert!(rm >= pre.remote_min || pre.remote_min > CFG_MAX_POLL, "C09: RATE never shortens the server-imposed interval below the configured maximum");
    if pre.remote_min < CFG_MAX_POLL {
        assert!(rm as i16 >= pre.remote_min as i16 + 1, "C09: each RATE lengthens the interval by at least one step until the maximum");
    }
    assert!(same_sync_state(&o.before, &o.post, true, false), "C09: RATE only touches the remote minimum poll interval");
    assert!(pending_unchanged(src, pre), "C09: pending request untouched by RATE");
    kani::cover!(pre.remote_min == CFG_MAX_POLL - 1 && rm == CFG_MAX_POLL, "RATE steps up to the configured maximum");
    kani::cover!(pre.remote_min == CFG_MAX_POLL && pre.last_poll <= CFG_MAX_POLL && rm == CFG_MAX_POLL, "RATE at the maximum stays");
    kani::cover!(pre.last_poll > pre.remote_min + 1 && rm == pre.last_poll, "RATE jumps to the interval just used");
    rm
}

/// the poll that follows a RATE answer
#[cfg(kani)]
fn rate_then_timer(src: &Src, pre: &Pre, rm: i8, acts: Acts) {
    if let Some(p) = &acts.sent {
        assert!(poll_byte(p) >= pre.last_poll, "C09: the poll after RATE is not faster than the previous one");
        assert!(poll_byte(p) >= rm, "C09: the poll after RATE honours the lengthened interval");
        assert!(th::poll_raw(sh::state(src).last_poll_interval) == poll_byte(p), "C09: advertised poll is the one used");
        kani::cover!(poll_byte(p) == pre.remote_min + 1 && pre.remote_min >= pre.desired, "next poll one step slower");
    }
    kani::cover!(acts.sent.is_some(), "source polls again after RATE");
    kani::cover!(acts.sent.is_none(), "source resets after RATE");
}

sharness! {
    #[kani::unwind(30)]
    fn c09_rate() {
        frozen_clock();
        let (mut src, pre) = any_source(PvClass::V4Family);
        let mut p = any_pkt4();
        let b0: u8 = kani::any();
        put_be64(&mut p.b, 24, pre.pending_id);
        p.b[1] = 0;
        p.b[12] = b'R';
        p.b[13] = b'A';
        p.b[14] = b'T';
        p.b[15] = b'E';
        let mut rm: i8 = 0;
        let mut run = |v: u8| {
            p.set_b0(v);
            rm = rate_body(&mut src, &pre, p.bytes());
        };
        for_b0!(quick, b0, run);
        let acts = timer_step!(v4fam, src, pre);
        rate_then_timer(&src, &pre, rm, acts);
        kani::cover!(b0 == 0x1C, "RATE from a v3 server");
    }
}

sharness! {
    #[kani::unwind(30)]
    fn c09_rate_v5() {
        frozen_clock();
        let (mut src, pre) = any_source(PvClass::V5Family);
        let mut p = any_pkt5();
        let sel: u8 = kani::any();
        put_be64(&mut p.b, 24, pre.pending_id);
        p.b[1] = 0;
        let mut rm: i8 = 0;
        let mut run = |b0: u8, b12: u8, b14: u8, b15: u8, last: u8| {
            p.set_hdr(b0, b12, b14, b15, last);
            rm = rate_body(&mut src, &pre, p.bytes());
        };
        for_v5hdr!(quick, sel, run);
        // (no timer step: the NTPv5 request serialiser does not finish symbolic execution, see
        // c12.rs; the poll that follows is computed from remote_min exactly as in c09_rate)
        let _ = rm;
    }
}

// ------------------------------------------------------------------ DENY / RSTR
#[cfg(kani)]
fn deny_body(src: &mut Src, pre: &Pre, pkt: &[u8]) {
    make_valid_kiss(pkt, pre);
    let k = kiss_class(pkt, pre.last_poll);
    kani::assume(k == Kiss::Deny || k == Kiss::Rstr);
    let o = deliver(src, pre, pkt);
    kani::assume(o.fresh);
    assert!(o.acts.n == 0, "C09: DENY/RSTR on an unauthenticated source returns no action (not demobilised at once)");
    assert!(o.n_meas == 0, "C09: DENY/RSTR is not a measurement");
    assert!(o.post.have_deny_rstr_response, "C09: DENY/RSTR is remembered");
    assert!(same_sync_state(&o.before, &o.post, false, true), "C09: DENY/RSTR only sets the deny memory");
    assert!(pending_unchanged(src, pre), "C09: pending request untouched by DENY/RSTR");
    kani::cover!(k == Kiss::Deny && !pre.have_deny, "first DENY");
}

/// the next timer demobilises iff the source is (still) unreachable after its start-up polls
#[cfg(kani)]
fn deny_then_timer(src: &Src, pre: &Pre, acts: Acts) {
    let dead = pre.reach == 0 && pre.tries >= 3;
    if dead {
        assert!(acts.n == 1 && acts.kinds[0] == A_DEMOB && acts.sent.is_none(), "C09: denied and unreachable => exactly Demobilize");
    } else {
        assert!(acts.kinds[0] != A_DEMOB && acts.kinds[1] != A_DEMOB && acts.kinds[2] != A_DEMOB, "C09: a reachable source is not demobilised by an unauthenticated DENY/RSTR");
        assert!(acts.n == 2 && acts.kinds[0] == A_SEND && acts.kinds[1] == A_TIMER, "C09: it keeps polling");
        assert!(sh::state(src).have_deny_rstr_response, "C09: deny memory survives a poll");
    }
    kani::cover!(dead, "demobilised");
    kani::cover!(!dead && pre.reach == 0, "denied during start-up: keeps trying");
    kani::cover!(!dead && pre.reach != 0, "denied but reachable: keeps polling");
}

sharness! {
    #[kani::unwind(30)]
    fn c09_deny() {
        frozen_clock();
        let (mut src, pre) = any_source(PvClass::V4Family);
        let mut p = any_pkt4();
        let b0: u8 = kani::any();
        let rstr: bool = kani::any();
        put_be64(&mut p.b, 24, pre.pending_id);
        p.b[1] = 0;
        let code: &[u8; 4] = if rstr { b"RSTR" } else { b"DENY" };
        p.b[12] = code[0];
        p.b[13] = code[1];
        p.b[14] = code[2];
        p.b[15] = code[3];
        let mut run = |v: u8| {
            p.set_b0(v);
            deny_body(&mut src, &pre, p.bytes());
        };
        for_b0!(quick, b0, run);
        let acts = timer_step!(v4fam, src, pre);
        deny_then_timer(&src, &pre, acts);
        kani::cover!(rstr, "RSTR");
        kani::cover!(!rstr && b0 == 0x1C, "DENY from a v3 server");
    }
}

sharness! {
    #[kani::unwind(30)]
    fn c09_deny_v5() {
        frozen_clock();
        let (mut src, pre) = any_source(PvClass::V5Family);
        let mut p = any_pkt5();
        let sel: u8 = kani::any();
        put_be64(&mut p.b, 24, pre.pending_id);
        p.b[1] = 0;
        p.b[2] = 127;
        let mut run = |b0: u8, b12: u8, b14: u8, b15: u8, last: u8| {
            p.set_hdr(b0, b12, b14, b15, last);
            deny_body(&mut src, &pre, p.bytes());
        };
        for_v5hdr!(quick, sel, run);
        // (no timer step, see c09_rate_v5; the demobilise decision is version independent)
    }
}

// ------------------------------------------------------------------ NTSN / unknown codes, and invalid KISS
/// Stratum-0 packets with an arbitrary code: NTSN and unknown codes change nothing, whether or
/// not they answer the pending request; RATE/DENY/RSTR change nothing unless they are valid
/// answers (request matching comes first).
#[cfg(kani)]
fn other_body(src: &mut Src, pre: &Pre, pkt: &[u8]) {
    let k = kiss_class(pkt, pre.last_poll);
    let o = deliver(src, pre, pkt);
    assert!(o.acts.n == 0, "C09: a KISS packet never produces an action on a plain source");
    assert!(o.n_meas == 0, "C09: a KISS packet is never a measurement");
    assert!(pending_unchanged(src, pre), "C09: KISS packets leave the pending request alone");
    if k == Kiss::Ntsn || k == Kiss::Unknown {
        assert!(same_sync_state(&o.before, &o.post, false, false), "C09: NTSN / unknown KISS code changed synchronisation, polling or demobilisation state");
    }
    if !may_match(pre, pkt) {
        assert!(o.post == o.before, "C09: a KISS packet that does not answer the pending request changed the source");
    }
    let valid = must_match(pre, pkt, o.after_t);
    kani::cover!(valid && k == Kiss::Ntsn, "valid NTSN ignored");
    kani::cover!(valid && k == Kiss::Unknown, "valid unknown code ignored");
    kani::cover!(!may_match(pre, pkt) && k == Kiss::Rate && decodable(pkt), "unsolicited RATE ignored");
    kani::cover!(!may_match(pre, pkt) && k == Kiss::Deny && decodable(pkt), "unsolicited DENY ignored");
    kani::cover!(valid && k == Kiss::Deny && !o.before.have_deny_rstr_response && o.post.have_deny_rstr_response, "valid DENY honoured");
}

sharness! {
    #[kani::unwind(12)]
    fn c09_other() {
        frozen_clock();
        let (mut src, pre) = any_source(PvClass::Any);
        let mut p = any_pkt4();
        let b0: u8 = kani::any();
        p.b[1] = 0;
        let mut run = |v: u8| {
            p.set_b0(v);
            other_body(&mut src, &pre, p.bytes());
        };
        for_b0!(quick, b0, run);
    }
}

sharness! {
    #[kani::unwind(30)]
    fn c09_other_v5() {
        frozen_clock();
        let (mut src, pre) = any_source(PvClass::Any);
        let mut p = any_pkt5();
        let sel: u8 = kani::any();
        p.b[1] = 0;
        let mut run = |b0: u8, b12: u8, b14: u8, b15: u8, last: u8| {
            p.set_hdr(b0, b12, b14, b15, last);
            other_body(&mut src, &pre, p.bytes());
        };
        for_v5hdr!(quick, sel, run);
    }
}
