"""Source extractors: syntactic side conditions regenerated from /repo's text on every run.
They are NOT solver-decided; each is reported in the evidence as a syntactic side condition.
Each returns dict(name, state in pass|fail|inconclusive, detail)."""
import glob
import os
import re

REPO = "/repo"


def _strip_tests(text):
    """Drop everything from the first `#[cfg(test)]\nmod` to the end (test modules are last)."""
    m = re.search(r"#\[cfg\(test\)\]\s*(#\[[^\]]*\]\s*)*mod \w+", text)
    return text[: m.start()] if m else text


def _enclosing_fns(path, pattern):
    """-> list of (fn name, line no) for every non-test line matching pattern."""
    text = _strip_tests(open(path).read())
    out = []
    cur = None
    for n, line in enumerate(text.splitlines(), 1):
        s = line.strip()
        if s.startswith("//"):
            continue
        m = re.search(r"\bfn\s+([a-zA-Z0-9_]+)", line)
        if m:
            cur = m.group(1)
        if re.search(pattern, line):
            out.append((cur, n))
    return out


def _census(name, pattern, expected, what):
    found = {}
    for path in sorted(glob.glob(os.path.join(REPO, "ntp-proto/src/algorithm/**/*.rs"), recursive=True)):
        for fn, n in _enclosing_fns(path, pattern):
            found.setdefault(os.path.relpath(path, REPO), []).append(fn)
    flat = sorted((p, f) for p, fs in found.items() for f in fs)
    if flat == sorted(expected):
        return dict(name=name, state="pass", detail="%s only in %s (syntactic census of ntp-proto/src/algorithm, non-test code)" % (what, flat))
    return dict(name=name, state="inconclusive",
                detail="%s call sites changed: found %s, the harnesses drive %s - harness set must be revisited" % (what, flat, sorted(expected)))


def step_clock_call_sites():
    return _census("step_clock_call_sites", r"\.step_clock\(",
                   [("ntp-proto/src/algorithm/kalman/mod.rs", "steer_offset")], "step_clock()")


def set_frequency_call_sites():
    return _census("set_frequency_call_sites", r"\.set_frequency\(",
                   [("ntp-proto/src/algorithm/kalman/mod.rs", "steer_frequency")], "set_frequency()")


def in_startup_only_cleared():
    path = os.path.join(REPO, "ntp-proto/src/algorithm/kalman/mod.rs")
    text = _strip_tests(open(path).read())
    assigns = re.findall(r"in_startup\s*=\s*(\w+)", text)
    inits = re.findall(r"in_startup:\s*(\w+)", text)
    ok = all(a == "false" for a in assigns)
    if ok:
        return dict(name="in_startup_only_cleared", state="pass",
                    detail="in_startup assigned only `false` (%d sites), initialised as %s" % (len(assigns), inits))
    return dict(name="in_startup_only_cleared", state="inconclusive", detail="in_startup assignments: %s" % assigns)


def daemon_server_call_shape():
    """C16/C17: the daemon must hand Server::handle a response buffer exactly as long as the request."""
    path = os.path.join(REPO, "ntpd/src/daemon/server.rs")
    text = _strip_tests(open(path).read())
    i = text.find(".server.handle(")
    seg = ""
    if i >= 0:
        j = i + len(".server.handle(")
        depth, k = 1, j
        while k < len(text) and depth:
            depth += {"(": 1, ")": -1}.get(text[k], 0)
            k += 1
        seg = text[j:k - 1]
    norm = re.sub(r"\s+", " ", seg).strip()
    args = [a.strip() for a in norm.rstrip(",").split(", ")]
    req = [a for a in args if re.fullmatch(r"&\w+\[\.\.(\w+)\]", a)]
    out = [a for a in args if re.fullmatch(r"&mut \w+\[\.\.(\w+)\]", a)]
    same = bool(req and out and re.search(r"\.\.(\w+)\]", req[0]).group(1) == re.search(r"\.\.(\w+)\]", out[0]).group(1))
    if same:
        return dict(name="daemon_server_call_shape", state="pass", detail="daemon calls handle(%s)" % norm)
    return dict(name="daemon_server_call_shape", state="inconclusive",
                detail="could not recognise a request-sized response buffer in the daemon's call: handle(%s)" % norm)


def key_file_mode():
    """C27: the key file is created with mode 0o600 (syntactic: not solver-decided)."""
    path = os.path.join(REPO, "ntpd/src/daemon/nts_key_provider.rs")
    text = _strip_tests(open(path).read())
    m = re.search(r"OpenOptions::new\(\)(.*?)\.open\(", text, re.S)
    if not m:
        return dict(name="key_file_mode", state="inconclusive", detail="OpenOptions chain not found")
    chain = re.sub(r"\s+", "", m.group(1))
    calls = re.findall(r"\.(\w+)\(([^)]*)\)", chain)
    d = dict(calls)
    ok = d.get("mode") == "0o600" and d.get("create") == "true" and d.get("write") == "true" and d.get("truncate") == "true"
    if ok:
        return dict(name="key_file_mode", state="pass", detail="key file opened with %s (syntactic check, not solver-decided)" % chain)
    return dict(name="key_file_mode", state="fail", detail="key file OpenOptions chain is %s; expected create/truncate/write with mode 0o600" % chain)
