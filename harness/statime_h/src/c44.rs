//! Harnesses for property C44 (see /verif/properties.jsonl).
use crate::stubs;
