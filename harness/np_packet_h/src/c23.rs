//! Harnesses for property C23 (see /verif/properties.jsonl): the NTP packet decoder is total.
//!
//! Every harness calls the public `NtpPacket::deserialize` on a byte image and requires only
//! that it returns (Kani's built-in checks flag every panic, failed slice index, arithmetic
//! overflow and `unwrap` on the way). Key contexts: `NoCipher`, a client session cipher
//! (`OracleCipher`, see common.rs) and the server's real `KeySet` with the AES-SIV primitives
//! stubbed by the oracle model (the real `KeySet::get`/`decode_cookie` run).
use crate::common::*;
use crate::stubs;
use ntp_proto::{CipherProvider, NoCipher, NtpPacket};

/// Unstructured input: 52 symbolic bytes, symbolic length 0..=52.
fn unstructured<C: CipherProvider + ?Sized>(cipher: &C) {
    let buf: [u8; 52] = kani::any();
    let len: usize = kani::any();
    kani::assume(len <= 52);
    let version = (buf[0] >> 3) & 7;
    let r = decode(&buf[..len], cipher);
    match &r {
        Outcome::Accepted(p, cookie) => {
            // oracle from the wire format: nothing shorter than a header is a packet, only
            // versions 3..5 exist, a v5 packet needs a draft identification field (28 bytes)
            assert!(len >= 48, "accepted packets have a full header");
            assert!(version == 3 || version == 4, "no NTPv5 packet fits into 52 bytes");
            assert!(!*cookie, "no cookie without an NTS field");
        }
        Outcome::DecryptFailed(_) => assert!(len >= 56, "an NTS field needs at least 8 bytes"),
        Outcome::Rejected => {}
    }
    kani::cover!(matches!(r, Outcome::Accepted(..)) && len == 48 && version == 3, "v3 header accepted");
    kani::cover!(matches!(r, Outcome::Accepted(..)) && len == 52 && version == 4, "v4 header + crypto-NAK accepted");
    kani::cover!(matches!(r, Outcome::Rejected) && version == 5 && len == 52, "v5 rejected");
    kani::cover!(matches!(r, Outcome::Rejected) && len == 0, "empty rejected");
    kani::cover!(matches!(r, Outcome::Rejected) && len == 47, "short header rejected");
}

harness! {
    #[kani::unwind(8)]
    fn c23_u_nocipher() {
        unstructured(&NoCipher);
    }
}
harness! {
    #[kani::unwind(8)]
    fn c23_u_client() {
        symbolic_oracle();
        unstructured(&OracleCipher);
    }
}
harness! {
    #[kani::unwind(8)]
    #[kani::stub(<ntp_proto::verif::packet::crypto::AesSivCmac512 as ntp_proto::Cipher>::decrypt, crate::common::aes512_decrypt_stub)]
    #[kani::stub(<ntp_proto::verif::packet::crypto::AesSivCmac256 as ntp_proto::Cipher>::decrypt, crate::common::aes256_decrypt_stub)]
    fn c23_u_keyset() {
        symbolic_oracle();
        symbolic_cookie_plaintext();
        let id_offset: u32 = kani::any();
        let ks = real_keyset(id_offset);
        unstructured(&ks);
    }
}

// ------------------------------------------------------------------ probes (not registered)
pharness! {
    #[kani::unwind(30)]
    fn probe_a() {
        // any version, one field with any type, length field 4..=16 symbolic, trailer 0..=4
        let img: Img<72, 1> = image(None, [f(Ty::Any, 4, 16)], 0, 4);
        let r = decode(&img.buf[..img.len], &NoCipher);
        kani::cover!(matches!(r, Outcome::Accepted(..)), "accepted");
    }
}
pharness! {
    #[kani::unwind(30)]
    fn probe_b() {
        // v5, draft + one field any type, concrete length 16
        let img: Img<96, 2> = image(Some(5), [DRAFT_F, f(Ty::Any, 16, 16)], 0, 0);
        let r = decode(&img.buf[..img.len], &NoCipher);
        kani::cover!(matches!(r, Outcome::Accepted(..)), "accepted");
    }
}
pharness! {
    #[kani::unwind(30)]
    fn probe_c() {
        // v5, draft + one field any type, symbolic length 4..=20
        let img: Img<100, 2> = image(Some(5), [DRAFT_F, f(Ty::Any, 4, 20)], 0, 0);
        let r = decode(&img.buf[..img.len], &NoCipher);
        kani::cover!(matches!(r, Outcome::Accepted(..)), "accepted");
    }
}
pharness! {
    #[kani::unwind(30)]
    fn probe_d() {
        // v4, two fields any type, concrete lengths, 20-byte MAC
        let img: Img<120, 2> = image(Some(4), [f(Ty::Any, 16, 16), f(Ty::Any, 28, 28)], 24, 24);
        let r = decode(&img.buf[..img.len], &NoCipher);
        kani::cover!(matches!(r, Outcome::Accepted(..)), "accepted");
    }
}
pharness! {
    #[kani::unwind(30)]
    fn probe_e() {
        // v4, one field any type, symbolic length 4..=28, trailer 0..=24
        let img: Img<104, 1> = image(Some(4), [f(Ty::Any, 4, 28)], 0, 24);
        let r = decode(&img.buf[..img.len], &NoCipher);
        kani::cover!(matches!(r, Outcome::Accepted(..)), "accepted");
    }
}
pharness! {
    #[kani::unwind(30)]
    fn probe_n1() {
        // v4 header + two unknown fields (16, 28), symbolic bytes elsewhere
        let mut buf: [u8; 96] = kani::any();
        buf[0] = 0x23;
        pin_ef(&mut buf, 48, 0x1234, 16);
        pin_ef(&mut buf, 64, 0x1235, 28);
        match decode(&buf[..92], &NoCipher) {
            Outcome::Accepted(p, _) => {
                let u = ntp_proto::verif::packet::packet_untrusted(&p);
                assert!(count_to(u.len()) == 2);
            }
            _ => assert!(false),
        }
    }
}
pharness! {
    #[kani::unwind(30)]
    fn probe_n2() {
        // v5 header + draft + UID 16, zero bytes elsewhere
        let mut buf = [0u8; 96];
        buf[0] = 0x2B;
        pin_draft(&mut buf, 48);
        pin_ef(&mut buf, 76, T_UID, 16);
        match decode(&buf[..92], &NoCipher) {
            Outcome::Accepted(p, _) => {
                let u = ntp_proto::verif::packet::packet_untrusted(&p);
                assert!(count_to(u.len()) == 2);
            }
            _ => assert!(false),
        }
    }
}
fn count_to(n: usize) -> usize {
    let mut c = 0;
    let mut i = 0;
    while i < n {
        c += 1;
        i += 1;
    }
    c
}
