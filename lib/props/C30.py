NM = "np_misc_h"
_fixed = [
    ("c30_body_00_end_of_message", "EndOfMessage body (3,3) accepted with ignored body / (3,2) rejected"),
    ("c30_body_08_keep_alive", "KeepAlive body (0,0) / (1,0)"),
]
_full = [
    ("c30_full_07_port", "NtsRecord::parse: Port, layout (2,2)"),
    ("c30_full_7fff_unknown", "NtsRecord::parse: unknown type 0x7fff, empty body"),
    ("c30_full_11_unassigned_truncated", "NtsRecord::parse: unassigned type 11, layout (4,3): rejected"),
    ("c30_full_00_end_of_message", "NtsRecord::parse: EndOfMessage with a 1-byte body"),
    ("c30_full_02_error_oversize", "NtsRecord::parse: Error with a 3-byte body: rejected"),
]
PROP = dict(
    functions=[
        "ntp_proto::nts::record::NtsRecord::parse (header, critical bit, dispatch, unknown types) and ::serialize",
        "the 14 private body parsers NtsRecord::parse_<type> on Take(announced length), driven directly through forwarding hooks",
    ],
    bounds="futures polled once with a no-op waker on in-memory readers that are always ready. Fixed-size bodies (Error, Warning, Port): every announced length 0..=65535, 0..=4 available body bytes, all symbolic. "
           "Variable-size bodies (EndOfMessage, NewCookie, KeepAlive): one accepted and one rejected (announced length, available bytes) layout per record type with symbolic body bytes (<= 4 bytes). "
           "Whole-record parser NtsRecord::parse: 6 concrete layouts (incl. unknown critical / non-critical types, truncated and oversize bodies) with symbolic body bytes; truncated headers of 0..=3 bytes. "
           "For every accepted record: consumed exactly header + announced body, fields equal the wire bytes, serialize() reproduces the consumed bytes (up to the critical bit of known types and ignored bodies) and parses back to an equal value.",
    outside="Request::parse, KeyExchangeResponse::parse and the 4096-byte cap (c30_msg / c30_cap of the design): NOT decided. One NtsRecord::parse costs ~40 s of symbolic execution and ~5M SAT variables / 26M clauses (its async state machine is a union over 15 sub-parsers, two with 512-byte buffers, which CBMC treats as opaque bytes); the message parsers nest it in a loop, and a single record round trip through NtsRecord::parse with symbolic lengths already runs out of 8 GB. "
            "The name body parsers (Server, NtpServerDeny, Authentication: tokio read_to_string + UTF-8 validation), FixedKeyRequest (two vec![0; n] buffers) and NtsRecord::parse on a NewCookie layout are NOT decided: the solver ran out of 8 GB during propositional reduction (119-360 s) although symbolic execution finished; the harnesses exist in c30.rs (c30_body_06/12/13/14, c30_full_05) but are not registered. The four u16-list body parsers (NextProtocol, AeadAlgorithm, SupportedNextProtocolList, SupportedAlgorithmList: Vec::push on a heap buffer inside a nested async state machine - the solver ran out of 8 GB even for a single id) are NOT decided; bodies longer than 4 bytes; announced lengths other than the template values for variable-size records (a symbolic length makes Vec::with_capacity / vec![0; len] symbolic-size objects: out of memory at 8 GB); streams of several records.",
    assumptions=["readers never return Pending or an I/O error"],
    stub_notes=["completed futures and error values are leaked instead of dropped (drop glue only; no behaviour)"],
    harnesses=[
        H(NM, "c30", "c30_record_short_header", "0..=3 header bytes: always rejected", timeout=600),
        H(NM, "c30", "c30_body_07_port", "Port body: every announced length / availability: accepted iff exactly one complete u16; round trip", timeout=600),
        H(NM, "c30", "c30_body_02_error", "Error body, same", timeout=600),
        H(NM, "c30", "c30_body_03_warning", "Warning body, same", timeout=600),
        H(NM, "c30", "c30_body_05_new_cookie", "NewCookie body (4,4) accepted, fields = wire bytes, round trip / (4,3) rejected", timeout=600),
        H(NM, "c30", "c30_full_15_unknown_critical", "NtsRecord::parse: unknown critical type 15, layout (3,3): type, critical bit and data preserved, serialises to its input", timeout=600),
    ] + [H(NM, "c30", n, w, tier="thorough") for n, w in _fixed] + [H(NM, "c30", n, w, tier="thorough") for n, w in _full],
)
