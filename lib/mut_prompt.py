#!/usr/bin/env python3
"""Print the prompt for an independent 'break this property' sub-agent (gets only the property text)."""
import json, sys
pid, n = sys.argv[1], sys.argv[2]
hint = sys.argv[3] if len(sys.argv) > 3 else ""
p = [json.loads(l) for l in open('/verif/properties.jsonl') if json.loads(l)['id'] == pid][0]
wt = "/tmp/mut/%s_%s" % (pid, n)
print(f"""You are testing how robust a Rust project's quality gates are. The project is pendulum-project/ntpd-rs (an NTP/NTS daemon). You have your own scratch git worktree of it at {wt} (already created; work ONLY there; never touch /repo or /verif, and do not read anything under /verif).

Here is a behavioural property the project is supposed to satisfy:

  Title: {p['title']}
  Statement: {p['statement']}
  Must hold for: {p['quantifier']['text']}

Your task: make a SMALL, realistic change to the project's non-test source code in {wt} (the kind of slip a developer could make in a refactoring or feature commit: an off-by-one, a swapped operand, a dropped check, a wrong constant, a changed order of two steps, two sites that each look fine alone) that BREAKS this property, while
  (a) the workspace still compiles, and
  (b) the project's existing test suite still passes: at least `cargo test -p <the crate(s) you touched> --offline` must give the same results as before your change (run it before and after; two tests in ntpd `daemon::spawn::csptp::tests::{{creates_a_source,recreates_a_source}}` fail even without any change and some network tests are flaky under load - ignore those), and
  (c) the breakage needs something SPECIFIC to manifest - a particular unusual input or value, a boundary case, a multi-step sequence, a particular state - not something ordinary use or the existing tests would expose at once.
{hint}
Then write a demonstration: a small Rust test (put it in a NEW file, e.g. a new `#[cfg(test)] mod` file included from the touched crate, or a new file under `<crate>/tests/`) that uses the crate's API to show the property violated: it must FAIL with your change and PASS without it (verify both by saving your source change as a diff and using `git apply` / `git apply -R` - do NOT use `git stash`: the stash is shared between all worktrees of this repository and other people work in sibling worktrees). Crate-private items are reachable from an in-crate `#[cfg(test)]` module.

Practicalities: offline sandbox (no network; `--offline` for cargo). To save build time use `export CARGO_TARGET_DIR=/tmp/mut_target` for every cargo command (a shared, pre-warmed target dir; cargo may wait a few seconds for its lock). CAUTION: sibling worktrees share that directory and cargo's freshness check is mtime based, so before EVERY cargo invocation run `find . -name '*.rs' -path '*/src/*' -newer Cargo.lock -o -name '*.rs' -path '*/src/*' | xargs touch` (i.e. touch all sources of your worktree) and make sure the output shows `Compiling <crate> (/tmp/mut/...your worktree...)` - otherwise you are running someone else's stale build. The machine is busy: prefer `cargo test -p <crate> --offline <filter>` over whole-workspace runs. Do not edit existing tests. Do not use cfg tricks, feature flags, environment variables or time bombs; the change must be ordinary code.

Deliver in {wt}/MUT/ : `patch.diff` (output of `git diff` for the SOURCE change only, without the demo test), `demo.diff` (git diff adding only the demonstration test), and `meta.json` with keys: "summary" (one sentence: what you changed), "needs" (what specific input/state/sequence makes it manifest), "files" (touched source files), "demo_cmd" (exact cargo command that runs the demo), "suite_cmd" (the cargo test command you used for (b)) and "suite_result" (its pass/fail counts before and after). Finish by replying with the contents of meta.json and a 5-line explanation. If after honest effort you cannot find a change that satisfies (a)-(c), say so and explain why.""")
