//! Harnesses for property C18 (see /verif/properties.jsonl).
use crate::stubs;
