NH = "np_nts_h"
PROP = dict(
    functions=[
        "ntp_proto::source::NtpSourceSnapshot::accept_synchronization",
        "ntp_proto::system::NtpSnapshot::from_used_sources",
        "ntp_proto::identifiers::ReferenceId::from_ip (IPv4 branch)",
        "ntp_proto::packet::v5::server_reference_id::BloomFilter::{contains_id,add,add_id}",
    ],
    bounds="accept: every stratum, local stratum, 32-bit source id and reference id, reach register, 0..=2 local IPv4 addresses, "
           "Bloom filter absent or present with arbitrary bits in the bytes that hold the ten indices of an arbitrary (sorted, distinct) server id; "
           "advertise: 0..=2 used sources, each NTP (any stratum, id, version; no Bloom filter) or external, any local stratum",
    outside="IPv6 local addresses (identifier = MD5 of the address, not encoded); more than two local addresses / more than two used sources "
            "(the code is a plain `any`/fold over them); Bloom filter bits outside the bytes of the own server id (cannot influence contains_id); "
            "the `Distance` error variant is never produced by this function; union of the used sources' Bloom filters in the advertisement (C34)",
    assumptions=[
        "server id indices are < 4096, sorted and distinct (what ServerId::new produces)",
    ],
    stub_notes=["tracing without subscriber (debug! only)"],
    harnesses=[
        H(NH, "c33", "c33_accept", "Ok => stratum below local, reachable, not this daemon, (stratum>1 => reference id not a local address), server id not in the Bloom filter; "
          "and a source that is this daemon / names it as reference / has it in its Bloom filter is rejected as Loop (when its stratum is below the local one)", timeout=600),
        H(NH, "c33", "c33_accept_refid", "focused: source at stratum > 1 whose REFERENCE id is a local address (it synchronises to us) is never used (accepted before fix f6bea43)", timeout=600),
        H(NH, "c33", "c33_accept_self_stratum1", "focused: source whose own id is a local address and that reports stratum 1 is never used (accepted before fix f6bea43)", timeout=600),
        H(NH, "c33", "c33_adv", "advertised stratum = primary source stratum + 1 (saturating) and reference id = its source id, local stratum / none when no source; "
          "own server id in the advertised filter", timeout=600),
        H("ntp_proto_h", "c33m", "c33_manager_ids", "NtpManager::new: the server id advertised in the daemon's Bloom filter is the id its sources test remote filters against (ServerId::default modelled as 'a different id on every call')", timeout=600),
],
)
