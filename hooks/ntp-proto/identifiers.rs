//! Safe-Rust verification hooks for this module (accessors/wrappers only; no logic).
#![allow(unused_imports, dead_code)]
use super::*;

// ---- C33 (np_nts_h): raw constructor/getter for the private u32.
pub fn refid_from_raw(v: u32) -> ReferenceId {
    ReferenceId(v)
}
pub fn refid_raw(r: ReferenceId) -> u32 {
    r.0
}
