//! Harnesses for property C45 (see /verif/properties.jsonl).
use crate::stubs;
