//! Safe-Rust verification hooks for this module (accessors/wrappers only; no logic).
#![allow(unused_imports, dead_code)]
use super::*;

// --- C30 (np_misc_h): the record type lives in a private module; re-export only.
pub use super::NtsRecord as Record;

// The per-type body parsers are private; thin forwarding wrappers (no extra `async` layer).
// `NtsRecord::parse` itself (header + dispatch) is public and driven directly.
macro_rules! sub_parser {
    ($name:ident, $target:ident) => {
        pub fn $name<R: AsyncRead + Unpin>(
            body: Take<R>,
        ) -> impl std::future::Future<Output = Result<NtsRecord<'static>, Error>> {
            NtsRecord::$target(body)
        }
    };
}
sub_parser!(sub_end_of_message, parse_end_of_message);
sub_parser!(sub_next_protocol, parse_next_protocol);
sub_parser!(sub_error, parse_error);
sub_parser!(sub_warning, parse_warning);
sub_parser!(sub_aead_algorithm, parse_aead_algorithm);
sub_parser!(sub_new_cookie, parse_new_cookie);
sub_parser!(sub_server, parse_server);
sub_parser!(sub_port, parse_port);
sub_parser!(sub_keep_alive, parse_keep_alive);
sub_parser!(sub_supported_next_protocol_list, parse_supported_next_protocol_list);
sub_parser!(sub_supported_algorithm_list, parse_supported_algorithm_list);
sub_parser!(sub_fixed_key_request, parse_fixed_key_request);
sub_parser!(sub_ntp_server_deny, parse_ntp_server_deny);
sub_parser!(sub_authentication, parse_authentication);
