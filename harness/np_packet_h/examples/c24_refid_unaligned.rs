//! Native (no solver, no stubs) demonstration of the C24 finding: an NTPv5 packet the decoder
//! accepts (reference-id request field with a payload that is not a multiple of 4) cannot be
//! encoded again: `ReferenceIdRequest::serialize` asserts `payload_len % 4 == 0`.
//!   cargo run --release --example c24_refid_unaligned
use ntp_proto::{NoCipher, NtpPacket};
use std::io::Cursor;

fn main() {
    let mut msg = vec![0u8; 48];
    msg[0] = 0x2B; // LI 0, VN 5, mode 3 (client)
    msg.extend_from_slice(&[0xF5, 0xFF, 0x00, 0x1B]);
    msg.extend_from_slice(b"draft-ietf-ntp-ntpv5-09");
    msg.push(0);
    msg.extend_from_slice(&[0xF5, 0x03, 0x00, 0x06, 0x00, 0x00]);
    msg.extend_from_slice(&[0x00, 0x00]); // padding to a 4-byte boundary
    let accepted = NtpPacket::deserialize(&msg, &NoCipher).is_ok();
    println!("decoder accepts the packet: {accepted}");
    let outcome = std::panic::catch_unwind(|| {
        let (p, _) = NtpPacket::deserialize(&msg, &NoCipher).unwrap();
        let mut buf = [0u8; 1024];
        let mut c = Cursor::new(&mut buf[..]);
        p.serialize(&mut c, &NoCipher, None).is_ok()
    });
    let violated = accepted && !matches!(outcome, Ok(true));
    println!("re-encoding outcome: {:?}", outcome.as_ref().map_err(|_| "panic"));
    println!("C24 violated by unaligned reference-id request: {violated}");
    if violated {
        std::process::exit(1);
    }
}
