//! Safe-Rust verification hooks for this module (accessors/wrappers only; no logic).
#![allow(unused_imports, dead_code)]
use super::*;

// --- C39 (np_misc_h): thin wrappers around the private deserialisation helpers.
pub fn accumulated_step_panic_threshold<'de, D: Deserializer<'de>>(
    deserializer: D,
) -> Result<Option<NtpDuration>, D::Error> {
    deserialize_option_accumulated_step_panic_threshold(deserializer)
}
