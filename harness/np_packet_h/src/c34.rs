//! Harnesses for property C34 (see /verif/properties.jsonl).
use crate::stubs;
