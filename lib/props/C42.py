ST = "statime_h"
PROP = dict(
    functions=[
        "statime_algo::estimator::EstimatorState::<NoAllocKalmanStorage<(),25>>::{add_clock,remove_clock,add_external_clock,remove_external_clock,add_link,remove_link,progress_time,clock_offset,clock_frequency,is_internal_clock,is_external_clock}",
        "statime_algo::estimator::{ClockInfoList,LinkInfoList,ExternalClockList}::{add,remove,update_indices,contains}",
        "statime_algo::matrix::Matrix::<[f64;25]>::{new,new_vec,splice_vec,splice_square,extend_vec,extend,zero,index}",
            ],
    bounds="estimator: 2 clock ids + 1 link id; <= 3 state rows (1 clock + 1 link to an external clock) in a 9-entry storage, concrete storage NoAllocKalmanStorage (fixed arrays + ArrayVec; the estimator/matrix/filter code is generic and shared with the heap storage); "
           "pre-states = scripted layouts c0 L and L c0 (c1 external); operations: remove_clock(c0), duplicate add_clock(c1), remove_link; "
           "every state-vector and covariance entry an arbitrary f64 bit pattern (NaN and infinities included), compared bit-wise; "
           "",
    outside="the controller-level clone-then-replace discipline (harness c42_ctl: KalmanController with symbolic identifiers, failing calls leave everything unchanged) is written but NOT registered: 765k steps with only two operation arms, CBMC exhausts 8 GB in propositional reduction (the controller state carries the link-noise ring buffers by value); every other layout/operation pair: the harness module contains c42_ops_s{0..5}_{clock,ext,link} (six layouts with up to 2 clocks + 1 link x all 10 operations) which are NOT registered: kani-driver exhausts 8 GB parsing CBMC's per-check traces once the run exceeds ~300k symbolic-execution steps with by-value array storage (measured: 316k steps fails, 278k passes); controller with a second steered clock or tracked links (by-value moves of the 16-slot link list / LinkNoiseEstimator exhaust 8 GB); 3 or more clocks / 2 or more links (9x9 matrices: symbolic execution of the array-moving code did not finish in 15 min; with the heap storage Vec growth through realloc leaves every list loop unbounded for the symbolic executor); "
            "measurement() and progress_time() to a later time (matrix products of symbolic f64: outside, see C06 rationale); variance of a newly added element (powi(2): CBMC has no exact model); "
            "LinkNoiseEstimator state of tracked links; the values returned by clock_offset/clock_frequency for existing clocks are read through a hook using the same get_clock_info(..).offset_index() lookup (calling the queries costs a symbolic sqrt each)",
    assumptions=[
        "c42_time: both timestamps < 2^126 (first half of the wrapping 128-bit range, so that 'earlier' is the numeric order)",
        "operations on the estimator follow the controller's clone-then-replace discipline (a failing call leaves the caller's copy untouched by construction; the discipline itself in KalmanController is outside, see outside)",
    ],
    stub_notes=["no stubs; ClockId/LinkId built from raw parts through hook constructors (ClockId::new/LinkId::new draw from a global counter)"],
    harnesses=[
        H(ST, "c42", "c42_ops", "3-row layout c0 L (x1 external), remove c0 (the link row shifts to the front): survivors' values and all pairwise covariances bit-identical, index layout stays a bijection onto the rows, success iff identifier rules allow", timeout=1200),
        H(ST, "c42", "c42_ops_c", "3-row layout c0 L with external c1, add_clock(c1): duplicate id rejected", timeout=1200),
        H(ST, "c42", "c42_ops_b", "3-row layout L c0 (x1 external), remove_link: the clock rows shift to the front, values and covariances bit-identical", timeout=1200, timeout_thorough=1800, native_check="native::native_remove_link_keeps_later_clocks"),
        H(ST, "c42", "c42_time", "progress_time to an earlier time is NonMonotonicTimeProgression; to the current time leaves time, state and covariance bit-identical (312 s)", tier="thorough", timeout=900, timeout_thorough=1800),
    ],
)
