//! Harnesses for property C19 (see /verif/properties.jsonl): NTS server answers are authenticated
//! and carry valid fresh cookies. Claimed under the ideal-AEAD assumption (DESIGN 2.6): the
//! session ciphers are `ModelCipher`, `KeySet::{decode_cookie,encode_cookie}` are replaced by
//! `model_decode_cookie` / `model_encode_cookie` (crate::common).
use crate::common::*;
use crate::stubs;
use ntp_proto::*;
use std::sync::Arc;

/// Everything symbolic of one NTS exchange besides the request bytes, drawn up front.
pub struct NtsCase {
    pub env: Env,
    /// the cookie is one this server issued under a key it still holds
    pub cookie_valid: bool,
    /// the client really produced (associated data, nonce, ciphertext) under the c2s key
    pub authentic: bool,
}

#[cfg(kani)]
impl NtsCase {
    pub fn any() -> NtsCase {
        NtsCase { env: Env::any(), cookie_valid: kani::any(), authentic: kani::any() }
    }
}

pub fn reset_ghosts(c: &NtsCase, fresh: usize) {
    unsafe {
        REQ_AUTHENTIC = c.authentic;
        COOKIE_VALID = c.cookie_valid;
        FRESH_COOKIE_LEN = fresh;
        DEC_CALLS = 0;
        DEC_OK = 0;
        DEC_WRONG_KEY = 0;
        ENC_CALLS = 0;
        ENC_KEY = 0;
        COOKIE_DECODES = 0;
        COOKIE_DECODE_FOREIGN = 0;
        COOKIE_ENCODES = 0;
        COOKIE_ENCODE_BAD_KEYS = 0;
    }
}

/// Walk `n_uid` echoed unique-identifier fields starting at `pos`; returns the offset after them.
/// `uids` = (offset of payload in request, payload length) in request order.
fn walk_uid_echoes(resp: &[u8], n: usize, mut pos: usize, req: &[u8], uids: &[(usize, usize)]) -> usize {
    let mut k = 0;
    while k < uids.len() {
        let (off, plen) = uids[k];
        assert!(pos + 4 <= n, "answer holds the echoed unique identifier");
        assert!(rd16(resp, pos) == EF_UID, "answer field is a unique identifier");
        let l = rd16(resp, pos + 2) as usize;
        assert!(l >= 4 + plen && l % 4 == 0 && pos + l <= n, "echoed field is well-formed");
        assert!(same(resp, pos + 4, req, off, plen), "unique identifier echoed unchanged");
        assert!(all_zero(resp, pos + 4 + plen, l - 4 - plen), "padding of the echoed field is zero");
        pos += l;
        k += 1;
    }
    pos
}

/// One NTPv4 NTS exchange for the given (concrete) layout; all C19 assertions.
/// `fresh` = length of the cookies the key set currently issues.
pub fn nts_v4_exchange(lay: NtsLayout, fresh: usize, c: &NtsCase, msg: &mut [u8], buf: &mut [u8]) {
    build_nts_request(msg, &lay, 4);
    reset_ghosts(c, fresh);
    let keyset = empty_keyset();
    let keyset_ptr = Arc::as_ptr(&keyset);
    let mut server = c.env.server(v5::BloomFilter::new(), keyset);
    let mut stats = RecStats::default();
    let buf_ptr = buf.as_ptr();
    let out = handle_once(&mut server, &c.env, msg, buf, &mut stats);
    std::mem::forget(server);

    let env = &c.env;
    let auth_ok = c.cookie_valid && c.authentic;
    let is_client = true; // template: client mode
    let (dec_calls, dec_ok, dec_wrong, enc_calls, enc_key, enc_aad_ptr, enc_aad_len, cookie_encodes, bad_keys, enc_keyset, foreign) = unsafe {
        (DEC_CALLS, DEC_OK, DEC_WRONG_KEY, ENC_CALLS, ENC_KEY, ENC_AAD_PTR, ENC_AAD_LEN, COOKIE_ENCODES, COOKIE_ENCODE_BAD_KEYS, COOKIE_ENCODE_KEYSET, COOKIE_DECODE_FOREIGN)
    };
    assert!(dec_wrong == 0, "the request is only ever decrypted with the cookie's c2s key");
    assert!(foreign == 0, "only the request's cookie field is decoded");
    assert!(dec_ok as usize <= auth_ok as usize, "model sanity: decrypt succeeds only for an authentic request with a valid cookie");

    let uid_main = (lay.o_uid() + 4, lay.uid);
    let uid_trail = (lay.o_trailing() + 4, if lay.trailing > 0 { lay.trailing - 4 } else { 0 });

    let n = match out {
        None => {
            // C19 does not require an answer; but an authentic client request from an allowed
            // client must not be dropped (otherwise every assertion below would be vacuous).
            assert!(!(auth_ok && is_client), "authentic NTS client request is answered");
            return;
        }
        Some(n) => n,
    };
    let resp = &buf[..n];

    if !auth_ok {
        // ---- authentication failed: NAK, or DENY by policy; never time, nothing encrypted or issued
        let expect = if env.deny_client { Kind::Deny } else { Kind::Nak };
        check_header_v34(resp, msg, expect, env);
        assert!(resp[1] == 0 && rd64(resp, 32) == 0 && rd64(resp, 40) == 0, "C19: no time in the answer to an unauthenticated request");
        assert!(enc_calls == 0, "nothing is encrypted for an unauthenticated request");
        // fields: only echoes of the request's unique identifiers
        let pos = if lay.trailing > 0 {
            walk_uid_echoes(resp, n, 48, msg, &[uid_main, uid_trail])
        } else {
            walk_uid_echoes(resp, n, 48, msg, &[uid_main])
        };
        assert!(pos == n, "NAK/DENY carries nothing but unique-identifier echoes (no cookie, nothing from the undecryptable part)");
        assert!(stats.nts || env.deny_client, "statistics: counted as NTS");
        kani::cover!(expect == Kind::Nak && !c.cookie_valid, "NAK: cookie does not decode");
        kani::cover!(expect == Kind::Nak && c.cookie_valid && !c.authentic, "NAK: cookie fine, authentication tag wrong");
        kani::cover!(expect == Kind::Deny, "DENY for an unauthenticated request of a denied client");
        return;
    }

    // ---- authenticated request
    assert!(is_client, "only client-mode requests get an authenticated answer");
    let expect = if env.deny_client { Kind::Deny } else { Kind::Time };
    check_header_v34(resp, msg, expect, env);
    // authenticated part: the echo of the authenticated unique identifier, nothing else
    let pos = walk_uid_echoes(resp, n, 48, msg, &[uid_main]);
    // encrypted field = last field of the answer
    assert!(pos + 8 <= n && rd16(resp, pos) == EF_ENCRYPTED, "answer carries the NTS authenticator field after the echoes");
    let total = rd16(resp, pos + 2) as usize;
    let nonce_len = rd16(resp, pos + 4) as usize;
    let ct_len = rd16(resp, pos + 6) as usize;
    assert!(pos + total == n, "authenticator is the last field: everything before it is associated data");
    assert!(nonce_len == NONCE_LEN && ct_len >= TAG_LEN && total == 8 + nonce_len + ((ct_len + 3) & !3), "authenticator framing");
    // the authenticator was produced by exactly one encrypt call, under the cookie's s2c key, over
    // exactly the answer's prefix, and what it authenticated is what is being sent
    assert!(enc_calls == 1, "exactly one AEAD encryption per answer");
    assert!(enc_key == S2C_ID, "C19: answer is authenticated with the cookie's server-to-client key");
    assert!(enc_aad_ptr == buf_ptr && enc_aad_len == pos, "C19: associated data = the answer up to the authenticator field");
    let mut i = 0;
    let mut same_prefix = true;
    while i < pos && i < 128 {
        same_prefix &= unsafe { ENC_AAD_COPY[i] } == resp[i];
        i += 1;
    }
    assert!(pos <= 128 && same_prefix, "the authenticated prefix is the prefix that is sent");
    let nonce_at = pos + 8;
    let ct_at = nonce_at + nonce_len;
    let mut i = 0;
    let mut model_out = true;
    while i < NONCE_LEN {
        model_out &= resp[nonce_at + i] == ENC_NONCE_BYTE;
        i += 1;
    }
    let mut i = 0;
    while i < TAG_LEN {
        model_out &= resp[ct_at + ct_len - TAG_LEN + i] == S2C_ID;
        i += 1;
    }
    assert!(model_out, "nonce and tag in the answer are the ones the s2c encryption produced");

    // plaintext: fresh cookies only
    let pt_end = ct_at + ct_len - TAG_LEN;
    let mut p = ct_at;
    let mut k: usize = 0;
    let mut last_seq: u8 = 0;
    while p < pt_end && k < 9 {
        assert!(p + 4 <= pt_end && rd16(resp, p) == EF_COOKIE, "encrypted part of the answer holds cookies only");
        let l = rd16(resp, p + 2) as usize;
        assert!(l == 4 + ((fresh + 3) & !3) && p + l <= pt_end, "cookie field holds exactly one cookie of the issued length");
        assert!(resp[p + 4] == 0xC0 && resp[p + 6] == S2C_ID && resp[p + 7] == C2S_ID,
            "C19: cookie was issued by encode_cookie for the request's session keys");
        assert!(resp[p + 5] > last_seq, "every cookie comes from its own encode_cookie call (fresh, never repeated)");
        last_seq = resp[p + 5];
        assert!(all_zero(resp, p + 8, l - 8), "rest of the model cookie and padding");
        p += l;
        k += 1;
    }
    assert!(p == pt_end, "cookies cover the plaintext exactly");
    // C19 bounds: at most one fresh cookie per request cookie/placeholder that is large enough, at most 8
    let holders = (lay.cookie >= fresh) as usize + if lay.placeholder >= fresh { lay.slots() - 1 } else { 0 };
    assert!(k <= 8, "C19: never more than eight cookies");
    assert!(k <= lay.slots(), "C19: at most one fresh cookie per cookie or placeholder in the request");
    assert!(k <= holders, "C19: no fresh cookie is larger than the field it replaces");
    if expect == Kind::Deny {
        assert!(k == 0, "no cookies in a DENY");
    }
    assert!(bad_keys == 0, "C19: cookies are encoded for the same session keys as the request's cookie");
    assert!(cookie_encodes == 0 || enc_keyset == keyset_ptr, "C19: cookies are encoded under the server's current key set");
    assert!(stats.nts, "statistics: counted as NTS");
    kani::cover!(expect == Kind::Time && k == holders && k > 0, "time answer with the maximum number of fresh cookies");
    kani::cover!(expect == Kind::Time && k == 0, "time answer without cookies");
    kani::cover!(expect == Kind::Deny, "authenticated DENY");
}

macro_rules! c19_v4 {
    ($name:ident, $unwind:expr, $lay:expr, $fresh:expr) => {
        srv_harness! {
            #[kani::unwind($unwind)]
            fn $name() {
                const LAY: NtsLayout = $lay;
                let c = NtsCase::any();
                let mut msg: [u8; LAY.len()] = kani::any();
                let mut buf = [0u8; 1024];
                nts_v4_exchange(LAY, $fresh, &c, &mut msg, &mut buf);
            }
        }
    };
}

// quick: one cookie, no placeholder
c19_v4!(c19_nts_p0, 110, NtsLayout { uid: 32, cookie: 104, placeholders: 0, placeholder: 104, nonce: 16, inner: 0, trailing: 0 }, 104);
