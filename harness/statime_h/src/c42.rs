//! C42 The multi-clock estimator keeps unrelated estimates intact.
//!
//! Concrete instantiation: `EstimatorState<NoAllocKalmanStorage<_, 81>>` /
//! `KalmanController<NoAllocKalmanStorage<_, 16>, _>` (fixed arrays + `ArrayVec`; the estimator,
//! matrix and filter code is generic and identical for the heap storage, but `Vec` growth through
//! `realloc` makes every list loop unbounded for the symbolic executor - measured, see report).
//!
//! The reference model is a table "which logical element (clock i offset / clock i frequency /
//! link j delay) exists", kept by the harness from the documented success/failure rules of each
//! operation. The estimator's own entries are overwritten with fresh symbolic bit patterns through
//! a hook before the operation under test, and read back through the row the *queries* would use
//! (`get_clock_info(..).offset_index()` etc.), so a wrong index shift shows up as a changed value.
use statime_algo::verif::controller as ch;
use statime_algo::verif::estimator as eh;
use statime_algo::verif::filter as fh;
use statime_algo::{AlgoError, KalmanController, NoAllocKalmanStorage};
use statime_base::verif::identifiers as ih;
use statime_base::verif::time_types as th;
use statime_base::{Clock, ClockError, ClockId, Duration, LeapStatus, LinkId, TAI, Timestamp};

// N = capacity of the covariance array: 25 for 5 rows (2 clocks + 1 link), 9 for 3 rows (1 clock + 1 link)
type EstN<const N: usize> = eh::EstimatorStateT<NoAllocKalmanStorage<(), N>>;
type Est = EstN<25>;

const NC: usize = 2; // clock ids
const NL: usize = 1; // link id: (0,1)
const SLOTS: usize = 2 * NC + NL;

fn cid(i: usize) -> ClockId {
    ih::clock_id_from_raw(10 + i)
}
fn link_ends(_j: usize) -> (usize, usize) {
    (0, 1)
}
fn lid(j: usize) -> LinkId {
    let (a, b) = link_ends(j);
    ih::link_id_from_raw(cid(a), cid(b), 100 + j)
}

#[derive(Clone, Copy, PartialEq)]
enum ClockKind {
    Absent,
    Internal,
    External,
}

/// Reference model: what exists.
#[derive(Clone, Copy)]
struct Model {
    clocks: [ClockKind; NC],
    links: [bool; NL],
}

impl Model {
    fn rows(&self) -> usize {
        let mut n = 0;
        let mut i = 0;
        while i < NC {
            if self.clocks[i] == ClockKind::Internal {
                n += 2;
            }
            i += 1;
        }
        let mut j = 0;
        while j < NL {
            if self.links[j] {
                n += 1;
            }
            j += 1;
        }
        n
    }
    /// logical slot -> exists
    fn slot_present(&self, s: usize) -> bool {
        if s < 2 * NC { self.clocks[s / 2] == ClockKind::Internal } else { self.links[s - 2 * NC] }
    }
}

#[derive(Clone, Copy)]
struct Op {
    kind: u8,  // 0 add_clock 1 remove_clock 2 add_external 3 remove_external 4 add_link 5 remove_link
    which: u8, // clock / link number
    v0: f64,
    v1: f64,
    u0: f64,
    u1: f64,
}

/// Documented outcome of `op` in model state `m` (Ok => new model).
fn model_apply(m: &Model, op: &Op) -> Option<Model> {
    let w = op.which as usize;
    let mut n = *m;
    match op.kind {
        0 => {
            if m.clocks[w] != ClockKind::Absent {
                return None; // duplicate id (internal or external)
            }
            n.clocks[w] = ClockKind::Internal;
        }
        1 => {
            if m.clocks[w] != ClockKind::Internal {
                return None; // unknown internal clock
            }
            n.clocks[w] = ClockKind::Absent;
        }
        2 => {
            if m.clocks[w] != ClockKind::Absent {
                return None;
            }
            n.clocks[w] = ClockKind::External;
        }
        3 => {
            if m.clocks[w] != ClockKind::External {
                return None;
            }
            n.clocks[w] = ClockKind::Absent;
        }
        4 => {
            let (a, b) = link_ends(w);
            if m.clocks[a] == ClockKind::Absent || m.clocks[b] == ClockKind::Absent || m.links[w] {
                return None; // unknown end point or duplicate link
            }
            n.links[w] = true;
        }
        _ => {
            if !m.links[w] {
                return None;
            }
            n.links[w] = false;
        }
    }
    Some(n)
}

fn est_apply<const N: usize>(e: EstN<N>, op: &Op) -> Result<EstN<N>, AlgoError> {
    let w = op.which as usize;
    match op.kind {
        0 => e.add_clock(
            cid(w),
            eh::UncertainValueT { value: op.v0, uncertainty: op.u0 },
            eh::UncertainValueT { value: op.v1, uncertainty: op.u1 },
            1e-8,
        ),
        1 => e.remove_clock(cid(w)),
        2 => e.add_external_clock(cid(w)),
        3 => e.remove_external_clock(cid(w)),
        4 => e.add_link(lid(w), eh::UncertainValueT { value: op.v0, uncertainty: op.u0 }, 0.5),
        _ => e.remove_link(lid(w)),
    }
}

/// Row the estimator's queries use for logical slot `s`.
fn slot_row<const N: usize>(e: &EstN<N>, s: usize) -> Option<usize> {
    if s < 2 * NC {
        if s % 2 == 0 { eh::est_clock_row(e, cid(s / 2)) } else { eh::est_clock_freq_row(e, cid(s / 2)) }
    } else {
        eh::est_link_row(e, lid(s - 2 * NC))
    }
}

/// Structural agreement of the estimator with the model: dimensions, every existing element has a
/// row inside the matrices, rows pairwise distinct (so they are a bijection onto 0..rows).
fn check_layout<const N: usize>(e: &EstN<N>, m: &Model) {
    let rows = m.rows();
    assert!(eh::est_state_dims(e) == (rows, 1), "state vector has one row per clock entry and link");
    assert!(eh::est_cov_dims(e) == (rows, rows), "covariance is square of the same dimension");
    let mut rws = [usize::MAX; SLOTS];
    let mut s = 0;
    while s < SLOTS {
        let r = slot_row(e, s);
        assert!(r.is_some() == m.slot_present(s), "element known to the estimator iff it exists in the model");
        if let Some(r) = r {
            assert!(r < rows, "element row inside the state vector");
            rws[s] = r;
        }
        s += 1;
    }
    let mut a = 0;
    while a < SLOTS {
        let mut b = a + 1;
        while b < SLOTS {
            assert!(rws[a] == usize::MAX || rws[a] != rws[b], "no two elements share a row");
            b += 1;
        }
        a += 1;
    }
    let mut i = 0;
    while i < NC {
        assert!(e.is_internal_clock(cid(i)) == (m.clocks[i] == ClockKind::Internal), "is_internal_clock agrees with the model");
        assert!(e.is_external_clock(cid(i)) == (m.clocks[i] == ClockKind::External), "is_external_clock agrees with the model");
        if m.clocks[i] == ClockKind::Internal {
            assert!(rws[2 * i + 1] == rws[2 * i] + 1, "frequency entry follows the offset entry");
        }
        i += 1;
    }
}

/// Symbolic payload shared by all paths of one harness.
struct Payload {
    sv: [f64; SLOTS],
    cv: [[f64; SLOTS]; SLOTS],
    v0: f64,
    v1: f64,
}

fn any_payload() -> Payload {
    Payload { sv: kani::any(), cv: kani::any(), v0: kani::any(), v1: kani::any() }
}

/// One operation on one pre-state. `e0`/`m` have a concrete shape (sizes, index layout) on every
/// path; the estimator entries are overwritten with the symbolic payload first.
fn check_op<const N: usize>(e0: &EstN<N>, m: &Model, kind: u8, which: u8, p: &Payload, tally: &mut Tally) {
    let last = Op { kind, which, v0: p.v0, v1: p.v1, u0: 3.0, u1: 4.0 };
    let rows = m.rows();
    let mut e = e0.clone();
    let mut r = 0;
    while r < rows {
        eh::est_state_set(&mut e, r, p.sv[r]);
        let mut c = 0;
        while c < rows {
            eh::est_cov_set(&mut e, r, c, p.cv[r][c]);
            c += 1;
        }
        r += 1;
    }
    let mut before = [usize::MAX; SLOTS];
    let mut s = 0;
    while s < SLOTS {
        if let Some(r) = slot_row(&e, s) {
            before[s] = r;
        }
        s += 1;
    }

    // ---- operation under test
    let res = est_apply(e, &last);
    let mm = model_apply(m, &last);
    assert!(res.is_ok() == mm.is_some(), "operation succeeds exactly when the identifier rules allow it");
    let (Ok(after), Some(nm)) = (res, mm) else {
        tally.rejected += 1;
        return;
    };
    check_layout(&after, &nm);
    let mut arow = [usize::MAX; SLOTS];
    let mut s = 0;
    while s < SLOTS {
        if let Some(r) = slot_row(&after, s) {
            arow[s] = r;
        }
        s += 1;
    }

    // every element that existed before and still exists keeps value and (co)variances, bit for bit
    let mut a = 0;
    while a < SLOTS {
        if m.slot_present(a) && nm.slot_present(a) {
            let ra = arow[a];
            assert!(
                eh::est_state_get(&after, ra).to_bits() == p.sv[before[a]].to_bits(),
                "value of an unrelated element is unchanged"
            );
            let mut b = 0;
            while b < SLOTS {
                if m.slot_present(b) && nm.slot_present(b) {
                    let rb = arow[b];
                    assert!(
                        eh::est_cov_get(&after, ra, rb).to_bits() == p.cv[before[a]][before[b]].to_bits(),
                        "(co)variance between unrelated elements is unchanged"
                    );
                }
                b += 1;
            }
        }
        a += 1;
    }
    // a newly added element gets the supplied estimate and no correlation with the others
    // (its variance is uncertainty.powi(2): CBMC has no exact model of powi, so it is not asserted)
    let w = which as usize;
    if kind == 0 {
        let ro = arow[2 * w];
        let rf = arow[2 * w + 1];
        assert!(eh::est_state_get(&after, ro).to_bits() == last.v0.to_bits(), "new clock: offset value");
        assert!(eh::est_state_get(&after, rf).to_bits() == last.v1.to_bits(), "new clock: frequency value");
        assert!(eh::est_cov_get(&after, ro, rf) == 0.0 && eh::est_cov_get(&after, rf, ro) == 0.0, "new clock: offset/frequency uncorrelated");
        let mut b = 0;
        while b < SLOTS {
            if m.slot_present(b) {
                let rb = arow[b];
                assert!(
                    eh::est_cov_get(&after, ro, rb) == 0.0
                        && eh::est_cov_get(&after, rb, ro) == 0.0
                        && eh::est_cov_get(&after, rf, rb) == 0.0
                        && eh::est_cov_get(&after, rb, rf) == 0.0,
                    "new clock uncorrelated with existing elements"
                );
            }
            b += 1;
        }
    }
    if kind == 4 {
        let rl = arow[2 * NC + w];
        assert!(eh::est_state_get(&after, rl).to_bits() == last.v0.to_bits(), "new link: delay value");
        let mut b = 0;
        while b < SLOTS {
            if m.slot_present(b) {
                let rb = arow[b];
                assert!(eh::est_cov_get(&after, rl, rb) == 0.0 && eh::est_cov_get(&after, rb, rl) == 0.0, "new link uncorrelated with existing elements");
            }
            b += 1;
        }
    }
    // (The public queries `clock_offset`/`clock_frequency` read `state[(get_clock_info(id).offset_index(), 0)]`
    // etc.; the hooks above use the same lookup. They are not called here because they also take
    // the square root of a symbolic variance, which costs minutes of solver time per call; C43 calls
    // them with concrete variances.)
    let mut i = 0;
    while i < NC {
        if nm.clocks[i] != ClockKind::Internal {
            assert!(after.clock_offset(cid(i)).is_err() && after.clock_frequency(cid(i)).is_err(), "no estimate for a clock that is not an internal clock");
        }
        i += 1;
    }
    tally.accepted += 1;
    if (kind == 1 || kind == 5) && rows >= 3 && before[if kind == 1 { 2 * w } else { 2 * NC + w }] + 2 < rows {
        tally.shifted += 1; // something was removed in front of other elements
    }
}

/// What the paths of one harness exercised (plain counters; every path is concrete).
struct Tally {
    accepted: u32,
    rejected: u32,
    shifted: u32,
}

const ALL_OPS: u16 = 0xfff;

fn n_which(kind: u8) -> usize {
    if kind >= 4 { NL } else { NC }
}

/// `mask` bit (2*kind + which) selects the operation.
fn check_ops<const N: usize>(e: &EstN<N>, m: &Model, p: &Payload, tally: &mut Tally, mask: u16) {
    let mut kind = 0u8;
    while kind < 6 {
        let mut which = 0u8;
        while (which as usize) < n_which(kind) {
            if mask & (1 << (2 * kind + which)) != 0 {
                check_op(e, m, kind, which, p, tally);
            }
            which += 1;
        }
        kind += 1;
    }
}

fn empty_state<const N: usize>() -> (EstN<N>, Model) {
    (EstN::<N>::empty(Timestamp::UNIX_EPOCH), Model { clocks: [ClockKind::Absent; NC], links: [false; NL] })
}

/// Concrete pre-state scripts with interleaved layouts; step = (kind, which), see `Op`.
/// (Written as code, not as a table in static memory, so that symbolic execution sees constants.)
fn script_step(script: usize, k: usize) -> Option<(u8, u8)> {
    let steps: [(u8, u8); 6] = match script {
        // c0 c1 L                     rows: c0(0,1) c1(2,3) L(4)
        0 => [(0, 0), (0, 1), (4, 0), (9, 9), (9, 9), (9, 9)],
        // c1 c0 L                     ids out of order: c1(0,1) c0(2,3) L(4)
        1 => [(0, 1), (0, 0), (4, 0), (9, 9), (9, 9), (9, 9)],
        // c0 x1 L                     link to an external clock: c0(0,1) L(2)
        2 => [(0, 0), (2, 1), (4, 0), (9, 9), (9, 9), (9, 9)],
        // x0 x1 L, x0 removed, c0     link row first: L(0) c0(1,2)
        3 => [(2, 0), (2, 1), (4, 0), (3, 0), (0, 0), (9, 9)],
        // c0 c1 L, c0 removed, c0     c1(0,1) L(2) c0(3,4)
        4 => [(0, 0), (0, 1), (4, 0), (1, 0), (0, 0), (9, 9)],
        // single clock
        _ => [(0, 1), (9, 9), (9, 9), (9, 9), (9, 9), (9, 9)],
    };
    if k < 6 && steps[k].0 != 9 { Some(steps[k]) } else { None }
}

fn scripted<const N: usize>(first: usize, last: usize, mask: u16) {
    let p = any_payload();
    let mut tally = Tally { accepted: 0, rejected: 0, shifted: 0 };
    let mut si = first;
    while si < last {
        let (mut e, mut m) = empty_state::<N>();
        let mut k = 0;
        while let Some((kind, which)) = script_step(si, k) {
            let op = Op { kind, which, v0: 1.0, v1: 2.0, u0: 3.0, u1: 4.0 };
            // (moves, not clones: every by-value copy of the estimator costs ~20k symbolic-execution steps)
            let r = est_apply(e, &op);
            let mm = model_apply(&m, &op);
            assert!(r.is_ok() && mm.is_some(), "script step succeeds");
            let (Ok(ne), Some(nm)) = (r, mm) else { return };
            e = ne;
            m = nm;
            k += 1;
        }
        check_layout(&e, &m);
        check_ops(&e, &m, &p, &mut tally, mask);
        si += 1;
    }
    // (one cover per harness: in CBMC's JSON mode every satisfied cover costs a full trace of the run)
    kani::cover!(tally.accepted + tally.rejected >= 1, "the selected operations ran to the end of their checks");
    // the quick slices must hit what their names say
    assert!(mask != 1 << 2 || first != 2 || tally.shifted == 1, "slice c42_ops removes an element in front of others");
    assert!(mask != 1 << 10 || first != 3 || tally.shifted == 1, "slice c42_ops_b removes an element in front of others");
    assert!(mask != 1 << 1 || first != 2 || tally.rejected == 1, "slice c42_ops_c is a rejected operation");
}

macro_rules! script_harness {
    ($name:ident, $i:expr, $mask:expr) => {
        script_harness!($name, $i, $mask, 25, 27);
    };
    ($name:ident, $i:expr, $mask:expr, $n:expr, $unwind:expr) => {
        /// Pre-state: one scripted layout, then the operations selected by the mask.
        #[kani::proof]
        #[kani::unwind($unwind)]
        fn $name() {
            scripted::<$n>($i, $i + 1, $mask);
        }
    };
}
// Operation groups (bit = 2*kind + which): clock add/remove, external add/remove, link add/remove.
// (Harnesses are kept small on purpose: CBMC's JSON mode builds one trace per reachable check, so
// the run time grows with program size x number of checks.)
const OPS_CLOCK: u16 = 0x00f;
const OPS_EXTERNAL: u16 = 0x0f0;
const OPS_LINK: u16 = 0x500;
/// Quick-tier slices.
// Quick tier: 3-row layouts in a 9-entry storage (the recorded values of the 25-entry storage make
// CBMC's per-check traces overflow the memory cap).
script_harness!(c42_ops, 2, 1 << 2, 9, 11); // c0 L (x1 external): remove c0, the link row shifts to the front
script_harness!(c42_ops_b, 3, 1 << 10, 9, 11); // L c0: remove L, the clock rows shift to the front
script_harness!(c42_ops_c, 2, 1 << 1, 9, 11); // c0 L (x1 external): add_clock(c1) is a duplicate id -> rejected, nothing changes
script_harness!(c42_ops_s0_clock, 0, OPS_CLOCK);
script_harness!(c42_ops_s0_ext, 0, OPS_EXTERNAL);
script_harness!(c42_ops_s0_link, 0, OPS_LINK);
script_harness!(c42_ops_s1_clock, 1, OPS_CLOCK);
script_harness!(c42_ops_s1_ext, 1, OPS_EXTERNAL);
script_harness!(c42_ops_s1_link, 1, OPS_LINK);
script_harness!(c42_ops_s2_clock, 2, OPS_CLOCK);
script_harness!(c42_ops_s2_ext, 2, OPS_EXTERNAL);
script_harness!(c42_ops_s2_link, 2, OPS_LINK);
script_harness!(c42_ops_s3_clock, 3, OPS_CLOCK);
script_harness!(c42_ops_s3_ext, 3, OPS_EXTERNAL);
script_harness!(c42_ops_s3_link, 3, OPS_LINK);
script_harness!(c42_ops_s4_clock, 4, OPS_CLOCK);
script_harness!(c42_ops_s4_ext, 4, OPS_EXTERNAL);
script_harness!(c42_ops_s4_link, 4, OPS_LINK);
script_harness!(c42_ops_s5_clock, 5, OPS_CLOCK);
script_harness!(c42_ops_s5_ext, 5, OPS_EXTERNAL);
script_harness!(c42_ops_s5_link, 5, OPS_LINK);

// ------------------------------------------------------------------ time never moves backwards
#[kani::proof]
#[kani::unwind(11)]
fn c42_time() {
    let t0: u128 = kani::any();
    let t1: u128 = kani::any();
    // sane range: both instants in the first half of the (wrapping) timestamp space
    kani::assume(t0 < (1u128 << 126) && t1 < (1u128 << 126));
    kani::assume(t1 <= t0);
    let sv: [f64; 3] = kani::any();
    let cv: [[f64; 3]; 3] = kani::any();
    let mut e: EstN<9> = EstN::<9>::empty(th::ts_from_raw::<TAI>(t0))
        .add_clock(cid(0), (1.0, 1.0).into(), (1.0, 1.0).into(), 1e-8)
        .unwrap()
        .add_external_clock(cid(1))
        .unwrap()
        .add_link(lid(0), (1.0, 1.0).into(), 0.5)
        .unwrap();
    let mut r = 0;
    while r < 3 {
        eh::est_state_set(&mut e, r, sv[r]);
        let mut c = 0;
        while c < 3 {
            eh::est_cov_set(&mut e, r, c, cv[r][c]);
            c += 1;
        }
        r += 1;
    }
    let res = e.clone().progress_time(th::ts_from_raw::<TAI>(t1));
    kani::cover!(t0 - t1 == 1 && res.is_err(), "one unit backwards rejected");
    if t1 < t0 {
        assert!(
            matches!(res, Err(AlgoError::NonMonotonicTimeProgression { from, to }) if th::ts_raw(from) == t0 && th::ts_raw(to) == t1),
            "progressing to an earlier time is an error"
        );

    } else {
        let Ok(after) = res else {
            assert!(false, "progressing to the current time succeeds");
            return;
        };
        assert!(th::ts_raw(eh::est_time(&after)) == t0, "time unchanged");
        let mut r = 0;
        while r < 3 {
            assert!(eh::est_state_get(&after, r).to_bits() == sv[r].to_bits(), "zero time step leaves the state unchanged");
            let mut c = 0;
            while c < 3 {
                assert!(eh::est_cov_get(&after, r, c).to_bits() == cv[r][c].to_bits(), "zero time step leaves the covariance unchanged");
                c += 1;
            }
            r += 1;
        }

    }
}

// ------------------------------------------------------------------ controller: failing operations change nothing
#[derive(Clone)]
pub struct FixedClock;
impl Clock for FixedClock {
    fn now(&self) -> Result<Timestamp<TAI>, ClockError> {
        Ok(Timestamp::UNIX_EPOCH)
    }
    fn set_frequency(&self, _freq: f64) -> Result<Timestamp<TAI>, ClockError> {
        Ok(Timestamp::UNIX_EPOCH)
    }
    fn get_frequency(&self) -> Result<f64, ClockError> {
        Ok(0.0)
    }
    fn max_frequency(&self) -> Result<f64, ClockError> {
        Ok(1e-4)
    }
    fn step_clock(&self, _offset: Duration) -> Result<Timestamp<TAI>, ClockError> {
        Ok(Timestamp::UNIX_EPOCH)
    }
    fn error_estimate_update(&self, _e: Duration, _m: Duration) -> Result<(), ClockError> {
        Ok(())
    }
    fn leap_update(&self, _l: LeapStatus) -> Result<(), ClockError> {
        Ok(())
    }
    fn synchronization_update(&self, _s: bool) -> Result<(), ClockError> {
        Ok(())
    }
}

pub type Ctl = KalmanController<NoAllocKalmanStorage<FixedClock, 4>, FixedClock>;
impl AsRef<Ctl> for CtlRef<'_> {
    fn as_ref(&self) -> &Ctl {
        self.0
    }
}
pub struct CtlRef<'a>(pub &'a Ctl);

pub fn filter_config() -> fh::LinkFilterConfigT {
    fh::LinkFilterConfigT {
        select_offset_uncertainty_window: 1.0,
        select_link_uncertainty_window: 1.0,
        select_delay_uncertainty_window: 1.0,
        select_max_window_size: 1.0,
        minimum_agreeing_sources: 1,
    }
}

/// Controller with the system clock S (2 state rows) and an external clock X. Every estimator entry is symbolic.
/// A failing call (unknown / duplicate / wrong-kind identifier) must leave all entries, the
/// dimension, and the clock and link lists unchanged; a succeeding call must leave the clock's
/// entries unchanged.
#[kani::proof]
#[kani::unwind(8)]
fn c42_ctl() {
    let sv: [f64; 2] = kani::any();
    let cv: [[f64; 2]; 2] = kani::any();
    let opk: u8 = kani::any();
    kani::assume(opk < 2); // remove_clock / remove_external_clock (each further operation arm adds ~150k steps; six arms exhaust 8 GB)
    let raw_a: usize = kani::any();
    let raw_b: usize = kani::any();

    let (ctl, sys) = Ctl::new(FixedClock, 1e-8, filter_config()).unwrap();
    let x = ctl.add_external_clock().unwrap();
    ch::with_filter(&ctl, |f| {
        let e = fh::filter_estimator_mut(f);
        let mut r = 0;
        while r < 2 {
            eh::est_state_set(e, r, sv[r]);
            let mut c = 0;
            while c < 2 {
                eh::est_cov_set(e, r, c, cv[r][c]);
                c += 1;
            }
            r += 1;
        }
    });
    let ida = ih::clock_id_from_raw(raw_a);
    let idb = ih::clock_id_from_raw(raw_b);
    let known = |id: ClockId| id == sys || id == x;

    // expected outcome from the documented rules
    let (ok, expect_ok): (bool, bool) = match opk {
        0 => (ctl.remove_clock(ida).is_ok(), false), // system clock, external and unknown ids all fail
        1 => (ctl.remove_external_clock(ida).is_ok(), ida == x),
        // (creating links is left out: one LinkInfo - ring buffers of the noise estimator - in the
        // controller state makes the run exhaust 8 GB, with either storage)
        2 => (ctl.remove_clock(idb).is_ok(), false),
        3 => (ctl.clock_frequency(ida).is_ok(), ida == sys),
        4 => (ctl.clock_offset(ida).is_ok(), ida == sys),
        _ => (ctl.add_external_clock().is_ok(), true),
    };
    assert!(ok == expect_ok, "controller operation succeeds exactly when the identifier rules allow it");

    ch::with_filter(&ctl, |f| {
        if !ok {
            assert!(fh::filter_link_count(f) == 0, "failed operation: link list unchanged");
        }
        let e = fh::filter_estimator(f);
        if !ok {
            assert!(eh::est_counts(e) == (1, 1, 0), "failed operation: clock lists unchanged");
        }
        assert!(eh::est_rows(e) == 2, "dimension unchanged");
        assert!(eh::est_clock_row(e, sys) == Some(0), "system clock row");
        let mut r = 0;
        while r < 2 {
            assert!(eh::est_state_get(e, r).to_bits() == sv[r].to_bits(), "state entries unchanged");
            let mut c = 0;
            while c < 2 {
                assert!(eh::est_cov_get(e, r, c).to_bits() == cv[r][c].to_bits(), "covariance entries unchanged");
                c += 1;
            }
            r += 1;
        }
    });
    assert!(ch::steered_clock_count(&ctl) == 1, "steered clock list unchanged");
    kani::cover!(opk == 1 && !ok && ida == sys, "remove_external_clock on the system clock fails");
}

// ---------------------------------------------------------------- native scenario test (lead)
// c42_ops_b's counterexamples come with large traces (kani-driver can run out of memory producing
// the playback test). This ordinary test drives the REAL estimator with one concrete instance of
// the same scenario (a link in front of clocks is removed); the driver runs it natively when the
// harness fails and reports a violation only if it fails on the real code.
#[cfg(test)]
mod native {
    use super::*;

    #[test]
    fn native_remove_link_keeps_later_clocks() {
        // script 3 of the harness: x0 x1 L, x0 removed, c0 added  =>  rows L(0) c0(1,2)
        let e = Est::empty(Timestamp::UNIX_EPOCH);
        let e = e.add_external_clock(cid(0)).expect("add external clock 0");
        let e = e.add_external_clock(cid(1)).expect("add external clock 1");
        let e = e
            .add_link(lid(0), eh::UncertainValueT { value: 0.125, uncertainty: 0.5 }, 0.5)
            .expect("add link");
        let e = e.remove_external_clock(cid(0)).expect("remove external clock 0");
        let mut e = e
            .add_clock(
                cid(0),
                eh::UncertainValueT { value: 3.0, uncertainty: 0.25 },
                eh::UncertainValueT { value: 7.0e-6, uncertainty: 0.5e-6 },
                1e-8,
            )
            .expect("add clock after the link");
        let r_off = eh::est_clock_row(&e, cid(0)).expect("clock row");
        let r_frq = eh::est_clock_freq_row(&e, cid(0)).expect("clock frequency row");
        eh::est_state_set(&mut e, r_off, 3.0);
        eh::est_state_set(&mut e, r_frq, 7.0e-6);
        let off0 = eh::est_state_get(&e, r_off).to_bits();
        let frq0 = eh::est_state_get(&e, r_frq).to_bits();
        let var0 = eh::est_cov_get(&e, r_off, r_off).to_bits();
        let e = e.remove_link(lid(0)).expect("remove the link in front of the clock");
        let r_off2 = eh::est_clock_row(&e, cid(0)).expect("clock still known");
        let r_frq2 = eh::est_clock_freq_row(&e, cid(0)).expect("clock still known");
        assert!(r_off2 < eh::est_rows(&e) && r_frq2 < eh::est_rows(&e), "element row inside the state vector");
        assert!(eh::est_state_get(&e, r_off2).to_bits() == off0, "offset estimate of the unrelated clock is unchanged");
        assert!(eh::est_state_get(&e, r_frq2).to_bits() == frq0, "frequency estimate of the unrelated clock is unchanged");
        assert!(eh::est_cov_get(&e, r_off2, r_off2).to_bits() == var0, "uncertainty of the unrelated clock is unchanged");
    }
}
