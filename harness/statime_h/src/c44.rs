//! C44 CSPTP clients survive any server traffic and only use matching answers.
//!
//! `c44_corr*`: the private timestamp arithmetic (`add_correction`, `convert_to_ntp`) against exact
//! integer arithmetic. `c44_collect*`: the private `collect_response` loop polled to quiescence over a
//! scripted in-memory socket; the oracle is a reference state machine written from the protocol
//! description (one-step answer / two-step answer + follow-up, in either order) on the raw bytes.
use crate::common::*;
use core::future::Future;
use core::task::{Context, Poll};
use ntp_proto::{Measurement, ObservableSourceTimedata, PollInterval, SourceController};
use statime_csptp::verif::source as sh;
use statime_csptp::{ClientRecvResult, ClientSocket, CsptpConfig, CsptpManager, CsptpSource, CsptpSourceConfig, InternalState};
use statime_wire::{TimeInterval, Timestamp};
use std::cell::RefCell;

// ------------------------------------------------------------------ arithmetic
const NS: i128 = 1_000_000_000;

#[derive(Clone, Copy, PartialEq)]
enum Region {
    /// every timestamp/correction pair
    Any,
    /// corrected time outside [0, 2^48 s): panicked before 0b63ecb, now wraps modulo 2^48 s
    OutOfRange,
}

/// `corr_bits`: the correction is restricted to |correction| < 2^corr_bits nanoseconds
/// (63 - 16 = 47 = every i64 correction field). The in-range proof has to relate three hardware
/// dividers to exact integer arithmetic, which is hard for a SAT solver at full width.
fn corr(region: Region, corr_bits: u32) {
    let s: u64 = kani::any();
    let n: u32 = kani::any();
    let c: i64 = kani::any();
    kani::assume(s < (1u64 << 48) && n < 1_000_000_000);
    kani::assume((c >> 16) < (1i64 << corr_bits) && (c >> 16) >= -(1i64 << corr_bits));
    let ts = Timestamp::new(s, n).unwrap();
    // Exact corrected time in nanoseconds; the correction field counts 2^-16 ns (floor to whole ns).
    // The oracle is stated with multiplications only (result * 10^9 + nanos == total): a second
    // divider circuit next to the one in the code under test makes the SAT problem intractable.
    if region == Region::OutOfRange {
        let total: i128 = (s as i128) * NS + n as i128 + ((c >> 16) as i128);
        kani::assume(!(total >= 0 && total < (1i128 << 48) * NS));
    }
    let r = sh::add_correction_hook(ts, TimeInterval(c));
    // (reaching this point = no panic)
    assert!(r.nanos() < 1_000_000_000, "nanoseconds normalised");
    assert!(r.seconds() < (1u64 << 48), "seconds fit the 48-bit wire field");
    // result - input == correction modulo 2^48 s, stated on the (small) differences:
    // |correction| < 2^47 ns < 140738 s; the seconds difference is taken in 48-bit two's complement
    let ds = ((r.seconds().wrapping_sub(s) << 16) as i64) >> 16;
    let dn = r.nanos() as i64 - n as i64;
    assert!(ds >= -140_739 && ds <= 140_739, "seconds move by at most the correction (modulo 2^48)");
    assert!(ds * 1_000_000_000 + dn == (c >> 16), "corrected timestamp - timestamp = correction (whole nanoseconds, rounded down; seconds modulo 2^48)");
    // (covers satisfiable in both regions, placed where both harnesses reach them)
    kani::cover!(s == 0 && c < 0 && r.seconds() == (1u64 << 48) - 1, "below the epoch: wraps to the top of the 48-bit range");
    kani::cover!(c < 0 && r.nanos() > n, "negative correction borrows from the seconds");
}

#[kani::proof]
fn c44_corr() {
    corr(Region::Any, 32);
}

#[kani::proof]
fn c44_corr_40() {
    corr(Region::Any, 40);
}



/// Regression harness for the defect fixed in 0b63ecb (corrected seconds outside [0, 2^48) hit the
/// `expect` on `Timestamp::new`, a remote-triggerable panic): no panic, result wraps modulo 2^48 s.
#[kani::proof]
fn c44_corr_out_of_range() {
    corr(Region::OutOfRange, 32);
}

#[kani::proof]
fn c44_to_ntp() {
    let s: u64 = kani::any();
    let n: u32 = kani::any();
    kani::assume(s < (1u64 << 48) && n < 1_000_000_000);
    let t = sh::convert_to_ntp_hook(Timestamp::new(s, n).unwrap());
    // PTP (TAI, epoch 1970) -> NTP (UTC, epoch 1900): + 70 years incl. 17 leap days, - 37 s TAI-UTC; era-wrapped
    let secs = ((s as u128 + 2_208_988_800 - 37) % (1u128 << 32)) as u64;
    let raw = ntp_proto::verif::time_types::ts_raw(t);
    assert!(raw >> 32 == secs, "NTP seconds = PTP seconds + 2208988800 - 37 (mod 2^32)");
    // The binary fraction is computed by NtpTimestamp::from_seconds_nanos_since_ntp_era, whose
    // exactness for all nanos < 10^9 is C32's c32_ts_bits_truncate; a second divider (or multiplier)
    // next to the one in the code makes this query intractable, so only anchor points are checked.
    let frac = raw & 0xffff_ffff;
    if n == 0 {
        assert!(frac == 0, "fraction of 0 ns");
    }
    if n == 500_000_000 {
        assert!(frac == 0x8000_0000, "fraction of half a second");
    }
    if n == 999_999_999 {
        assert!(frac == 0xffff_fffb, "fraction of 999999999 ns");
    }
    kani::cover!(s > (1u64 << 32), "seconds beyond one NTP era");
}

// ------------------------------------------------------------------ response collection
pub struct NullCtl;
impl SourceController for NullCtl {
    fn handle_measurement(&mut self, _m: Measurement) {}
    fn set_usable(&mut self, _usable: bool) {}
    fn desired_poll_interval(&self) -> PollInterval {
        PollInterval::default()
    }
    fn observe(&self) -> ObservableSourceTimedata {
        ObservableSourceTimedata::default()
    }
}

const DG: usize = 66; // largest template: header 34 + sync body 10 + response TLV 4+18

#[derive(Clone, Copy)]
struct Dgram {
    bytes: [u8; DG],
    len: usize,
    rx: Option<Timestamp>,
    recv_err: bool,
}

struct Script<const N: usize> {
    d: [Dgram; N],
    next: usize,
}

struct ScriptSock<'a, const N: usize>(&'a RefCell<Script<N>>);

impl<const N: usize> ClientSocket for ScriptSock<'_, N> {
    type Error = ();
    fn recv(&mut self, buf: &mut [u8]) -> impl Future<Output = Result<ClientRecvResult, ()>> {
        let mut s = self.0.borrow_mut();
        let mut out: Option<Result<ClientRecvResult, ()>> = None;
        if s.next < N {
            let d = s.d[s.next];
            s.next += 1;
            if d.recv_err {
                out = Some(Err(()));
            } else {
                // byte-wise with constant indices (a memcpy into the 512-byte receive buffer hides the
                // concrete template fields from the symbolic executor)
                crate::unroll64!(i, {
                    if i < d.len {
                        buf[i] = d.bytes[i];
                    }
                });
                if d.len > 64 {
                    buf[64] = d.bytes[64];
                    buf[65] = d.bytes[65];
                }
                out = Some(Ok(ClientRecvResult { bytes_read: d.len, timestamp: d.rx }));
            }
        }
        // no datagram left: pending forever (the real caller races this against a timeout)
        core::future::poll_fn(move |_| match out.take() {
            Some(r) => Poll::Ready(r),
            None => Poll::Pending,
        })
    }
    fn send_event(&mut self, _buf: &[u8]) -> impl Future<Output = Result<Timestamp, ()>> {
        core::future::ready(Err(()))
    }
}

/// Template datagrams (concrete type and length fields, everything else symbolic):
/// kind 0 = Sync + CSPTP response TLV, kind 1 = Follow_Up, kind 2 = Sync + CSPTP request TLV.
fn any_dgram(kind: u8) -> Dgram {
    let mut b: [u8; DG] = kani::any();
    let len = match kind {
        0 => 66,
        1 => 44,
        _ => 52,
    };
    b[0] = if kind == 1 { 0x38 } else { 0x30 }; // sdoId high nibble 3 (CSPTP), messageType Sync / Follow_Up
    put16(&mut b, 2, len as u16);
    if kind == 0 {
        put16(&mut b, 44, 0xff01);
        put16(&mut b, 46, 18);
        kani::assume(be32(&b, 54) != 1_000_000_000);
    }
    if kind == 2 {
        put16(&mut b, 44, 0xff00);
        put16(&mut b, 46, 4);
    }
    // the parser and Timestamp::new disagree at nanoseconds == 10^9 exactly; excluded (see report)
    kani::assume(be32(&b, 40) != 1_000_000_000);
    let has_rx: bool = kani::any();
    let rx = any_timestamp();
    Dgram { bytes: b, len, rx: if has_rx { Some(rx) } else { None }, recv_err: kani::any() }
}

/// What a CSPTP client may use: PTPv2 (versionPTP nibble 2), sdoId 0x300, complete, valid timestamps.
fn well_formed(d: &Dgram, kind: u8) -> bool {
    let b = &d.bytes;
    let sdo_ok = (b[0] >> 4) == 3 && b[5] == 0;
    let ver_ok = b[1] & 0x0f == 2;
    let ts_ok = be32(b, 40) < 1_000_000_000;
    let tlv_ts_ok = kind != 0 || be32(b, 54) < 1_000_000_000;
    sdo_ok && ver_ok && ts_ok && tlv_ts_ok
}

fn raw_ts(b: &[u8], o: usize) -> (u64, u32) {
    (be48(b, o), be32(b, o + 6))
}
fn ts_pair(t: Timestamp) -> (u64, u32) {
    (t.seconds(), t.nanos())
}

#[derive(Clone, Copy)]
enum Spec {
    Idle,
    HaveSync { idx: usize },
    HaveFollowUp { idx: usize },
}

fn collect<const N: usize>(kinds: [u8; N]) {
    // ---- draws (datagram kinds are concrete per harness: a symbolic kind makes the datagram
    // length and the messageType nibble symbolic and the parser then explores all ten body types)
    let domain: u8 = kani::any();
    let request_id: u16 = kani::any();
    let send_ts = any_timestamp();
    let mut d = [Dgram { bytes: [0; DG], len: 0, rx: None, recv_err: false }; N];
    let mut i = 0;
    while i < N {
        d[i] = any_dgram(kinds[i]);
        i += 1;
    }

    // ---- code under test
    let manager: CsptpManager<RefCell<InternalState>> = CsptpManager::new(CsptpConfig::default());
    let cfg = CsptpSourceConfig { domain, ..CsptpSourceConfig::default() };
    let mut src = CsptpSource::new(
        ntp_proto::verif::source::clock_id(1),
        ntp_proto::verif::source::clock_id(2),
        cfg,
        &manager,
        NullCtl,
    );
    let script = RefCell::new(Script { d, next: 0 });
    let result = {
        let fut = sh::collect_response_hook(&mut src, ScriptSock(&script), request_id, send_ts);
        let mut fut = core::pin::pin!(fut);
        let mut cx = Context::from_waker(std::task::Waker::noop());
        fut.as_mut().poll(&mut cx)
    };
    let consumed = script.borrow().next;

    // ---- reference machine over the raw datagrams
    let mut st = Spec::Idle;
    let mut produced: Option<(usize, usize, usize)> = None; // (index of Sync, index of Follow_Up or MAX, last index)
    let mut i = 0;
    while i < N {
        if produced.is_none() {
            let k = kinds[i];
            let b = &d[i].bytes;
            let usable = !d[i].recv_err && well_formed(&d[i], k) && b[4] == domain && be16(b, 30) == request_id;
            if usable && k == 0 && d[i].rx.is_some() {
                let two_step = b[6] & 2 != 0;
                if !two_step {
                    produced = Some((i, usize::MAX, i));
                } else {
                    match st {
                        Spec::Idle => st = Spec::HaveSync { idx: i },
                        Spec::HaveSync { .. } => {}
                        Spec::HaveFollowUp { idx } => produced = Some((i, idx, i)),
                    }
                }
            } else if usable && k == 1 {
                match st {
                    Spec::Idle => st = Spec::HaveFollowUp { idx: i },
                    Spec::HaveSync { idx } => produced = Some((idx, i, i)),
                    Spec::HaveFollowUp { .. } => {}
                }
            }
        }
        i += 1;
    }

    match (result, produced) {
        (Poll::Pending, None) => {
            assert!(consumed == N, "without a usable answer every datagram is read and the client keeps waiting");
        }
        (Poll::Ready(m), Some((si, fi, last))) => {
            assert!(consumed == last + 1, "the measurement is produced by the completing datagram; nothing after it is read");
            let sb = &d[si].bytes;
            assert!(sb[4] == domain && be16(sb, 30) == request_id, "the answer used carries the request's domain and sequence id");
            assert!(ts_pair(m.request_send_time()) == ts_pair(send_ts), "request send time = local send timestamp");
            assert!(ts_pair(m.request_recv_time()) == raw_ts(sb, 48), "request receive time = reqIngressTimestamp of the response TLV");
            assert!(m.request_correction().0 == be64(sb, 58) as i64, "request correction = reqCorrectionField of the response TLV");
            assert!(d[si].rx.is_some() && ts_pair(m.response_recv_time()) == ts_pair(d[si].rx.unwrap()), "response receive time = socket timestamp of the Sync");
            let sync_corr = be64(sb, 8) as i64;
            if fi == usize::MAX {
                assert!(sb[6] & 2 == 0, "one-step answer");
                assert!(ts_pair(m.response_send_time()) == raw_ts(sb, 34), "one-step: response send time = originTimestamp");
                assert!(m.response_correction().0 == sync_corr, "one-step: response correction = Sync correctionField");
            } else {
                let fb = &d[fi].bytes;
                assert!(fb[4] == domain && be16(fb, 30) == request_id, "the follow-up used carries the request's domain and sequence id");
                assert!(ts_pair(m.response_send_time()) == raw_ts(fb, 34), "two-step: response send time = preciseOriginTimestamp");
                let fu_corr = be64(fb, 8) as i64;
                assert!(m.response_correction().0 == sync_corr.saturating_add(fu_corr), "two-step: corrections add up (saturating)");
            }
            kani::cover!(true, "measurement produced");
        }
        (Poll::Ready(_), None) => assert!(false, "a measurement was produced although no usable answer was delivered"),
        (Poll::Pending, Some(_)) => assert!(false, "a usable answer was delivered but no measurement was produced"),
    }
}

macro_rules! collect_harness {
    ($name:ident, $n:expr, $kinds:expr, $unwind:expr) => {
        #[kani::proof]
        #[kani::unwind($unwind)]
        fn $name() {
            collect::<$n>($kinds);
        }
    };
}
// S = Sync + response TLV, F = Follow_Up, R = Sync + request TLV
collect_harness!(c44_collect_s, 1, [0], 4); // a single answer: one-step measurement, or waiting
collect_harness!(c44_collect, 2, [0, 1], 5); // S F
collect_harness!(c44_collect_fs, 2, [1, 0], 5); // F S
collect_harness!(c44_collect_ssf, 3, [0, 0, 1], 6); // duplicate Sync, then Follow_Up
collect_harness!(c44_collect_ffs, 3, [1, 1, 0], 6); // duplicate Follow_Up, then Sync
collect_harness!(c44_collect_srf, 3, [0, 2, 1], 6); // a request in between
collect_harness!(c44_collect_fsf, 3, [1, 0, 1], 6); // measurement completes at the second datagram, third unread

/// Fallback for the response-collection loop (the async `collect_response` harnesses above exhaust
/// 8 GB / 25 min even for a single datagram): what the loop reads from an answer. Template
/// Sync + CSPTP response TLV through the crate's own `CsptpMessage::deserialize` (thin hook):
/// accepted iff well-formed, classified as a response, and every field the loop uses (domain,
/// sequence id, two-step flag, correction field, origin timestamp, reqIngressTimestamp,
/// reqCorrectionField) equals the bytes at its IEEE 1588 / CSPTP wire offset. The comparison of
/// domain and sequence id with the pending request happens inline in `collect_response` and is
/// NOT covered by this harness.
#[kani::proof]
#[kani::unwind(5)]
fn c44_accept() {
    use statime_csptp::verif::messages as gh;
    let d = any_dgram(0);
    let b = &d.bytes;
    let parsed = gh::msg_deserialize(&b[..66]);
    assert!(parsed.is_some() == well_formed(&d, 0), "answer template parses iff sdoId 0x300, PTP version 2, valid timestamps");
    let Some(msg) = parsed else { return };
    assert!(gh::msg_is_response(&msg) && !gh::msg_is_request(&msg), "a Sync with a response TLV is a response");
    let m = gh::msg_message(&msg);
    assert!(m.header.domain_number == b[4], "domain read from octet 4");
    assert!(m.header.sequence_id == be16(b, 30), "sequence id read from octets 30..32");
    assert!(m.header.two_step_flag == (b[6] & 2 != 0), "two-step flag read from flagField bit 1");
    assert!(m.header.correction_field.0 == be64(b, 8) as i64, "correction field read from octets 8..16");
    assert!(m.header.leap61 == (b[7] & 1 != 0) && m.header.leap59 == (b[7] & 2 != 0), "leap flags");
    let statime_wire::MessageBody::Sync(sync) = &m.body else {
        assert!(false, "template is a Sync");
        return;
    };
    assert!(ts_pair(sync.origin_timestamp) == raw_ts(b, 34), "origin timestamp read from octets 34..44");
    let first = m.suffix.tlvs().next();
    let Some(t) = first else {
        assert!(false, "the response TLV is iterated");
        return;
    };
    assert!(t.tlv_type == statime_wire::TlvType::CsptpResponse && t.value.len() == 18, "response TLV");
    assert!((be48(&t.value, 0), be32(&t.value, 6)) == raw_ts(b, 48), "reqIngressTimestamp bytes");
    assert!(be64(&t.value, 10) == be64(b, 58), "reqCorrectionField bytes");
    kani::cover!(b[6] & 2 != 0 && b[4] == 128, "two-step answer in the default domain");
}
