//! Harnesses for property C30 (see /verif/properties.jsonl).
use crate::stubs;
