NH = "np_nts_h"
PROP = dict(
    functions=[
        "ntp_proto::cookiestash::CookieStash::{store,get,gap,len,is_empty}",
        "ntp_proto::source::NtpSource<RecCtl>::handle_timer (NTS branch)",
        "ntp_proto::packet::NtpPacket::{nts_poll_message,nts_poll_message_v5,serialize} (serialize: *_wire harnesses only)",
        "ntp_proto::packet::extension_fields::{ExtensionFieldData::serialize,ExtensionField::serialize,encode_encrypted} (*_wire harnesses only)",
    ],
    bounds="stash: ONE store/get from every raw ring state (read<8, valid<=8, arbitrary 1-byte cookies, arbitrary stale free slots) checked through the full "
           "abstraction function (= inductive step for histories of any length), plus 4 (quick) / 10 (thorough) consecutive operations from every raw state; "
           "poll (structure level): every stash fill 0..=8, cookie length 0..=32 with symbolic content, NTPv4 and NTPv5, any reach/tries/poll desire; "
           "poll (wire level, real encoder): stash fill 6..=8 (at most two placeholders), same otherwise",
    outside="cookie lengths above 32 in the poll harnesses (sizes: C14); wire-level check of requests with more than two placeholders (the structure handed to the "
            "encoder is checked for all fills; the encoder is field-by-field, exercised with up to 6 fields here and by C24); arbitrary ring position in the poll "
            "harnesses (position 0; arbitrary positions are covered by the stash harnesses through the abstraction function); cookie delivery on the response "
            "path (C07: stored cookies = exactly the encrypted cookie fields, in order)",
    assumptions=[
        "ideal AEAD model for the request authenticator: nonce 16 bytes, ciphertext = plaintext + 16 (AES-SIV sizes), no cryptography",
        "packet-size limit taken from the implementation's documented margin: floor((1024-300)/max(L,1)) cookies",
    ],
    stub_notes=[
        "c13_poll_struct_*: NtpPacket::serialize replaced by a recorder (records field kinds, trust class, cookie bytes, key) - encoding >6 symbolic fields does not finish (unwind 10: >5 min, >4 GB)",
        "c13_poll_wire_*: ExtensionField::write_zeros replaced by a single write of n zeros (equivalence with the real loop: c14_write_zeros_model)",
        "thread_rng: ghost tape (unique identifier, origin timestamp, jitter are arbitrary); HashMap::insert on the snapshot publication map: no-op",
    ],
    harnesses=[
        H(NH, "c13", "c13_stash_init", "a new stash is the empty queue", timeout=120),
        H(NH, "c13", "c13_stash_step", "one store/get from any raw state preserves 'ring window = FIFO of the newest 8' (get = oldest, each position at most once, len/gap agree)", timeout=300),
        H(NH, "c13", "c13_stash_seq4", "4 consecutive symbolic store/get operations from any raw state against a serial-number FIFO model", timeout=300),
        H(NH, "c13", "c13_stash_seq10", "10 consecutive symbolic store/get operations", tier="thorough", timeout=1800),
        H(NH, "c13", "c13_poll_struct_v4", "NTPv4 NTS poll, all stash fills: cookie handed to the encoder = oldest, consumed from the stash, placeholders = min(missing, fit) - 1, all authenticated under c2s", timeout=300),
        H(NH, "c13", "c13_poll_struct_v5", "same for NTPv5", timeout=300),
        H(NH, "c13", "c13_poll_wire_v4", "NTPv4 NTS poll with the real encoder, stash fill 6..=8: same claims on the datagram bytes + exact datagram size", timeout=300),
        H(NH, "c13", "c13_poll_wire_v5", "same for NTPv5", timeout=300),
    ],
)
