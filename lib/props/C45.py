ST = "statime_h"
PROP = dict(
    functions=[
        "statime_csptp::server::handle_packet::<RecSock, RefCell<InternalState>> (private async fn, via hook wrapper; polled with Waker::noop) - thorough tier",
        "statime_csptp::messages::CsptpMessage::{deserialize,is_request,is_response,new_response,new_follow_up,serialize}, CsptpRequestTlv/CsptpResponseTlv/CsptpStatusTlv::{try_from,add_to}",
        "statime_wire::Message::{deserialize,serialize}, TlvSetBuilder, TlvSet iteration (reached from handle_packet)",
    ],
    bounds="c45_handle: request template Sync + CSPTP request TLV (52 bytes; messageType nibble, messageLength, TLV type and length concrete, the other 46 bytes symbolic: sdoId, version, domain, flags, correctionField, "
           "sourcePortIdentity, sequenceId, originTimestamp, request flags incl. status bit); c45_handle_other / c45_handle_any: byte strings of symbolic length <= 52 (<= 56 in c45_handle_any_56) whose first octet (sdoId high nibble + messageType) is fixed per run to 0x30 or to one of 11 representatives of the other classes, all other bytes unstructured; "
           "server state symbolic (grandmaster identity/priorities/quality/stepsRemoved/timescale+traceable flags, leap indicator), reception timestamp symbolic, addresses symbolic, send_event result symbolic (Ok(any timestamp) | Err), send_general result symbolic",
    outside="first octets other than the 12 representatives (sdoId high nibble other than 0 and 3); serve() loop (shutdown race, socket recv errors); datagrams longer than 56 bytes in the 'answers only requests' direction (requests with more than one extra TLV); nanoseconds fields equal to 10^9 exactly in the template (parser/Timestamp::new disagreement, see report); "
            "status TLV clock-quality bytes (checked: priorities, stepsRemoved, identity, TLV type/length)",
    assumptions=["template request: originTimestamp nanoseconds != 10^9", "reception and send timestamps satisfy the Timestamp::new invariant"],
    stub_notes=["no stubs; ServerSocket implemented by the harness (records the datagrams and addresses given to send_event/send_general, returns scripted results)"],
    harnesses=[
        H(ST, "c45", "c45_messages", "the synchronous steps of handle_packet called in its order through thin hook wrappers (CsptpMessage::deserialize, is_request, new_response, serialize, new_follow_up, serialize) on the template request: same echo checks on the produced bytes", timeout=600),
        H(ST, "c45", "c45_handle", "template request: answered iff sdoId 0x300 / PTP version 2 / valid timestamp; response echoes domain, sequence id, correctionField -> reqCorrectionField, reception time -> reqIngressTimestamp, two-step+unicast flags, leap flags, status TLV iff requested; "
                                   "follow-up iff send_event succeeded, carrying its timestamp; addresses swapped correctly", tier="thorough", timeout_thorough=1800),
        H(ST, "c45", "c45_handle_other", "first octet in {nine non-Sync types, an undefined type} under sdoId 0x3xx and Sync under a foreign sdoId, remaining <= 51 bytes unstructured: never answered", tier="thorough", timeout_thorough=1800),
        H(ST, "c45", "c45_handle_any", "first octet 0x30 (CSPTP Sync), remaining <= 51 bytes unstructured (messageLength, TLV chain): anything sent => raw datagram is a PTPv2 Sync with sdoId 0x300 carrying a CSPTP request TLV inside messageLength; same echo checks", tier="thorough", timeout_thorough=1800),
        H(ST, "c45", "c45_handle_any_56", "the same with <= 55 unstructured bytes", tier="thorough", timeout_thorough=1800),
    ],
)
