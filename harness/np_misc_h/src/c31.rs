//! C31 IP filters match exactly the configured subnets.
//!
//! Oracle (from the property text): an address is listed iff there is a configured subnet of the
//! same (canonical) family whose first `mask` bits equal the first `mask` bits of the address.
//! IPv4-mapped IPv6 query addresses (`::ffff:a.b.c.d`) count as the IPv4 address `a.b.c.d`.
//! Subnets are in the canonical form `IpSubnet::from_str` produces (an IPv4-mapped IPv6 subnet is
//! stored as IPv4; `c31_parse_v4` checks the mask rule), masks within the family's width.
//!
//! Hybrid encoding. `BitTree::fill_node` recurses from 16 guarded call sites per level and keeps
//! all its data on the heap, which CBMC's constant propagation does not see through: symbolic
//! execution instantiates 16^depth copies even for one concrete /0 subnet (measured: no result in
//! 10 min; two subnets with symbolic masks: out of memory at 8 GB). Therefore the trie
//! *construction* is executed natively by this crate's build script (`build.rs`), which links
//! /repo/ntp-proto's current working tree, calls the real `IpFilter::new` on a systematic set of
//! concrete subnet lists (every mask, nested pairs in both orders, sibling blocks that tile their
//! parent, duplicates, pseudo-random pairs) and emits the resulting nodes as constants; the
//! harnesses below load those nodes into a real `IpFilter` (raw constructor hook) and the solver
//! proves `is_in(addr) <=> reference predicate` for **every** address (2^32 IPv4 in plain and
//! IPv4-mapped form, 2^128 IPv6) and **every** list in the table (the list index is symbolic).
//! A wrong trie (e.g. a mask handled one bit off, a bad child index, a wrong coverage merge) has a
//! misclassified address, which the solver finds.
use crate::stubs;
use ntp_proto::IpSubnet;
use ntp_proto::verif::ipfilter as h;
use std::net::{IpAddr, Ipv4Addr, Ipv6Addr};

/// One generated case: the subnet list and the two tries `IpFilter::new` built for it
/// (padded with unreachable all-zero nodes to a common length).
pub struct Case<A, const N4: usize, const N6: usize> {
    pub n: usize,
    pub nets: [A; 2],
    pub masks: [u8; 2],
    pub len4: usize,
    pub len6: usize,
    pub v4: [(u32, u16, u16); N4],
    pub v6: [(u32, u16, u16); N6],
}
include!(concat!(env!("OUT_DIR"), "/c31_tables.rs"));

fn in4(net: u32, mask: u8, a: u32) -> bool {
    // first `mask` bits equal; mask 0 matches everything
    if mask == 0 { true } else { ((net ^ a) >> (32 - mask as u32)) == 0 }
}
fn in6(net: u128, mask: u8, a: u128) -> bool {
    if mask == 0 { true } else { ((net ^ a) >> (128 - mask as u32)) == 0 }
}
fn v4(a: u32) -> IpAddr {
    IpAddr::V4(Ipv4Addr::from(a))
}
fn v6(a: u128) -> IpAddr {
    IpAddr::V6(Ipv6Addr::from(a))
}
const MAPPED: u128 = 0xffff_0000_0000;
fn is_mapped(a: u128) -> bool {
    (a >> 32) == 0xffff
}

fn check4<const N4: usize, const N6: usize>(c: &Case<u32, N4, N6>) {
    let q: u32 = kani::any();
    let q6: u128 = kani::any();
    let f = h::filter_from_nodes(&c.v4, &c.v6);
    let (n, nets, masks) = (c.n, c.nets, c.masks);
    assert!(n <= 2 && masks[0] <= 32 && masks[1] <= 32 && c.len4 >= 1 && c.len6 >= 1);
    let want = (n >= 1 && in4(nets[0], masks[0], q)) || (n >= 2 && in4(nets[1], masks[1], q));
    let got = h::filter_is_in(&f, v4(q));
    assert!(got == want, "IPv4 address listed iff in some configured IPv4 subnet");
    let got_mapped = h::filter_is_in(&f, v6(MAPPED | q as u128));
    assert!(got_mapped == want, "IPv4-mapped IPv6 address is matched as its IPv4 address");
    if !is_mapped(q6) {
        assert!(!h::filter_is_in(&f, v6(q6)), "a proper IPv6 address is never listed by IPv4 subnets");
    }
    kani::cover!(got && n == 2 && !in4(nets[0], masks[0], q), "listed through the second subnet only");
    kani::cover!(!got && n == 2, "not listed although two subnets are configured");
    kani::cover!(got && n == 1 && masks[0] == 32, "listed by a /32");
    kani::cover!(got && masks[0] == 0 && n >= 1, "listed by a /0");
}

fn check6<const N4: usize, const N6: usize>(c: &Case<u128, N4, N6>) {
    let q: u128 = kani::any();
    let q4: u32 = kani::any();
    let f = h::filter_from_nodes(&c.v4, &c.v6);
    let (n, nets, masks) = (c.n, c.nets, c.masks);
    assert!(n <= 2 && c.len4 >= 1 && c.len6 >= 1 && !is_mapped(nets[0]) && !is_mapped(nets[1]));
    if !is_mapped(q) {
        let want = (n >= 1 && in6(nets[0], masks[0], q)) || (n >= 2 && in6(nets[1], masks[1], q));
        let got = h::filter_is_in(&f, v6(q));
        assert!(got == want, "IPv6 address listed iff in some configured IPv6 subnet");
        kani::cover!(got && n == 2 && !in6(nets[0], masks[0], q), "listed through the second subnet only");
        kani::cover!(!got && n == 2, "not listed although two subnets are configured");
        kani::cover!(got && n == 1 && masks[0] == 128, "listed by a /128");
    }
    // IPv4 (plain or mapped) query addresses are canonically IPv4: never in an IPv6 subnet.
    assert!(!h::filter_is_in(&f, v4(q4)), "IPv4 address never listed by IPv6 subnets");
    assert!(!h::filter_is_in(&f, v6(MAPPED | q4 as u128)), "IPv4-mapped address never listed by IPv6 subnets");
}

fn any_index(len: usize) -> usize {
    let i: usize = kani::any();
    kani::assume(i < len);
    i
}

/// IPv4: 34 single-subnet lists (every mask), 108 nested pairs, 63 sibling pairs, 64 pseudo-random
/// pairs, duplicates/extremes; every query address.
#[kani::proof]
#[kani::unwind(17)]
fn c31_v4() {
    check4(&V4_QUICK[any_index(V4_QUICK.len())]);
}
/// IPv4 thorough: all 33 x 33 mask pairs of the nested pair in both orders, 1024 pseudo-random pairs.
#[kani::proof]
#[kani::unwind(17)]
fn c31_v4_full() {
    check4(&V4_FULL[any_index(V4_FULL.len())]);
}
/// IPv6: selected masks incl. 0, 1, 127, 128; sibling pairs at the top, around /64 and at the bottom;
/// nested pairs; pseudo-random pairs; every query address.
#[kani::proof]
#[kani::unwind(48)]
fn c31_v6() {
    check6(&V6_QUICK[any_index(V6_QUICK.len())]);
}
/// IPv6 thorough: every mask 0..=128, every sibling pair, more nested and pseudo-random pairs.
#[kani::proof]
#[kani::unwind(56)]
fn c31_v6_full() {
    check6(&V6_FULL[any_index(V6_FULL.len())]);
}

// ------------------------------------------------------------------------------------- parsing
/// `IpSubnet::from_str("a.b.c.d/mm")` with symbolic decimal digits.
#[kani::proof]
#[kani::unwind(14)]
#[kani::stub(alloc::fmt::format, crate::stubs::fmt_format_stub)]
fn c31_parse_v4() {
    let d: [u8; 6] = kani::any();
    let mut i = 0;
    while i < 6 {
        kani::assume(d[i] >= b'0' && d[i] <= b'9');
        i += 1;
    }
    let text = [d[0], b'.', d[1], b'.', d[2], b'.', d[3], b'/', d[4], d[5]];
    let s = std::str::from_utf8(&text).unwrap();
    let mask = (d[4] - b'0') * 10 + (d[5] - b'0');
    let want_addr = (((d[0] - b'0') as u32) << 24) | (((d[1] - b'0') as u32) << 16) | (((d[2] - b'0') as u32) << 8) | ((d[3] - b'0') as u32);
    match s.parse::<IpSubnet>() {
        Ok(sub) => {
            assert!(mask <= 32, "accepted an IPv4 mask above 32");
            assert!(sub.mask == mask && sub.addr == v4(want_addr), "parsed value");
            kani::cover!(mask == 32, "accepted /32");
            kani::cover!(mask == 0, "accepted /0");
        }
        Err(e) => {
            std::mem::forget(e);
            assert!(mask > 32, "rejected a well-formed IPv4 subnet");
            kani::cover!(mask == 33, "rejected /33");
        }
    }
}

#[kani::proof]
#[kani::unwind(17)]
fn probe_c31_sym32() {
    check4(&V4_QUICK[any_index(32)]);
}
#[kani::proof]
#[kani::unwind(17)]
fn probe_c31_conc16() {
    let mut i = 40;
    while i < 56 {
        check4(&V4_QUICK[i]);
        i += 1;
    }
}
