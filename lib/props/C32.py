NP = "ntp_proto_h"
PROP = dict(
    functions=["ntp_proto::time_types::{NtpTimestamp,NtpDuration} operator impls"],
    bounds="full 64-bit ranges",
    outside="",
    assumptions=[],
    harnesses=[
        H(NP, "c32", "c32_ts_sub_add", "timestamp difference is the shortest signed difference and adds back"),
        H(NP, "c32", "c32_dur_neg_abs", "negation/abs saturate"),
    ],
)
