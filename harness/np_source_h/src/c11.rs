//! Harnesses for property C11 (see /verif/properties.jsonl).
use crate::stubs;
