//! Harnesses for property C25 (see /verif/properties.jsonl): tampered NTS packets are never
//! accepted as authentic (under the ideal-AEAD model of common.rs).
//!
//! A valid NTS request (public constructor `NtpPacket::nts_poll_message`) and a valid NTS
//! response (unique id authenticated, one fresh cookie encrypted) are produced by the REAL
//! serializer with `ModelCipher`; one byte at a symbolic position is XORed with a symbolic
//! non-zero mask; the result is decoded by the REAL decoder with the same `ModelCipher`.
//! The layout (RFC 8915 §5.6: type, length, nonce length, ciphertext length, nonce, ciphertext)
//! is computed here from the field sizes, not taken from the code:
//!   region A = header, earlier fields, nonce, ciphertext  => no authenticated/encrypted field
//!              and no cookie in whatever the decoder returns,
//!   region B = the authenticator's own type/length/nonce-length/ciphertext-length words
//!              => nothing but the original content (or nothing) is reported authenticated,
//!   region C = bytes after the authenticator (here: a 4-byte trailer/MAC) => the packet is still
//!              accepted and the authenticated/encrypted lists equal the original's.
use crate::common::*;
use crate::stubs;
use ntp_proto::verif::packet as ph;
use ntp_proto::{NoCipher, NtpPacket, PollInterval};
use ph::Ef;
use std::borrow::Cow;

/// sizes of the real client request (32-byte unique id) / of the smallest tractable images
const UID32: usize = 32;
const COOKIE16: usize = 16;
const B: usize = 152;
/// header byte 0 of the response: leap 3 (unknown), version 4, mode 4 (server)
const RESP_B0: u8 = 0xE4;

#[derive(Clone, Copy)]
struct Layout {
    /// start of the authenticator field
    nts: usize,
    nonce: usize,
    ct: usize,
    /// end of the ciphertext = end of the authenticator (no padding: both are multiples of 4)
    end: usize,
    /// total image length (end + trailer)
    total: usize,
}

const fn req_layout(uid: usize, cookie: usize) -> Layout {
    // header, unique id field (4+uid), cookie field (4+cookie), authenticator: 4 + 4 + nonce 16 + (tag 16)
    let nts = 48 + 4 + uid + 4 + cookie;
    Layout { nts, nonce: nts + 8, ct: nts + 8 + NONCE_LEN, end: nts + 8 + NONCE_LEN + TAG_LEN, total: nts + 8 + NONCE_LEN + TAG_LEN + 4 }
}
const fn resp_layout(uid: usize, cookie: usize) -> Layout {
    // header, unique id field (4+uid), authenticator: 4 + 4 + nonce 16 + (cookie field 4+cookie, tag 16)
    let nts = 48 + 4 + uid;
    let ct_len = 4 + cookie + TAG_LEN;
    Layout { nts, nonce: nts + 8, ct: nts + 8 + NONCE_LEN, end: nts + 8 + NONCE_LEN + ct_len, total: nts + 8 + NONCE_LEN + ct_len + 4 }
}

/// The valid request image: header (byte 0 = 0x23: leap 0, version 4, client; everything else
/// arbitrary), unique id field, cookie field (type/length words as RFC 7822/8915 lay them out),
/// then the authenticator written by the REAL `ExtensionField::encode_encrypted` (hook wrapper)
/// with the model cipher over exactly these bytes, then 4 arbitrary trailer bytes.
/// `c25_req_real_serializer` shows that `NtpPacket::serialize` of `nts_poll_message` produces
/// exactly this image (the generic serializer is too expensive to run inside every tamper harness:
/// its field vectors live on the heap, where CBMC loses all constants).
fn assemble_request<const UID: usize, const COOKIE: usize>(hdr: &[u8; 48], uid: &[u8; UID], cookie: &[u8; COOKIE], trailer: [u8; 4], real_encoder: bool) -> [u8; B] {
    let lay = req_layout(UID, COOKIE);
    let mut out = [0u8; B];
    out[..48].copy_from_slice(hdr);
    out[52..52 + UID].copy_from_slice(uid);
    out[56 + UID..56 + UID + COOKIE].copy_from_slice(cookie);
    out[lay.end..lay.end + 4].copy_from_slice(&trailer);
    out[0] = 0x23;
    pin_ef(&mut out, 48, T_UID, (4 + UID) as u16);
    pin_ef(&mut out, 52 + UID, T_COOKIE, (4 + COOKIE) as u16);
    if real_encoder {
        let mut cur = std::io::Cursor::new(&mut out[..lay.end]);
        cur.set_position(lay.nts as u64);
        let r = ntp_proto::verif::packet::extension_fields::encode_encrypted_hook(&mut cur, &[], &ModelCipher::new(0), ntp_proto::ExtensionHeaderVersion::V4);
        assert!(r.is_ok(), "authenticator encoded");
        assert!(cur.position() as usize == lay.end, "authenticator has the RFC 8915 size");
    } else {
        // RFC 8915 5.6 by hand: type, length, nonce length, ciphertext length, nonce, ciphertext
        // (= tag: nothing is encrypted in a request); the ideal AEAD has "really encrypted" exactly
        // this with everything before the field as associated data
        pin_ef(&mut out, lay.nts, T_NTS, (lay.end - lay.nts) as u16);
        pin16(&mut out, lay.nts + 4, NONCE_LEN as u16);
        pin16(&mut out, lay.nts + 6, TAG_LEN as u16);
        let (nonce, tag) = unsafe { (ENC_NONCE, ENC_TAG) };
        out[lay.nonce..lay.nonce + NONCE_LEN].copy_from_slice(&nonce);
        out[lay.ct..lay.ct + TAG_LEN].copy_from_slice(&tag);
        let (aad, rest) = out.split_at(lay.nts);
        model_log(0, aad, &nonce, &rest[8 + NONCE_LEN..8 + NONCE_LEN + TAG_LEN]);
    }
    // the authenticator as the RFC lays it out (independent check of the encoder)
    assert!(get16(&out, lay.nts) == T_NTS, "authenticator type");
    assert!(get16(&out, lay.nts + 2) as usize == lay.end - lay.nts, "authenticator length");
    assert!(get16(&out, lay.nts + 4) as usize == NONCE_LEN, "nonce length word");
    assert!(get16(&out, lay.nts + 6) as usize == TAG_LEN, "ciphertext length word");
    out
}

/// The valid response image: header (byte 0 = 0xE4: leap 3, version 4, server), unique id field,
/// authenticator written by the real `encode_encrypted` over one new cookie.
fn assemble_response<const UID: usize, const COOKIE: usize>(hdr: &[u8; 48], uid: &[u8; UID], cookie: &[u8; COOKIE], trailer: [u8; 4], real_encoder: bool) -> [u8; B] {
    let lay = resp_layout(UID, COOKIE);
    let mut out = [0u8; B];
    out[..48].copy_from_slice(hdr);
    out[52..52 + UID].copy_from_slice(uid);
    out[lay.end..lay.end + 4].copy_from_slice(&trailer);
    out[0] = RESP_B0;
    pin_ef(&mut out, 48, T_UID, (4 + UID) as u16);
    if real_encoder {
        let enc = [Ef::NtsCookie(Cow::Borrowed(&cookie[..]))];
        let mut cur = std::io::Cursor::new(&mut out[..lay.end]);
        cur.set_position(lay.nts as u64);
        let r = ntp_proto::verif::packet::extension_fields::encode_encrypted_hook(&mut cur, &enc, &ModelCipher::new(1), ntp_proto::ExtensionHeaderVersion::V4);
        assert!(r.is_ok(), "authenticator encoded");
        assert!(cur.position() as usize == lay.end, "authenticator has the RFC 8915 size");
        std::mem::forget(enc);
    } else {
        let ct_len = 4 + COOKIE + TAG_LEN;
        pin_ef(&mut out, lay.nts, T_NTS, (lay.end - lay.nts) as u16);
        pin16(&mut out, lay.nts + 4, NONCE_LEN as u16);
        pin16(&mut out, lay.nts + 6, ct_len as u16);
        let (nonce, tag) = unsafe { (ENC_NONCE, ENC_TAG) };
        out[lay.nonce..lay.nonce + NONCE_LEN].copy_from_slice(&nonce);
        // ciphertext under the model = the plaintext (one cookie field) followed by the tag
        out[lay.ct + 4..lay.ct + 4 + COOKIE].copy_from_slice(cookie);
        out[lay.ct + 4 + COOKIE..lay.ct + ct_len].copy_from_slice(&tag);
        pin_ef(&mut out, lay.ct, T_COOKIE, (4 + COOKIE) as u16);
        let (aad, rest) = out.split_at(lay.nts);
        model_log(1, aad, &nonce, &rest[8 + NONCE_LEN..8 + NONCE_LEN + ct_len]);
    }
    assert!(get16(&out, lay.nts) == T_NTS, "authenticator type");
    assert!(get16(&out, lay.nts + 2) as usize == lay.end - lay.nts, "authenticator length");
    assert!(get16(&out, lay.nts + 4) as usize == NONCE_LEN, "nonce length word");
    assert!(get16(&out, lay.nts + 6) as usize == 4 + COOKIE + TAG_LEN, "ciphertext length word");
    // the model leaves the plaintext in place: the encrypted cookie field
    assert!(get16(&out, lay.ct) == T_COOKIE && get16(&out, lay.ct + 2) as usize == 4 + COOKIE, "encrypted cookie field");
    out
}

fn lists_empty(p: &NtpPacket<'_>) -> bool {
    // (no encrypted field = no new cookie: `new_cookies()` only filters the encrypted list; calling it
    // here clones every cookie, and dropping the clones dominated the symbolic execution)
    ph::packet_authenticated(p).is_empty() && ph::packet_encrypted(p).is_empty()
}

/// What the untampered packet authenticates / encrypts, by construction (not taken from the
/// decoder): request = [unique id, cookie] / []; response = [unique id] / [new cookie].
struct Expected<'a> {
    uid: &'a [u8],
    /// request: the cookie is an authenticated field; response: it is the encrypted field
    cookie: &'a [u8],
    is_request: bool,
}
impl Expected<'_> {
    fn matches(&self, p: &NtpPacket<'_>) -> bool {
        let auth = ph::packet_authenticated(p);
        let enc = ph::packet_encrypted(p);
        let uid_ok = |f: &Ef<'_>| matches!(f, Ef::UniqueIdentifier(u) if u[..] == self.uid[..]);
        let cookie_ok = |f: &Ef<'_>| matches!(f, Ef::NtsCookie(k) if k[..] == self.cookie[..]);
        if self.is_request {
            auth.len() == 2 && uid_ok(&auth[0]) && cookie_ok(&auth[1]) && enc.is_empty()
        } else {
            auth.len() == 1 && uid_ok(&auth[0]) && enc.len() == 1 && cookie_ok(&enc[0])
        }
    }
}

/// Tamper one byte in [lo, hi) and decode with the recording cipher (see common::ProbeCipher).
/// Region A (header, earlier fields, nonce, ciphertext): every decrypt call the decoder makes
/// differs from what was really encrypted, so the ideal AEAD refuses it, and with a refused
/// decryption nothing is reported as authentic. Region B (the authenticator's own words): either
/// the same (nothing authentic) or the call is exactly the logged one (then the behaviour is that
/// of the untampered packet up to the words, covered by c25_untampered / c25_*_trailer).
/// Region C (trailer): exactly one call, exactly the logged triple.
/// Returns 0 = rejected, 1 = decrypt error, 2 = accepted (for the per-region cover goals).
fn tamper(orig: &[u8; B], l: Layout, key: u8, lo: usize, hi: usize, exp: &Expected<'_>) -> u8 {
    let pos: usize = kani::any();
    let mask: u8 = kani::any();
    kani::assume(pos >= lo && pos < hi && mask != 0);
    let _ = exp;

    // `t[pos] ^= mask` written so that only bytes of the region [lo, hi) become position
    // dependent (a write through a symbolic index would make every byte of the image, including
    // all type/length words, non-constant for the symbolic execution)
    let mut t = *orig;
    assert!(hi - lo <= 52);
    macro_rules! tam { ($($k:expr),*) => { $( if lo + $k < hi && pos == lo + $k { t[lo + $k] ^= mask; } )* } }
    tam!(0, 1, 2, 3, 4, 5, 6, 7, 8, 9, 10, 11, 12, 13, 14, 15, 16, 17, 18, 19, 20, 21, 22, 23, 24, 25, 26, 27, 28, 29, 30, 31, 32, 33, 34, 35, 36, 37, 38, 39, 40, 41, 42, 43, 44, 45, 46, 47, 48, 49, 50, 51);
    probe_reset();
    let r1 = decode(&t[..l.total], &ProbeCipher);
    let calls = unsafe { PROBE_CALLS };
    assert!(!unsafe { PROBE_OVERFLOW }, "at most two decrypt calls, arguments within the packet");

    let in_a = pos < l.nts || (pos >= l.nonce && pos < l.end);
    let in_c = pos >= l.end;
    let logged0 = calls >= 1 && probe_call_is_logged(0, key);
    let logged1 = calls >= 2 && probe_call_is_logged(1, key);
    if in_a {
        assert!(!logged0 && !logged1, "A: the AEAD is never asked about what was really encrypted: it refuses");
    }
    if in_c {
        assert!(calls == 1 && logged0, "C: the AEAD is asked exactly about what was really encrypted: it accepts");
    }
    match &r1 {
        Outcome::Rejected => assert!(!in_c, "C: bytes after the authenticator do not invalidate the packet"),
        Outcome::DecryptFailed(p) => {
            assert!(calls >= 1, "a decrypt error needs a decrypt call");
            assert!(lists_empty(p), "refused decryption: nothing is reported as authentic");
        }
        Outcome::Accepted(p, cookie) => {
            assert!(calls == 0 && !*cookie, "accepted with a refusing cipher: there was no NTS field");
            assert!(lists_empty(p), "no NTS field: nothing is reported as authentic");
            assert!(!in_c, "C: the authenticator is still there");
        }
    }
    let code = r1.code();
    std::mem::forget(r1);
    code
}

/// Region C with the accepting (ideal) cipher: the packet is accepted and the
/// authenticated/encrypted lists are exactly the original content.
fn tamper_accepting(orig: &[u8; B], l: Layout, key: u8, exp: &Expected<'_>) -> u8 {
    let pos: usize = kani::any();
    let mask: u8 = kani::any();
    kani::assume(pos >= l.end && pos < l.total && mask != 0);
    let mut t = *orig;
    macro_rules! tam { ($($k:expr),*) => { $( if pos == l.end + $k { t[l.end + $k] ^= mask; } )* } }
    tam!(0, 1, 2, 3);
    let r1 = decode(&t[..l.total], &ModelCipher::new(key));
    match &r1 {
        Outcome::Accepted(p, cookie) => {
            assert!(!*cookie, "client keys never yield a server cookie");
            assert!(exp.matches(p), "C: authenticated/encrypted lists equal the original's");
            assert!(ph::packet_untrusted(p).is_empty(), "C: nothing unauthenticated appears");
        }
        _ => assert!(false, "C: bytes after the authenticator change nothing"),
    }
    let code = r1.code();
    std::mem::forget(r1);
    code
}

/// The untampered images are accepted with exactly the expected authenticated/encrypted content.
pharness! {
    #[kani::unwind(5)]
    fn c25_untampered() {
        symbolic_model_randomness();
        let hdr: [u8; 48] = kani::any();
        let uid: [u8; U] = kani::any();
        let cookie: [u8; K] = kani::any();
        let trailer: [u8; 4] = kani::any();
        let is_request: bool = kani::any();
        let (img, l, key) = if is_request {
            (assemble_request(&hdr, &uid, &cookie, trailer, false), REQ, 0)
        } else {
            (assemble_response(&hdr, &uid, &cookie, trailer, false), RESP, 1)
        };
        let exp = Expected { uid: &uid, cookie: &cookie, is_request };
        let r = decode(&img[..l.total], &ModelCipher::new(key));
        match &r {
            Outcome::Accepted(p, c) => {
                assert!(exp.matches(p), "exactly the fields before / inside the authenticator are authentic");
                assert!(ph::packet_untrusted(p).is_empty() && !*c, "nothing else");
            }
            _ => assert!(false, "a valid NTS packet is accepted"),
        }
        kani::cover!(is_request, "request");
        kani::cover!(!is_request, "response");
        std::mem::forget(r);
    }
}

/// Tamper harness images: 8-byte unique id and 8-byte cookie (116 bytes). With the sizes of the
/// real client (32/16: 148 bytes) the solver runs out of memory at 12 GB (measured); the decoder
/// treats both field bodies as opaque, so the authenticated-region boundary is the same question.
const U: usize = 8;
const K: usize = 8;
const REQ: Layout = req_layout(U, K);
const RESP: Layout = resp_layout(U, K);
fn request(lo: usize, hi: usize) -> u8 {
    symbolic_model_randomness();
    let hdr: [u8; 48] = kani::any();
    let uid: [u8; U] = kani::any();
    let cookie: [u8; K] = kani::any();
    let trailer: [u8; 4] = kani::any();
    let orig = assemble_request(&hdr, &uid, &cookie, trailer, false);
    tamper(&orig, REQ, 0, lo, hi, &Expected { uid: &uid, cookie: &cookie, is_request: true })
}

fn response(lo: usize, hi: usize) -> u8 {
    symbolic_model_randomness();
    let hdr: [u8; 48] = kani::any();
    let uid: [u8; U] = kani::any();
    let cookie: [u8; K] = kani::any();
    let trailer: [u8; 4] = kani::any();
    let orig = assemble_response(&hdr, &uid, &cookie, trailer, false);
    tamper(&orig, RESP, 1, lo, hi, &Expected { uid: &uid, cookie: &cookie, is_request: false })
}

/// The hand-assembled authenticator (and ghost log entry) of the tamper images is exactly what the
/// real `ExtensionField::encode_encrypted` + ModelCipher produce on the same prefix.
pharness! {
    #[kani::unwind(6)]
    fn c25_auth_encoder() {
        symbolic_model_randomness();
        let hdr: [u8; 48] = kani::any();
        let uid: [u8; U] = kani::any();
        let cookie: [u8; K] = kani::any();
        let is_request: bool = kani::any();
        let (by_hand, l, key) = if is_request {
            (assemble_request(&hdr, &uid, &cookie, [0; 4], false), REQ, 0usize)
        } else {
            (assemble_response(&hdr, &uid, &cookie, [0; 4], false), RESP, 1usize)
        };
        let hand_log = unsafe { LOG[key] };
        symbolic_model_randomness_keep();
        let real = if is_request {
            assemble_request(&hdr, &uid, &cookie, [0; 4], true)
        } else {
            assemble_response(&hdr, &uid, &cookie, [0; 4], true)
        };
        let real_log = unsafe { LOG[key] };
        assert!(by_hand[..l.end] == real[..l.end], "same bytes");
        assert!(hand_log.valid && real_log.valid && hand_log.key == real_log.key, "one encryption under the same key");
        assert!(hand_log.aad_len == real_log.aad_len && hand_log.aad == real_log.aad, "same associated data: everything before the field");
        assert!(hand_log.nonce == real_log.nonce, "same nonce");
        assert!(hand_log.ct_len == real_log.ct_len && hand_log.ct == real_log.ct, "same ciphertext");
        kani::cover!(is_request, "request");
        kani::cover!(!is_request, "response");
    }
}

/// The public request constructor + the real `NtpPacket::serialize` produce exactly the image the
/// tamper harnesses start from (same header bytes, unique id, cookie, same model randomness).
pharness! {
    #[kani::unwind(10)]
    fn c25_req_real_serializer() {
        stubs::symbolic_rng();
        symbolic_model_randomness();
        const REQ: Layout = req_layout(UID32, COOKIE16);
        let cookie: [u8; COOKIE16] = kani::any();
        let mut real = [0u8; B];
        let (p, id) = NtpPacket::nts_poll_message(&cookie, 1, PollInterval::default());
        let n = encode(&p, &ModelCipher::new(0), &mut real);
        assert!(matches!(n, Ok(x) if x == REQ.end), "request has the RFC 8915 layout size");
        std::mem::forget(p);
        let uid = match ph::request_identifier_parts(id).1 {
            Some(u) => u,
            None => {
                assert!(false, "NTS request carries a unique id");
                return;
            }
        };
        let mut hdr = [0u8; 48];
        hdr.copy_from_slice(&real[..48]);
        assert!(hdr[0] == 0x23, "poll message is an NTPv4 client packet");
        symbolic_model_randomness_keep();
        let img = assemble_request(&hdr, &uid, &cookie, [0; 4], true);
        assert!(real[..REQ.end] == img[..REQ.end], "serializer output == assembled image");
        kani::cover!(real[60] == 0x5A && real[140] == 0xA5, "arbitrary unique id and tag");
    }
}
pharness! {
    #[kani::unwind(10)]
    fn c25_resp_real_serializer() {
        symbolic_model_randomness();
        const RESP: Layout = resp_layout(UID32, COOKIE16);
        let mut hdr: [u8; 48] = kani::any();
        let uid: [u8; UID32] = kani::any();
        let cookie: [u8; COOKIE16] = kani::any();
        hdr[0] = RESP_B0;
        let header = match NtpPacket::deserialize(&hdr[..], &NoCipher) {
            Ok((p, _)) => p.header(),
            Err(e) => {
                std::mem::forget(e);
                assert!(false, "48-byte v4 header decodes");
                return;
            }
        };
        let p = ph::packet_from_parts(
            header,
            vec![Ef::UniqueIdentifier(Cow::Owned(uid.to_vec()))],
            vec![Ef::NtsCookie(Cow::Owned(cookie.to_vec()))],
            vec![],
        );
        let mut real = [0u8; B];
        let n = encode(&p, &ModelCipher::new(1), &mut real);
        assert!(matches!(n, Ok(x) if x == RESP.end), "response has the RFC 8915 layout size");
        std::mem::forget(p);
        symbolic_model_randomness_keep();
        let img = assemble_response(&hdr, &uid, &cookie, [0; 4], true);
        assert!(real[..RESP.end] == img[..RESP.end], "serializer output == assembled image");
        kani::cover!(real[60] == 0x5A && real[140] == 0xA5, "arbitrary unique id and tag");
    }
}

// Global unwind bound: 5 for regions that cannot change a type/length word (field loop: 3 fields +
// exit; the decrypted plaintext lives on the heap, its field loop runs to the bound); 40 where a type word may turn a 32-byte body into a placeholder
// (9 iterations of its all-zero check on an 8-byte body): 16.
macro_rules! tamper_harness {
    ($name:ident, $f:ident, $lo:expr, $hi:expr, [$($code:expr => $msg:expr),*]) => {
        tamper_harness!($name, $f, $lo, $hi, 5, [$($code => $msg),*]);
    };
    ($name:ident, $f:ident, $lo:expr, $hi:expr, $unw:expr, [$($code:expr => $msg:expr),*]) => {
        pharness! {
            #[kani::unwind($unw)]
            fn $name() {
                let code = $f($lo, $hi);
                $( kani::cover!(code == $code, $msg); )*
            }
        }
    };
}
const REJ: u8 = 0;
const DEC: u8 = 1;
const ACC: u8 = 2;
// request (U=8,K=8): 48 header | 12 uid | 12 cookie | authenticator 8+16+16 | 4 trailer
tamper_harness!(c25_req_header, request, 0, 48, 16, [DEC => "detected by the AEAD", REJ => "framing broken (version bits)"]);
tamper_harness!(c25_req_uid_hdr, request, 48, 52, 16, [DEC => "detected by the AEAD", REJ => "framing broken"]);
tamper_harness!(c25_req_uid_body, request, 52, 60, [DEC => "detected by the AEAD"]);
tamper_harness!(c25_req_cookie_hdr, request, 60, 64, 16, [DEC => "detected by the AEAD", REJ => "framing broken"]);
tamper_harness!(c25_req_cookie_body, request, 64, 72, [DEC => "detected by the AEAD"]);
tamper_harness!(c25_req_auth_words, request, 72, 80, 52, [DEC => "decrypt refused or original triple", REJ => "framing broken", ACC => "no longer an NTS field: accepted without any authenticated content"]);
tamper_harness!(c25_req_auth_body, request, 80, 112, [DEC => "detected by the AEAD"]);
tamper_harness!(c25_req_trailer, request, 112, 116, [DEC => "asked about the original triple (refusing probe cipher)"]);
// response (U=8,K=8): 48 header | 12 uid | authenticator 8+16+(12+16) | 4 trailer
tamper_harness!(c25_resp_header, response, 0, 48, 16, [DEC => "detected by the AEAD", REJ => "framing broken (version bits)"]);
tamper_harness!(c25_resp_uid_hdr, response, 48, 52, 16, [DEC => "detected by the AEAD", REJ => "framing broken"]);
tamper_harness!(c25_resp_uid_body, response, 52, 60, [DEC => "detected by the AEAD"]);
tamper_harness!(c25_resp_auth_words, response, 60, 68, 52, [DEC => "decrypt refused or original triple", REJ => "framing broken", ACC => "no longer an NTS field: accepted without any authenticated content"]);
tamper_harness!(c25_resp_auth_body, response, 68, 112, [DEC => "detected by the AEAD"]);
tamper_harness!(c25_resp_trailer, response, 112, 116, [DEC => "asked about the original triple (refusing probe cipher)"]);
pharness! {
    #[kani::unwind(5)]
    fn c25_req_trailer_accept() {
        symbolic_model_randomness();
        let hdr: [u8; 48] = kani::any();
        let uid: [u8; U] = kani::any();
        let cookie: [u8; K] = kani::any();
        let trailer: [u8; 4] = kani::any();
        let orig = assemble_request(&hdr, &uid, &cookie, trailer, false);
        let code = tamper_accepting(&orig, REQ, 0, &Expected { uid: &uid, cookie: &cookie, is_request: true });
        kani::cover!(code == ACC, "trailer change tolerated, same authenticated content");
    }
}
pharness! {
    #[kani::unwind(5)]
    fn c25_resp_trailer_accept() {
        symbolic_model_randomness();
        let hdr: [u8; 48] = kani::any();
        let uid: [u8; U] = kani::any();
        let cookie: [u8; K] = kani::any();
        let trailer: [u8; 4] = kani::any();
        let orig = assemble_response(&hdr, &uid, &cookie, trailer, false);
        let code = tamper_accepting(&orig, RESP, 1, &Expected { uid: &uid, cookie: &cookie, is_request: false });
        kani::cover!(code == ACC, "trailer change tolerated, same authenticated content");
    }
}

// ---------------------------------------------------------------- native scenario test (lead)
// The tamper harnesses use a recording probe cipher; their counterexamples come with traces too
// large for kani-driver's playback. This ordinary test drives the REAL decoder with a real key set
// and real AES-SIV on one concrete NTS request with a tampered byte in each protected region; the
// driver runs it natively when a C25 harness fails and reports a violation only if it fails.
#[cfg(test)]
mod native {
    use ntp_proto::verif::keyset as kh;
    use ntp_proto::verif::packet::crypto::{AesSivCmac256, Cipher as _};
    use ntp_proto::{KeySet, KeySetProvider, NtpPacket, PacketParsingError};

    /// header | uid(32) | cookie | authenticator (empty plaintext); returns (bytes, start of the authenticator field)
    fn nts_request(keyset: &KeySet) -> (Vec<u8>, usize) {
        let c2s = AesSivCmac256::new([7u8; 32].into());
        let cookie = kh::keyset_encode_cookie(
            keyset,
            &kh::decoded_cookie_from_parts(15, Box::new(AesSivCmac256::new([9u8; 32].into())), Box::new(AesSivCmac256::new([7u8; 32].into()))),
        );
        let mut m = vec![0u8; 48];
        m[0] = 0x23;
        m[40..48].copy_from_slice(&[1, 2, 3, 4, 5, 6, 7, 8]);
        m.extend_from_slice(&[0x01, 0x04, 0x00, 36]);
        m.extend(std::iter::repeat(0xAB).take(32));
        m.extend_from_slice(&[0x02, 0x04]);
        m.extend_from_slice(&((4 + cookie.len()) as u16).to_be_bytes());
        m.extend_from_slice(&cookie);
        let auth_start = m.len();
        let mut ct = vec![0u8; 64];
        let r = c2s.encrypt(&mut ct, 0, &m).unwrap();
        let total = 8 + r.nonce_length + r.ciphertext_length;
        m.extend_from_slice(&[0x04, 0x04]);
        m.extend_from_slice(&(total as u16).to_be_bytes());
        m.extend_from_slice(&(r.nonce_length as u16).to_be_bytes());
        m.extend_from_slice(&(r.ciphertext_length as u16).to_be_bytes());
        m.extend_from_slice(&ct[..r.nonce_length + r.ciphertext_length]);
        (m, auth_start)
    }

    #[test]
    fn native_tampered_request_reports_nothing_authentic() {
        let keyset = KeySetProvider::new(1).get();
        let (good, auth_start) = nts_request(&keyset);
        // sanity: the untampered request authenticates
        match NtpPacket::deserialize(&good, keyset.as_ref()) {
            Ok((p, cookie)) => {
                assert!(cookie.is_some(), "genuine request: cookie keys recovered");
                assert!(p.authenticated_extension_fields().count() >= 1, "genuine request: fields before the authenticator are authenticated");
            }
            Err(_) => panic!("genuine request must authenticate"),
        }
        // one tampered byte in: header, unique identifier body, nonce, ciphertext (tag)
        for pos in [5usize, 60, auth_start + 8 + 3, good.len() - 2] {
            let mut bad = good.clone();
            bad[pos] ^= 0x40;
            match NtpPacket::deserialize(&bad, keyset.as_ref()) {
                Ok((p, cookie)) => {
                    assert!(cookie.is_none() && p.authenticated_extension_fields().count() == 0, "tampered byte {pos}: accepted as authentic");
                }
                Err(PacketParsingError::DecryptError(p)) => {
                    assert!(p.authenticated_extension_fields().count() == 0, "tampered byte {pos}: fields reported as authenticated after a failed authentication");
                }
                Err(_) => {}
            }
        }
    }
}
