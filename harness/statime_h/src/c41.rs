//! C41 PTP messages survive a serialise/parse round trip.
//!
//! Oracles are written on raw bytes from the IEEE 1588-2019 layout (clause 13.3 header, 13.5 ff.
//! bodies, 14.1 TLVs), not by calling the codec twice:
//!  * parse direction: `Ok(m)` => `m.serialize` writes exactly `messageLength` bytes that agree with
//!    the input on every non-reserved bit, writes 0 on reserved bits, re-parses to an equal message,
//!    and the TLV iterator walks exactly the TLVs found in the raw suffix;
//!  * build direction: every message expressible through the public constructors serialises and
//!    parses back equal.
use crate::common::*;
use statime_wire::verif::common::tlv as th;
use statime_wire::*;
use std::borrow::Cow;

/// Bits of absolute message byte `i` that carry information (1) vs reserved/ignored on receipt (0).
fn info_mask(i: usize, message_type: u8) -> u8 {
    if i < 34 {
        return match i {
            6 => 0x67,           // flagField octet 0: alternateMaster, twoStep, unicast, profileSpecific1/2
            7 => 0x7f,           // flagField octet 1: leap61, leap59, utcOffsetValid, ptpTimescale, time/freq traceable, syncUncertain
            16 | 17 | 18 | 19 => 0, // messageTypeSpecific
            32 => 0,             // controlField (obsolete, ignored on receipt)
            _ => 0xff,
        };
    }
    let j = i - 34;
    match message_type {
        0x2 if (10..20).contains(&j) => 0, // Pdelay_Req reserved tail
        0xb if j == 12 => 0,               // Announce reserved octet
        0xd if j == 10 => 0,               // Management: octet not interpreted by this implementation
        _ => 0xff,
    }
}

fn accuracy_reserved(a: u8) -> bool {
    a <= 0x16 || (0x32..=0x7f).contains(&a) || a == 0xff
}

/// `first`: concrete first octet (sdoId high nibble + messageType) or None = fully unstructured.
/// With a symbolic messageType the parser's ten body arms are all explored and the unstructured
/// 52-byte run needs > 25 min; the registered harnesses fix the first octet per message type.
/// `tlv_mode`: false = re-serialisation checks (bytes), true = header-field and TLV-iterator checks.
/// (Both together are 1.0M symbolic-execution steps and kani-driver exhausts 8 GB on CBMC's output.)
fn parse_roundtrip<const N: usize>(first: Option<u8>, tlv_mode: bool) {
    let mut bytes: [u8; N] = kani::any();
    if let Some(f) = first {
        bytes[0] = f;
    }
    let n: usize = kani::any();
    kani::assume(n <= N);
    let parsed = Message::deserialize(&bytes[..n]);
    let Ok(m) = parsed else {
        return;
    };
    let mt = bytes[0] & 0x0f;
    let ml = be16(&bytes, 2) as usize;
    let Some(bl) = body_len(mt) else {
        assert!(false, "accepted a message type that PTPv2 does not define");
        return;
    };
    assert!(ml >= 34 + bl && ml <= n, "accepted message: messageLength covers header+body and lies inside the datagram");
    assert!(m.wire_size() == ml, "wire_size equals the parsed messageLength");

    // (single cover, placed before the mode split so that it is reachable in both modes)
    kani::cover!(bytes[6] & 0x98 != 0 && ml < n && (34 + bl + 6 > N || ml >= 34 + bl + 6), "accepted: reserved flag bits set, trailing padding, room for a TLV used");
    if !tlv_mode {
    // re-serialise
    let mut out = [0u8; N];
    let w = m.serialize(&mut out);
    assert!(matches!(w, Ok(x) if x == ml), "serialize succeeds and writes messageLength bytes");
    assert!(N <= 64, "unroll64 covers the buffer");
    // accumulated into four flags and asserted once each: every `assert!` is a separate check for
    // which CBMC's JSON mode builds a trace, and 256 of them made the run exceed 25 minutes
    let mut defined_bits_equal = true;
    let mut reserved_bits_zero = true;
    let mut nothing_beyond = true;
    let mut enum_octets_ok = true;
    crate::unroll64!(i, {
        if i < N {
            if i < ml {
                let mask = info_mask(i, mt);
                let a = bytes[i];
                let o = out[i];
                if mt == 0xb && i == 34 + 15 {
                    enum_octets_ok &= o == a || (accuracy_reserved(a) && o == 0);
                } else if mt == 0xd && i == 34 + 13 {
                    enum_octets_ok &= o == a || (a >= 5 && o == 5);
                } else {
                    defined_bits_equal &= (a ^ o) & mask == 0;
                    reserved_bits_zero &= o & !mask == 0;
                }
            } else {
                nothing_beyond &= out[i] == 0;
            }
        }
    });
    assert!(defined_bits_equal, "re-serialised bytes equal the input on all non-reserved bits");
    assert!(reserved_bits_zero, "reserved bits are written as zero");
    assert!(nothing_beyond, "nothing written beyond messageLength");
    assert!(enum_octets_ok, "clockAccuracy / management action octets round-trip (reserved codes collapse to 0 / 5)");
    return;
    }

    // header fields against the raw layout
    assert!(m.header.domain_number == bytes[4], "domainNumber");
    assert!(m.header.sequence_id == be16(&bytes, 30), "sequenceId");
    assert!(m.header.two_step_flag == (bytes[6] & 2 != 0), "twoStepFlag");
    assert!(u16::from(m.header.sdo_id) == (((bytes[0] >> 4) as u16) << 8 | bytes[5] as u16), "sdoId");
    assert!(m.header.correction_field.0 == be64(&bytes, 8) as i64, "correctionField");

    // TLV iterator walks exactly the raw suffix
    let mut off = 34 + bl;
    let mut count = 0usize;
    for tlv in m.suffix.tlvs() {
        assert!(off + 4 <= ml, "iterator yields a TLV only where a TLV header fits");
        let len = be16(&bytes, off + 2) as usize;
        assert!(len % 2 == 0 && off + 4 + len <= ml, "TLV length even and inside the message");
        assert!(th::tlv_type_to_primitive(tlv.tlv_type) == be16(&bytes, off), "TLV type code");
        assert!(tlv.value.len() == len, "TLV value length equals lengthField");
        assert!(tlv.value[..] == bytes[off + 4..off + 4 + len], "TLV value bytes");
        off += 4 + len;
        count += 1;
    }
    assert!(off == ml, "TLVs yielded by the iterator cover the suffix exactly");


}

macro_rules! parse_harness {
    ($name:ident, $n:expr, $first:expr, $unwind:expr) => {
        parse_harness!($name, $n, $first, $unwind, false);
    };
    ($name:ident, $n:expr, $first:expr, $unwind:expr, $tlv:expr) => {
        #[kani::proof]
        #[kani::unwind($unwind)]
        fn $name() {
            parse_roundtrip::<$n>($first, $tlv);
        }
    };
}
parse_harness!(c41_parse_sync_tlv, 56, Some(0x00), 14, true);
parse_harness!(c41_parse_management_tlv, 60, Some(0x0d), 14, true);
// one harness per message type: header 34 + body + up to 12 bytes of TLV suffix (capped at 64 bytes)
parse_harness!(c41_parse_sync, 56, Some(0x00), 14);
parse_harness!(c41_parse_delay_req, 56, Some(0x01), 14);
parse_harness!(c41_parse_pdelay_req, 64, Some(0x02), 12);
parse_harness!(c41_parse_pdelay_resp, 64, Some(0x03), 12);
parse_harness!(c41_parse_follow_up, 56, Some(0x08), 14);
parse_harness!(c41_parse_delay_resp, 64, Some(0x09), 12);
parse_harness!(c41_parse_pdelay_resp_fu, 64, Some(0x0a), 12);
parse_harness!(c41_parse_announce, 64, Some(0x0b), 6);
parse_harness!(c41_parse_signaling, 56, Some(0x0c), 14);
parse_harness!(c41_parse_management, 60, Some(0x0d), 14);
// fully unstructured (not registered: did not finish in 25 min, see report)
parse_harness!(c41_parse_u52, 52, None, 7);

/// Undefined messageType nibbles (4..=7, 0xe, 0xf) are rejected; first octet concrete per pass
/// (sdoId high nibble 0), the other 63 bytes and the length symbolic.
#[kani::proof]
#[kani::unwind(8)]
fn c41_parse_badtype() {
    let types: [u8; 6] = [0x4, 0x5, 0x6, 0x7, 0xe, 0xf];
    let mut i = 0;
    while i < 6 {
        let mut bytes: [u8; 64] = kani::any();
        bytes[0] = types[i];
        let n: usize = kani::any();
        kani::assume(n <= 64);
        assert!(body_len(types[i]).is_none(), "not a PTPv2 message type");
        assert!(Message::deserialize(&bytes[..n]).is_err(), "undefined message types are rejected");
        i += 1;
    }
    kani::cover!(true, "all undefined types visited");
}

// ------------------------------------------------------------------ build direction
fn any_tlv_type() -> TlvType {
    let k: u8 = kani::any();
    let v: u16 = kani::any();
    match k {
        0 => TlvType::Management,
        1 => TlvType::PathTrace,
        2 => TlvType::OrganizationExtensionPropagate,
        3 => TlvType::Pad,
        4 => TlvType::CsptpRequest,
        5 => TlvType::CsptpResponse,
        6 => TlvType::Authentication,
        7 => {
            // canonical payloads only: Reserved(v) with v in a reserved block
            kani::assume((0x000a..=0x1fff).contains(&v) || v == 0 || (0xff02..=0xffff).contains(&v));
            TlvType::Reserved(v)
        }
        8 => {
            kani::assume((0x2004..=0x202f).contains(&v) || (0x7f00..=0x7fff).contains(&v));
            TlvType::Experimental(v)
        }
        _ => {
            kani::assume((0x2000..=0x2003).contains(&v));
            TlvType::Legacy(v)
        }
    }
}

fn any_body(kind: u8) -> MessageBody {
    let ts = any_timestamp();
    let pid = any_port_identity();
    match kind {
        0 => MessageBody::Sync(SyncMessage { origin_timestamp: ts }),
        1 => MessageBody::DelayReq(DelayReqMessage { origin_timestamp: ts }),
        2 => MessageBody::PDelayReq(PDelayReqMessage { origin_timestamp: ts }),
        3 => MessageBody::PDelayResp(PDelayRespMessage { request_receive_timestamp: ts, requesting_port_identity: pid }),
        4 => MessageBody::FollowUp(FollowUpMessage { precise_origin_timestamp: ts }),
        5 => MessageBody::DelayResp(DelayRespMessage { receive_timestamp: ts, requesting_port_identity: pid }),
        6 => MessageBody::PDelayRespFollowUp(PDelayRespFollowUpMessage { response_origin_timestamp: ts, requesting_port_identity: pid }),
        7 => MessageBody::Announce(AnnounceMessage {
            origin_timestamp: ts,
            current_utc_offset: kani::any(),
            grandmaster_priority_1: kani::any(),
            grandmaster_clock_quality: ClockQuality {
                clock_class: kani::any(),
                // canonical enum payloads: the image of the public from_primitive
                clock_accuracy: ClockAccuracy::from_primitive(kani::any()),
                offset_scaled_log_variance: kani::any(),
            },
            grandmaster_priority_2: kani::any(),
            grandmaster_identity: ClockIdentity(kani::any()),
            steps_removed: kani::any(),
            time_source: TimeSource::from_primitive(kani::any()),
        }),
        8 => MessageBody::Signaling(SignalingMessage { target_port_identity: pid }),
        _ => {
            let a: u8 = kani::any();
            MessageBody::Management(ManagementMessage {
                target_port_identity: pid,
                starting_boundary_hops: kani::any(),
                boundary_hops: kani::any(),
                action: match a {
                    0 => ManagementAction::GET,
                    1 => ManagementAction::SET,
                    2 => ManagementAction::RESPONSE,
                    3 => ManagementAction::COMMAND,
                    4 => ManagementAction::ACKNOWLEDGE,
                    _ => ManagementAction::Reserved,
                },
            })
        }
    }
}

/// messageType nibble the standard assigns to each body kind used by `any_body`.
fn kind_type(kind: u8) -> u8 {
    [0x0, 0x1, 0x2, 0x3, 0x8, 0x9, 0xa, 0xb, 0xc, 0xd][kind as usize]
}

/// One message of a concrete shape (body kind, number of TLVs, value lengths) with symbolic
/// contents: header fields, body fields, TLV types and TLV values.
fn build_case<const W: usize>(kind: u8, ntlv: usize, l0: usize, l1: usize) {
    let header = any_header();
    let body = any_body(kind);
    let t0 = any_tlv_type();
    let t1 = any_tlv_type();
    let v0: [u8; 4] = kani::any();
    let v1: [u8; 4] = kani::any();

    let mut tlvbuf = [0u8; 16];
    let mut builder = TlvSetBuilder::new(&mut tlvbuf);
    if ntlv >= 1 {
        let r = builder.add(&Tlv { tlv_type: t0, value: Cow::Borrowed(&v0[..l0]) });
        assert!(r.is_ok(), "TLV fits the builder buffer");
    }
    if ntlv >= 2 {
        let r = builder.add(&Tlv { tlv_type: t1, value: Cow::Borrowed(&v1[..l1]) });
        assert!(r.is_ok(), "TLV fits the builder buffer");
    }
    let suffix = builder.build();
    let m = Message { header, body, suffix };

    let mut wire = [0u8; W];
    let w = m.serialize(&mut wire);
    let Ok(w) = w else {
        assert!(false, "a message built through the public API serialises into a sufficiently large buffer");
        return;
    };
    let bl = body_len(kind_type(kind)).unwrap();
    let expect_len = 34 + bl + if ntlv >= 1 { 4 + l0 } else { 0 } + if ntlv >= 2 { 4 + l1 } else { 0 };
    assert!(w == expect_len, "written length = header + body + TLVs");
    assert!(wire[0] & 0x0f == kind_type(kind), "messageType nibble");
    assert!(be16(&wire, 2) as usize == w, "messageLength field equals the number of bytes written");
    assert!(wire[4] == header.domain_number && be16(&wire, 30) == header.sequence_id, "domain and sequence id at their wire offsets");
    if ntlv >= 1 {
        let o = 34 + bl;
        assert!(be16(&wire, o) == th::tlv_type_to_primitive(t0), "first TLV type code");
        assert!(be16(&wire, o + 2) as usize == l0, "first TLV lengthField equals its value length");
        let mut k = 0;
        while k < 4 {
            assert!(k >= l0 || wire[o + 4 + k] == v0[k], "first TLV value bytes");
            k += 1;
        }
    }
    if ntlv >= 2 {
        let o = 34 + bl + 4 + l0;
        assert!(be16(&wire, o) == th::tlv_type_to_primitive(t1), "second TLV type code");
        assert!(be16(&wire, o + 2) as usize == l1, "second TLV lengthField equals its value length");
    }

    let back = Message::deserialize(&wire[..w]);
    assert!(back.is_ok(), "serialised message parses back");
    if let Ok(m2) = &back {
        assert!(m2.header == m.header, "parsed header equals the original");
        assert!(m2.body == m.body, "parsed body equals the original");
        assert!(m2.wire_size() == w, "parsed message has the original wire size (TLV suffix of the same length)");
        // the TLVs come back, in order and with their values, through the iterator
        // (suffix equality is checked TLV by TLV: a slice comparison of the whole suffix is a
        // 17-iteration memcmp loop and would force that unwinding bound onto the parser's loops)
        let mut it = m2.suffix.tlvs();
        if ntlv >= 1 {
            let a = it.next();
            assert!(matches!(&a, Some(t) if t.tlv_type == t0 && t.value.len() == l0 && t.value[..] == v0[..l0]), "first TLV comes back equal");
        }
        if ntlv >= 2 {
            let b = it.next();
            assert!(matches!(&b, Some(t) if t.tlv_type == t1 && t.value.len() == l1 && t.value[..] == v1[..l1]), "second TLV comes back equal");
        }
        assert!(it.next().is_none(), "no further TLVs");
    }
    kani::cover!(back.is_ok() && ntlv == 2 && l0 == 0, "round trip with two TLVs, the first empty-valued");
}

#[derive(Clone, Copy, PartialEq)]
enum Region {
    /// all value lengths even (IEEE 1588: lengthField is even; odd lengths are rejected by the parser by design)
    Main,
    /// last TLV has an empty value (lengthField 0), lengths even
    TrailingEmpty,
    /// some value length odd: the builder does not refuse it, the parser rejects the result (not registered)
    OddLength,
}

/// One body kind, symbolic TLV shape inside `region`.
fn build_sym<const W: usize>(kind: u8, region: Region) {
    let ntlv: usize = kani::any();
    let l0: usize = kani::any();
    let l1: usize = kani::any();
    kani::assume(ntlv <= 2 && l0 <= 4 && l1 <= 4);
    let odd = (ntlv >= 1 && l0 % 2 == 1) || (ntlv >= 2 && l1 % 2 == 1);
    let trailing_empty = (ntlv == 1 && l0 == 0) || (ntlv == 2 && l1 == 0);
    match region {
        Region::Main => kani::assume(!odd),
        Region::TrailingEmpty => kani::assume(!odd && trailing_empty),
        Region::OddLength => kani::assume(odd),
    }
    build_case::<W>(kind, ntlv, l0, l1);
}

macro_rules! build_harness {
    ($name:ident, $kind:expr, $region:expr) => {
        #[kani::proof]
        #[kani::unwind(10)]
        fn $name() {
            build_sym::<80>($kind, $region);
        }
    };
}
build_harness!(c41_build_sync, 0, Region::Main);
build_harness!(c41_build_delay_req, 1, Region::Main);
build_harness!(c41_build_pdelay_req, 2, Region::Main);
build_harness!(c41_build_pdelay_resp, 3, Region::Main);
build_harness!(c41_build_follow_up, 4, Region::Main);
build_harness!(c41_build_delay_resp, 5, Region::Main);
build_harness!(c41_build_pdelay_resp_fu, 6, Region::Main);
build_harness!(c41_build_announce, 7, Region::Main);
build_harness!(c41_build_signaling, 8, Region::Main);
build_harness!(c41_build_management, 9, Region::Main);
// Regression harness for the defect fixed in 24ae201 (a trailing TLV with an empty value was dropped
// by `while buffer.len() > 4`): Sync body, last TLV empty-valued; fails on the pre-fix tree.
build_harness!(c41_build_trailing_empty_tlv, 0, Region::TrailingEmpty);
// Expected to FAIL, not registered: odd-length TLV values are accepted by the builder but rejected by
// the parser (and trip a debug assertion in `wire_size`).
build_harness!(c41_build_kf_odd_tlv_length, 0, Region::OddLength);

