ND = "ntpd_h"
PROP = dict(
    functions=[
        "ntpd::daemon::sock_source::deserialize_sample (via hook wrapper deserialize_sample_raw)",
        "ntp_proto::NtpDuration::from_seconds + NtpTimestamp - NtpDuration (the conversion in SockSourceTask::run)",
    ],
    bounds="every received size (usize), every 40-byte datagram; every finite f64 offset x every 64-bit clock reading for the conversion; loop-free code",
    outside="the tokio UnixDatagram receive loop and tokio::select! in SockSourceTask::run (no runtime under Kani); the expression `time - NtpDuration::from_seconds(sample.offset)` is replicated in c40_conv, not extracted from the task body; what the Kalman filter does with an accepted measurement",
    assumptions=[
        "c40_conv: offset finite (NaN/inf reach a debug_assert in from_seconds: dev profile only)",
    ],
    stub_notes=[],
    harnesses=[
        H(ND, "c40", "c40_sample", "every datagram incl. non-finite offsets: Ok => size == 40, magic, pulse == 0, offset/leap are the wire fields, offset finite; Err => one of the four reasons holds and the error names the first", timeout=600),
        H(ND, "c40", "c40_recv_error", "a failed receive is rejected", timeout=600),
        H(ND, "c40", "c40_conv", "sender_ts = time - from_seconds(offset): no panic, measured offset reproduced, sign kept, saturation", timeout=600),
        H(ND, "c40", "c40_sample_nonfinite_offset", "a datagram with NaN/+-inf offset is rejected (was the known finding fixed by /repo 890ad01)", timeout=600),
    ],
)
