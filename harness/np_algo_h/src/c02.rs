//! Harnesses for property C02 (see /verif/properties.jsonl).
use crate::stubs;
