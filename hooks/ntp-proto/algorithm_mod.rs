//! Safe-Rust verification hooks for this module (accessors/wrappers only; no logic).
#![allow(unused_imports, dead_code)]
use super::*;
pub use super::kalman::verif_hooks as kalman;

// ---------------------------------------------------------------- C05 (np_algo_h)
pub use super::{InternalMeasurement, InternalSourceController};

/// Keeps the receiving half of the wrapper's channel alive (crate-private message type).
pub struct SystemRxH<M>(tokio::sync::mpsc::UnboundedReceiver<(ClockId, WrapperMessage<M>)>);

/// The real two-way wrapper around `inner` (same construction as `TimeSyncControllerWrapper::add_source`),
/// with a fresh channel whose receiver is handed back to the caller.
pub fn twoway_wrapper<T: InternalSourceController<MeasurementDelay = NtpDuration>>(
    id: ClockId,
    inner: T,
) -> (TwoWaySourceControllerWrapper<T>, SystemRxH<T::SourceMessage>) {
    let (tx, rx) = tokio::sync::mpsc::unbounded_channel();
    (
        TwoWaySourceControllerWrapper {
            id,
            inner: Arc::new(Mutex::new(inner)),
            last_outgoing_measurement: None,
            messages_for_system: tx,
        },
        SystemRxH(rx),
    )
}
/// The real one-way wrapper around `inner` (same construction as `add_one_way_source`).
pub fn oneway_wrapper<T: InternalSourceController<MeasurementDelay = ()>>(
    id: ClockId,
    inner: T,
) -> (OneWaySourceControllerWrapper<T>, SystemRxH<T::SourceMessage>) {
    let (tx, rx) = tokio::sync::mpsc::unbounded_channel();
    (
        OneWaySourceControllerWrapper {
            id,
            inner: Arc::new(Mutex::new(inner)),
            messages_for_system: tx,
        },
        SystemRxH(rx),
    )
}
pub fn twoway_has_outgoing<T: InternalSourceController<MeasurementDelay = NtpDuration>>(w: &TwoWaySourceControllerWrapper<T>) -> bool {
    w.last_outgoing_measurement.is_some()
}
pub use super::InternalTimeSyncController;
