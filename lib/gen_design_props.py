#!/usr/bin/env python3
"""Emit the per-property section of DESIGN.md from the registry (single source of truth for
functions encoded, bounds, what is outside, assumptions, stubs, harnesses) and splice it into
DESIGN.md between the markers <!-- PROPS-BEGIN --> and <!-- PROPS-END -->."""
import json, sys
sys.path.insert(0, "/verif/lib")
import registry

props = [json.loads(l) for l in open("/verif/properties.jsonl")]
known = json.load(open("/verif/known_findings.json"))["findings"]
out = []
for p in props:
    pid = p["id"]
    if pid not in registry.PROPS:
        out.append("### %s %s — **not applicable**\n\n%s\n" % (pid, p["title"], registry.NOT_APPLICABLE.get(pid, "")))
        continue
    P = registry.PROPS[pid]
    out.append("### %s %s — claimed\n" % (pid, p["title"]))
    out.append("*Functions encoded:* " + "; ".join(P.get("functions", [])) + "\n")
    out.append("*Bounds:* " + P.get("bounds", "") + "\n")
    out.append("*Outside the claim:* " + (P.get("outside", "") or "nothing further") + "\n")
    if P.get("assumptions"):
        out.append("*Assumptions:* " + "; ".join(P["assumptions"]) + "\n")
    if P.get("stub_notes"):
        out.append("*Property-specific stubs/models (trusted base):* " + "; ".join(P["stub_notes"]) + "\n")
    if P.get("extractors"):
        out.append("*Syntactic side conditions (source extractors, not solver-decided):* " + ", ".join(P["extractors"]) + "\n")
    out.append("*Harnesses* (q = quick tier, t = thorough only):\n")
    for h in P["harnesses"]:
        out.append("- `%s::%s::%s` (%s) — %s%s" % (h["crate"], h["module"], h["name"], "q" if h["tier"] == "quick" else "t", h["what"], (" [" + h["bounds"] + "]") if h.get("bounds") else ""))
    kf = [k for k in known if k["property"] == pid]
    if kf:
        out.append("\n*Findings:*\n")
        for k in kf:
            out.append("- %s (%s%s): %s" % (k["id"], k["status"], (" by " + k["commit"]) if k.get("commit") else "", k["what"]))
    out.append("")
text = "\n".join(out)
d = open("/verif/DESIGN.md").read()
a = d.index("<!-- PROPS-BEGIN -->") + len("<!-- PROPS-BEGIN -->")
b = d.index("<!-- PROPS-END -->")
open("/verif/DESIGN.md", "w").write(d[:a] + "\n" + text + "\n" + d[b:])
print("DESIGN.md props section regenerated:", len(text), "chars")
