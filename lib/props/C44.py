ST = "statime_h"
PROP = dict(
    functions=[
        "statime_csptp::source::add_correction (private, via hook wrapper)",
        "statime_csptp::source::convert_to_ntp (private, via hook wrapper)",
        "statime_csptp::messages::CsptpMessage::{deserialize,is_request,is_response} (crate-private, via thin hook wrappers) on the answer template",
        "statime_csptp::messages::tlvs::CsptpResponseTlv::try_from, statime_wire::Message::deserialize, TlvSet iteration (reached from CsptpMessage::deserialize)",
    ],
    bounds="add_correction: every 48-bit seconds / nanos < 1e9 timestamp, corrections |c>>16| < 2^32 ns (quick) and < 2^40 ns = 18 min (thorough, c44_corr_40); convert_to_ntp: every valid wire timestamp; "
           "answer template: Sync + CSPTP response TLV (66 bytes) with concrete first octet (sdoId high nibble 3 + messageType), messageLength and TLV type+length fields, every other byte symbolic",
    outside="add_correction in-range proof for |correction| >= 2^40 ns (solver time x1.7 per bit: 3 s at 2^32, 230 s at 2^40; ); convert_to_ntp binary fraction beyond three anchor points (C32 verifies the constructor it calls); the response-collection state machine collect_response itself (matching of domain and sequence id against the pending request, one-step/two-step/follow-up ordering, at-most-once): harnesses c44_collect* (scripted in-memory socket, Waker::noop, reference state machine) are written but NOT registered - CBMC exhausts 8 GB / 25 min during symbolic execution even for a single datagram (the coroutine carries two 512-byte buffers by value); CsptpSource::run (poll timer, rng, socket creation, timeout race, the two handle_measurement calls and the status update `steps_removed + 1`, which overflows in the dev profile for steps_removed = 65535); unstructured (non-template) datagrams reach only Message::deserialize, which C41 covers; "
            "more than 3 datagrams per request; timestamps whose nanoseconds field is exactly 10^9 (the wire parser accepts them, Timestamp::new does not: see report)",
    assumptions=[
        "wire timestamps handed to add_correction/convert_to_ntp have nanos < 1e9 (Timestamp::new invariant)",
        "|correction| < 2^32 ns in the quick harnesses, < 2^40 ns in c44_corr_40 (no assumption on where the corrected time lies)",
        "answer template: nanoseconds fields != 10^9 exactly",
    ],
    stub_notes=["no stubs: harnesses are plain #[kani::proof]"],
    harnesses=[
        H(ST, "c44", "c44_corr", "add_correction: no panic for ANY timestamp/correction pair with |correction| < 2^32 ns; nanos < 1e9, seconds < 2^48, result - timestamp = correction exactly (seconds modulo 2^48)"),
        H(ST, "c44", "c44_to_ntp", "convert_to_ntp: epoch shift mod 2^32, fraction at three anchor points, no panic"),
        H(ST, "c44", "c44_accept", "answer template (Sync + response TLV, 66 bytes) through CsptpMessage::deserialize: accepted iff well-formed, classified as response, every field the collection loop uses equals the bytes at its wire offset (652 s)", tier="thorough", timeout=900, timeout_thorough=1800),
        H(ST, "c44", "c44_corr_40", "the same for |correction| < 2^40 ns (18 min)", tier="thorough", timeout_thorough=1800),
        H(ST, "c44", "c44_corr_out_of_range", "regression harness for 0b63ecb: corrected time outside [0, 2^48 s) (|correction| < 2^32 ns): no panic, seconds < 2^48 and result = timestamp + correction modulo 2^48 s (fails on the pre-fix tree)"),
    ],
)
