//! Verification hooks (guard: cargo feature `pendulum_project_ntpd_rs_verif`). Re-export plumbing only.
#![allow(missing_docs, unused_imports)]
pub use crate::manager::vh_manager as manager;
pub use crate::messages::vh_messages as messages;
pub use crate::platform::vh_platform as platform;
pub use crate::server::vh_server as server;
pub use crate::source::vh_source as source;
