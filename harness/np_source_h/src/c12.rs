//! Harnesses for property C12 (see /verif/properties.jsonl): NTP version negotiation of a plain
//! source. (NTS sources use the version negotiated during key exchange: with C07.)
//!
//! Reference transition function (written from the property text):
//!   timer:    a source that is reset/demobilised keeps its state; otherwise
//!             UpgradedToV5 with the last two polls unanswered -> V4 (fallback), else unchanged.
//!             V4 sends plain v4, V4UpgradingToV5 sends a v4 upgrade request (marker "NTP5DRFT"
//!             in the reference timestamp), UpgradedToV5 and V5 send v5.
//!   incoming: only an answer that matches the pending request and has the expected version moves
//!             the state: V4UpgradingToV5{t}: marker -> UpgradedToV5, else t-1 (0 -> V4);
//!             UpgradedToV5 -> V5; V4 and V5 never move.
use crate::common::*;
use crate::stubs;
use ntp_proto::*;

type PV = ProtocolVersion;

fn ref_timer(pv: PV, reach: u8, tries: usize) -> (PV, bool) {
    if reach == 0 && tries >= 3 {
        return (pv, false);
    }
    let missed_two = reach & 0b11 == 0;
    match pv {
        PV::UpgradedToV5 if missed_two => (PV::V4, true),
        other => (other, true),
    }
}

fn ref_incoming(pv: PV, matching: bool, marker: bool) -> PV {
    if !matching {
        return pv;
    }
    match pv {
        PV::V4 => PV::V4,
        PV::V5 => PV::V5,
        PV::UpgradedToV5 => PV::V5,
        PV::V4UpgradingToV5 { tries_left } => {
            if marker {
                PV::UpgradedToV5
            } else if tries_left <= 1 {
                PV::V4
            } else {
                PV::V4UpgradingToV5 { tries_left: tries_left - 1 }
            }
        }
    }
}

fn upgrade_counter_ok(pv: PV) -> bool {
    match pv {
        PV::V4UpgradingToV5 { tries_left } => tries_left >= 1 && tries_left <= 8,
        _ => true,
    }
}

/// one `handle_timer` from an arbitrary state of the given version family;
/// returns (pre-state, version state afterwards, request sent)
#[cfg(kani)]
fn c12_timer_check(src: &Src, pre: Pre, acts: Acts) -> (Pre, PV, bool) {
    let post = sh::state(src);
    let (expect, sends) = ref_timer(pre.pv, pre.reach, pre.tries);
    assert!(post.protocol_version == expect, "C12: timer transition of the version state machine");
    assert!(upgrade_counter_ok(post.protocol_version), "C12: upgrade counter stays within 1..=8");
    assert!(acts.sent.is_some() == sends, "C12: a request is sent iff the source is not reset");
    if let Some(p) = &acts.sent {
        let v = version_bits(p);
        assert!(mode_bits(p) == 3, "C12: requests are in client mode");
        match expect {
            PV::V4 => {
                assert!(v == 4 && p.len() == 48, "C12: an NTPv4 association only sends plain NTPv4");
                assert!(!has_upgrade_marker(p), "C12: plain NTPv4 requests carry no upgrade marker");
            }
            PV::V4UpgradingToV5 { .. } => {
                assert!(v == 4 && p.len() == 48, "C12: automatic mode sends NTPv4 requests while upgrading");
                assert!(has_upgrade_marker(p), "C12: upgrade requests carry the upgrade marker");
            }
            PV::UpgradedToV5 | PV::V5 => {
                assert!(v == 5, "C12: an (upgraded) NTPv5 association only sends NTPv5");
                assert!(p.len() >= V5_LEN && p[48] == 0xF5 && p[49] == 0xFF, "C12: NTPv5 requests identify the draft");
                let mut ok = true;
                let mut i = 0;
                while i < 23 {
                    ok &= p[52 + i] == DRAFT[i];
                    i += 1;
                }
                assert!(ok, "C12: draft identification text");
            }
        }
    }
    (pre, post.protocol_version, acts.sent.is_some())
}

sharness! {
    #[kani::unwind(30)]
    fn c12_timer() {
        frozen_clock();
        let (mut src, pre) = any_source(PvClass::V4Family);
        let acts = timer_step!(v4fam, src, pre);
        let (pre, post, sent) = c12_timer_check(&src, pre, acts);
        kani::cover!(matches!(pre.pv, PV::V4UpgradingToV5 { .. }) && sent, "upgrade request sent");
        kani::cover!(matches!(pre.pv, PV::V4) && sent, "plain NTPv4 request sent");
        kani::cover!(matches!(pre.pv, PV::V4UpgradingToV5 { .. }) && !sent, "upgrading source reset");
    }
}

/// Fallback rule: an upgraded association whose last two polls went unanswered returns to plain
/// NTPv4 before it sends. The reach register is dispatched over literal values with the two low
/// bits clear (so that the decision is a constant for CBMC and only the NTPv4 serialiser runs).
/// The other half - no fallback while fewer than two polls are missed, and NTPv5 on the wire for
/// UpgradedToV5 / V5 - needs the NTPv5 request serialiser, which does not finish symbolic
/// execution even from a concrete state (> 6 min, > 4.7 GB: `ReferenceIdRequest::new(..).expect()`
/// leaves the field length symbolic and the serialisation loops are unrolled to the bound).
sharness! {
    #[kani::unwind(30)]
    fn c12_fallback() {
        frozen_clock();
        let (mut src, pre0) = any_source(PvClass::V5Family);
        let sel: u8 = kani::any();
        kani::assume(matches!(pre0.pv, PV::UpgradedToV5));
        let mut acts = Acts { n: 0, kinds: [0; 3], sent: None };
        let mut reach: u8 = 0;
        let mut run = |r: u8| {
            sh::set_protocol_version(&mut src, PV::UpgradedToV5);
            sh::set_reach(&mut src, r);
            reach = r;
            acts = collect(src.handle_timer());
        };
        match sel {
            0 => run(0x00),
            1 => run(0x04),
            2 => run(0x80),
            3 => run(0xFC),
            _ => kani::assume(false),
        }
        let pre = Pre { reach, ..pre0 };
        let (_, post, sent) = c12_timer_check(&src, pre, acts);
        kani::cover!(sent && matches!(post, PV::V4) && reach == 0x04, "fallback to NTPv4 after two missed polls");
        kani::cover!(sent && matches!(post, PV::V4) && reach == 0x00 && pre.tries < 3, "fallback during start-up");
        kani::cover!(!sent && matches!(post, PV::UpgradedToV5), "upgraded source reset instead of falling back");
    }
}

/// returns (may match, must match, marker, version state afterwards)
#[cfg(kani)]
fn incoming_body(src: &mut Src, pre: &Pre, pkt: &[u8]) -> (bool, bool, bool, PV) {
    let before = sh::state(src);
    let acts = collect(src.handle_incoming(pkt, th::ts_from_raw(1), th::ts_from_raw(2)));
    let after_t = tokio::time::Instant::now();
    let post = sh::state(src);
    let n = sh::controller(src).n_meas;
    let marker = version_bits(pkt) == 4 && has_upgrade_marker(pkt);
    let may = may_match(pre, pkt);
    let must = must_match(pre, pkt, after_t);
    // soundness: the state only moves on a matching answer, and then as the reference says
    if post.protocol_version != pre.pv {
        assert!(may, "C12: version state moved on a packet that does not answer the pending request");
        assert!(post.protocol_version == ref_incoming(pre.pv, true, marker), "C12: incoming transition of the version state machine");
    }
    // completeness: a matching answer moves it
    if must {
        assert!(post.protocol_version == ref_incoming(pre.pv, true, marker), "C12: matching answer must advance the version state machine");
    }
    if !may {
        assert!(post.protocol_version == ref_incoming(pre.pv, false, marker), "C12: non-matching packet");
    }
    assert!(upgrade_counter_ok(post.protocol_version), "C12: upgrade counter stays within 1..=8");
    // a source only accepts answers of the version it expects
    if n != 0 {
        assert!(version_expected(pre.pv, version_bits(pkt)), "C12: measured an answer of an unexpected version");
    }
    if !version_expected(pre.pv, version_bits(pkt)) {
        assert!(post == before && n == 0 && pending_unchanged(src, pre), "C12: packet of an unexpected version must be ignored");
    }
    assert!(acts.n == 0, "C12: no actions");
    (may, must, marker, post.protocol_version)
}

sharness! {
    #[kani::unwind(12)]
    fn c12_incoming() {
        frozen_clock();
        let (mut src, pre) = any_source(PvClass::Any);
        let mut p = any_pkt4();
        let b0: u8 = kani::any();
        let mut out = (false, false, false, PV::V4);
        let mut run = |v: u8| {
            p.set_b0(v);
            out = incoming_body(&mut src, &pre, p.bytes());
        };
        for_b0!(quick, b0, run);
        let (may, must, marker, post) = out;
        let pkt = p.b;
        kani::cover!(must && matches!(pre.pv, PV::V4UpgradingToV5 { .. }) && matches!(post, PV::UpgradedToV5), "upgrade on marker");
        kani::cover!(must && matches!(pre.pv, PV::V4UpgradingToV5 { tries_left: 1 }) && matches!(post, PV::V4), "eighth answer without marker: plain NTPv4");
        kani::cover!(must && matches!(pre.pv, PV::V4UpgradingToV5 { tries_left: 8 }) && matches!(post, PV::V4UpgradingToV5 { tries_left: 7 }), "first answer without marker");
        kani::cover!(!may && marker && matches!(pre.pv, PV::V4UpgradingToV5 { .. }), "unsolicited marker ignored");
        kani::cover!(must && matches!(pre.pv, PV::V4) && marker, "marker ignored by an NTPv4-only association");
        kani::cover!(must && matches!(pre.pv, PV::V4) && version_bits(&pkt[..]) == 3, "v3 answer to an NTPv4-only association");
        kani::cover!(version_bits(&pkt[..]) == 3 && matches!(pre.pv, PV::V4UpgradingToV5 { .. }) && origin_field(&pkt[..]) == pre.pending_id && pre.has_pending && pre.deadline >= pre.base, "v3 packet while upgrading ignored");
        kani::cover!(version_bits(&pkt[..]) == 4 && matches!(pre.pv, PV::V5) && origin_field(&pkt[..]) == pre.pending_id && pre.has_pending && pre.deadline >= pre.base, "v4 packet to an NTPv5 association ignored");
    }
}

/// Confirmation of the upgrade (quick): an UpgradedToV5 association becomes V5 on a matching
/// NTPv5 answer and ONLY then - a well-formed NTPv5 server packet with a foreign client cookie,
/// or one that arrives late, leaves it in UpgradedToV5 (so that the fallback can still happen).
/// One header combination (server mode, synchronized), all other header octets symbolic.
/// (Assertions and cover goals live in ONE function, assertions first: the driver replays the
/// first playback test Kani prints, and Kani prints them in check order.)
#[cfg(kani)]
fn confirm_body(src: &mut Src, pre: &Pre, pkt: &[u8]) {
    let acts = collect(src.handle_incoming(pkt, th::ts_from_raw(1), th::ts_from_raw(2)));
    let after_t = tokio::time::Instant::now();
    let post = sh::state(src).protocol_version;
    let may = may_match(pre, pkt);
    let must = must_match(pre, pkt, after_t);
    assert!(acts.n == 0, "C12: no actions");
    assert!(matches!(post, PV::UpgradedToV5) || matches!(post, PV::V5), "C12: an upgraded association only moves to V5 on incoming packets");
    if !may {
        assert!(matches!(post, PV::UpgradedToV5), "C12: a packet that does not answer the pending request confirmed the upgrade");
    }
    if must {
        assert!(matches!(post, PV::V5), "C12: the first matching NTPv5 answer confirms the upgrade");
    }
    kani::cover!(must && matches!(post, PV::V5), "matching NTPv5 answer confirms the upgrade");
    kani::cover!(!may && pre.has_pending && pre.deadline >= pre.base && matches!(post, PV::UpgradedToV5), "NTPv5 packet with a foreign client cookie does not confirm");
    kani::cover!(!may && pre.has_pending && origin_field(pkt) == pre.pending_id && matches!(post, PV::UpgradedToV5), "late NTPv5 answer does not confirm");
}

sharness! {
    #[kani::unwind(30)]
    fn c12_confirm() {
        frozen_clock();
        let (mut src, pre0) = any_source(PvClass::V5Family);
        let mut p = any_pkt5();
        kani::assume(matches!(pre0.pv, PV::UpgradedToV5));
        let pre = Pre { pv: PV::UpgradedToV5, ..pre0 };
        sh::set_protocol_version(&mut src, PV::UpgradedToV5);
        p.set_hdr(0x2C, 0, 0, 0b001, b'9');
        confirm_body(&mut src, &pre, p.bytes());
    }
}

sharness! {
    #[kani::unwind(30)]
    fn c12_incoming_v5() {
        frozen_clock();
        let (mut src, pre) = any_source(PvClass::Any);
        let mut p = any_pkt5();
        let sel: u8 = kani::any();
        let mut out = (false, false, false, PV::V4);
        let mut run = |b0: u8, b12: u8, b14: u8, b15: u8, last: u8| {
            p.set_hdr(b0, b12, b14, b15, last);
            out = incoming_body(&mut src, &pre, p.bytes());
        };
        for_v5hdr!(quick, sel, run);
        let (may, must, marker, post) = out;
        let pkt = p.bytes();
        kani::cover!(must && matches!(pre.pv, PV::UpgradedToV5) && matches!(post, PV::V5), "first NTPv5 answer confirms the upgrade");
        kani::cover!(must && matches!(pre.pv, PV::V5), "NTPv5 answer to an NTPv5 association");
        kani::cover!(!may && matches!(pre.pv, PV::UpgradedToV5) && decodable(pkt), "non-matching NTPv5 packet does not confirm");
        kani::cover!(version_bits(&pkt[..]) == 5 && decodable(pkt) && matches!(pre.pv, PV::V4UpgradingToV5 { .. }) && origin_field(&pkt[..]) == pre.pending_id && pre.has_pending && pre.deadline >= pre.base, "v5 packet while upgrading ignored");
        kani::cover!(version_bits(&pkt[..]) == 5 && decodable(pkt) && matches!(pre.pv, PV::V4) && origin_field(&pkt[..]) == pre.pending_id && pre.has_pending && pre.deadline >= pre.base, "v5 packet to an NTPv4 association ignored");
    }
}
