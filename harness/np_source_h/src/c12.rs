//! Harnesses for property C12 (see /verif/properties.jsonl).
use crate::stubs;
