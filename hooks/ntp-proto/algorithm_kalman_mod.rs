//! Safe-Rust verification hooks for this module (accessors/wrappers only; no logic).
#![allow(unused_imports, dead_code)]
use super::*;
pub use super::combiner::verif_hooks as combiner;
pub use super::config::verif_hooks as config;
pub use super::matrix::verif_hooks as matrix;
pub use super::select::verif_hooks as select;
pub use super::source::verif_hooks as source;
