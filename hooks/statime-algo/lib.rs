//! Verification hooks (guard: cargo feature `pendulum_project_ntpd_rs_verif`). Re-export plumbing only.
#![allow(missing_docs, unused_imports)]
pub use crate::estimator::vh_estimator as estimator;
pub use crate::filter::vh_filter as filter;
pub use crate::link_noise::vh_link_noise as link_noise;
pub use crate::matrix::vh_matrix as matrix;
pub use crate::storage::vh_storage as storage;

// ---- statime_h (C42/C43): controller internals (thin wrappers, no logic)
pub mod controller {
    use crate::filter::LinkFilter;
    use crate::storage::{KalmanStorage, StateMutex};
    use crate::{AlgoError, KalmanController};
    use statime_base::Clock;

    /// Calls the private `KalmanControllerState::steer_clocks`.
    pub fn steer_clocks<S: KalmanStorage<C>, C: Clock>(ctl: &KalmanController<S, C>) -> Result<(), AlgoError> {
        ctl.state.with_mut(|s| s.steer_clocks())
    }
    /// Runs `f` on the controller's filter (read/write access to the state the queries read).
    pub fn with_filter<S: KalmanStorage<C>, C: Clock, R>(
        ctl: &KalmanController<S, C>,
        f: impl FnOnce(&mut LinkFilter<S>) -> R,
    ) -> R {
        ctl.state.with_mut(|s| f(&mut s.filter))
    }
    pub fn steered_clock_count<S: KalmanStorage<C>, C: Clock>(ctl: &KalmanController<S, C>) -> usize {
        ctl.state.with_ref(|s| s.clocks.len())
    }
}
